import OV.Lemmas.C01Scope
/-!
# Lemmas for C01: forward simulation for straight-line code

The source store and the graph environment are related by `StoreRel`: a Python variable holding a tensor is
bound to a non-castable ONNX value holding the same tensor; a variable holding a Python scalar is bound to
a castable value holding the `Constant` of that scalar.  Every converter function is shown to preserve the
relation while the emitted nodes evaluate to the value the source expression has.
-/
namespace OV.C01

variable {V : Type}

/-! ## Evaluating node lists -/

theorem evalNodes_append (S : Sem V) (fuel : Nat) : ∀ (a b : List Node) (ρ : Env V),
    evalNodes S fuel ρ (a ++ b) =
      (match evalNodes S fuel ρ a with
       | none => none
       | some ρ' => evalNodes S fuel ρ' b) := by
  intro a
  induction a with
  | nil => intro b ρ; simp [evalNodes]
  | cons n ns ih =>
    intro b ρ
    simp only [List.cons_append, evalNodes]
    cases evalNode S fuel ρ n with
    | none => rfl
    | some ρ' => simp only [ih]

theorem evalNodes_nil (S : Sem V) (fuel : Nat) (ρ : Env V) : evalNodes S fuel ρ [] = some ρ := by
  simp [evalNodes]

theorem evalNodes_seq {S : Sem V} {fuel : Nat} {a b : List Node} {ρ ρ1 ρ2 : Env V}
    (h1 : evalNodes S fuel ρ a = some ρ1) (h2 : evalNodes S fuel ρ1 b = some ρ2) :
    evalNodes S fuel ρ (a ++ b) = some ρ2 := by
  rw [evalNodes_append, h1]; exact h2

/-- One operator node with a single output. -/
theorem evalNodes_op1 {S : Sem V} {fuel : Nat} {ρ : Env V} {dom name : String} {ins : List (Option Name)}
    {r : Name} {attrs : List (String × AttrV)} {vs : List (Option V)} {v : V}
    (hins : ins.mapM ρ.getOpt = some vs) (hop : S.op dom name vs attrs = some [v]) :
    evalNodes S fuel ρ [Node.op dom name ins [r] attrs] = some (ρ.set r v) := by
  simp [evalNodes, evalNode, hins, hop, Env.setMany]

theorem Env.set_same (ρ : Env V) (x : Name) (v : V) : (ρ.set x v) x = some v := by simp [Env.set]
theorem Env.set_other (ρ : Env V) {x y : Name} (v : V) (h : y ≠ x) : (ρ.set x v) y = ρ y := by
  simp [Env.set, h]

theorem mapM_getOpt_some {ρ : Env V} : ∀ (xs : List Name) (vs : List V),
    xs.mapM ρ = some vs → (xs.map some).mapM ρ.getOpt = some (vs.map some) := by
  intro xs
  induction xs with
  | nil => intro vs h; simp at h; subst h; simp
  | cons x xs ih =>
    intro vs h
    simp only [List.mapM_cons] at h
    cases hx : ρ x with
    | none => simp [hx] at h
    | some v =>
      cases hr : xs.mapM ρ with
      | none => simp [hx, hr] at h
      | some rest =>
        simp [hx, hr] at h
        subst h
        simp [List.mapM_cons, Env.getOpt, hx, ih rest hr]

end OV.C01

namespace OV.C01

variable {V : Type}

/-- Pointwise relation between two lists of equal length. -/
inductive All2 {α β : Type} (R : α → β → Prop) : List α → List β → Prop
  | nil : All2 R [] []
  | cons (a : α) (b : β) (as : List α) (bs : List β) : R a b → All2 R as bs → All2 R (a :: as) (b :: bs)

/-! ## The simulation relation -/

/-- ONNX value `n` holds the Python-level value `pv`. -/
def RelV (S : Sem V) (env : Env V) (cast : List Name) (n : Name) : PV V → Prop
  | .t v => env n = some v ∧ n ∉ cast
  | .py l => (∃ c, constOf S l = some c ∧ env n = some c) ∧ n ∈ cast

def StoreRel (S : Sem V) (ρ : Store V) (L : Locals) (env : Env V) (cast : List Name) : Prop :=
  ∀ x pv, ρ x = some pv → ∃ n, lookup L x = some (.val n) ∧ RelV S env cast n pv

/-- What a computation may change: nothing about names that were already in use. -/
structure Ext (env env' : Env V) (s s' : St) : Prop where
  envSame : ∀ n, n ∈ s.used → env' n = env n
  castSame : ∀ n, n ∈ s.used → (n ∈ s'.castable ↔ n ∈ s.castable)

def CastSub (s : St) : Prop := ∀ n, n ∈ s.castable → n ∈ s.used

theorem Ext.refl (env : Env V) (s : St) : Ext env env s s := ⟨fun _ _ => rfl, fun _ _ => Iff.rfl⟩

theorem Ext.trans {e0 e1 e2 : Env V} {s0 s1 s2 : St} (h1 : Ext e0 e1 s0 s1) (m : Mono s0 s1)
    (h2 : Ext e1 e2 s1 s2) : Ext e0 e2 s0 s2 :=
  ⟨fun n hn => (h2.envSame n (m n hn)).trans (h1.envSame n hn),
   fun n hn => (h2.castSame n (m n hn)).trans (h1.castSame n hn)⟩

theorem RelV.ext {S : Sem V} {env env' : Env V} {s s' : St} {n : Name} {pv : PV V}
    (h : RelV S env s.castable n pv) (hn : n ∈ s.used) (e : Ext env env' s s') :
    RelV S env' s'.castable n pv := by
  cases pv with
  | t v =>
    exact ⟨(e.envSame n hn).trans h.1, fun hc => h.2 ((e.castSame n hn).mp hc)⟩
  | py l =>
    obtain ⟨⟨c, hc, he⟩, hm⟩ := h
    exact ⟨⟨c, hc, (e.envSame n hn).trans he⟩, (e.castSame n hn).mpr hm⟩

theorem StoreRel.ext {S : Sem V} {ρ : Store V} {L : Locals} {env env' : Env V} {s s' : St}
    (h : StoreRel S ρ L env s.castable) (hL : VisOK s.used L) (e : Ext env env' s s') :
    StoreRel S ρ L env' s'.castable := by
  intro x pv hx
  obtain ⟨n, hl, hr⟩ := h x pv hx
  exact ⟨n, hl, hr.ext (hL.lookup hl) e⟩

/-- The tensor a related value holds. -/
theorem RelV.plain {S : Sem V} {env : Env V} {cast : List Name} {n : Name} {pv : PV V}
    (h : RelV S env cast n pv) {v : V} (hp : plainVal S pv = some v) : env n = some v := by
  cases pv with
  | t w => simp only [plainVal] at hp; cases hp; exact h.1
  | py l =>
    obtain ⟨⟨c, hc, he⟩, _⟩ := h
    simp only [plainVal] at hp
    rw [hc] at hp; cases hp; exact he

/-! ## Fresh single-output nodes -/

theorem ext_set_fresh (env : Env V) {s s' : St} {r : Name} (v : V) (hr : r ∉ s.used)
    (hc : ∀ n, n ∈ s.used → (n ∈ s'.castable ↔ n ∈ s.castable)) : Ext env (env.set r v) s s' :=
  ⟨fun n hn => Env.set_other env v (fun he => hr (he ▸ hn)), hc⟩

theorem constOf_op {S : Sem V} {l : Lit} {c : V} (h : constOf S l = some c) :
    S.op "" "Constant" [] [("value", .const (litPayload l))] = some [c] := by
  unfold constOf at h
  split at h
  · rename_i v hv; cases h; exact hv
  · cases h

theorem emitConst_sim (S : Sem V) (fuel : Nat) (env : Env V) {l : Lit} {sug : Option Name} {x : Name}
    {ns : List Node} {s s' : St} {c : V} (hc : constOf S l = some c) (hs : CastSub s)
    (h : emitConst l sug s = .ok ((x, ns), s')) :
    evalNodes S fuel env ns = some (env.set x c) ∧ RelV S (env.set x c) s'.castable x (.py l)
      ∧ Ext env (env.set x c) s s' ∧ CastSub s' := by
  unfold emitConst at h
  mbind h with n s1 hn
  mbind h with u s2 hm
  obtain ⟨h1, h2⟩ := pure_ok h
  cases h1; subst h2
  obtain ⟨hfresh, hused, hcast⟩ := genUnique_spec hn
  unfold markCastable at hm
  cases hm
  refine ⟨evalNodes_op1 (by simp) (constOf_op hc), ⟨⟨c, hc, Env.set_same _ _ _⟩, by simp⟩, ?_, ?_⟩
  · apply ext_set_fresh _ _ hfresh
    intro m hm
    simp only [List.mem_cons, hcast]
    constructor
    · rintro (rfl | h)
      · exact absurd hm hfresh
      · exact h
    · exact Or.inr
  · intro m hm
    simp only [List.mem_cons, hcast] at hm
    rw [hused]
    rcases hm with rfl | hm
    · exact List.mem_cons_self
    · exact List.mem_cons_of_mem _ (hs m hm)

end OV.C01

namespace OV.C01

variable {V : Type}

/-! ## Promotion: static (`castInputs`, by castable names) versus dynamic (`argVals`, by Python scalars) -/

def BRel (env : Env V) (bs : List (String × Name)) (vb : List (String × V)) : Prop :=
  All2 (fun p q => p.1 = q.1 ∧ env p.2 = some q.2) bs vb

theorem bindings_rel {S : Sem V} {env : Env V} {cast : List Name} {sig : Sig} :
    ∀ (as : List Name) (pvs : List (PV V)), All2 (RelV S env cast) as pvs →
    ∀ (i : Nat) (acc : List (String × Name)) (vacc : List (String × V)) {bs : List (String × Name)}
      {vb : List (String × V)}, BRel env acc vacc →
      castBindings sig cast as i acc = some bs → valBindings sig pvs i vacc = some vb → BRel env bs vb := by
  intro as pvs hrel
  induction hrel with
  | nil =>
    intro i acc vacc bs vb hacc h1 h2
    simp only [castBindings] at h1
    simp only [valBindings] at h2
    cases h1; cases h2
    exact hacc
  | cons a pv as' pvs' hr _ ih =>
    intro i acc vacc bs vb hacc h1 h2
    unfold castBindings at h1
    unfold valBindings at h2
    cases hf : formalTv sig i with
    | none => simp only [hf] at h1; cases h1
    | some otv =>
      cases otv with
      | none =>
        simp only [hf] at h1 h2
        exact ih _ _ _ hacc h1 h2
      | some tv =>
        simp only [hf] at h1 h2
        cases pv with
        | t v =>
          have hnc : cast.contains a = false := by
            simpa using hr.2
          simp only [hnc] at h1
          simp only at h2
          exact ih _ _ _ (All2.cons _ _ _ _ ⟨rfl, hr.1⟩ hacc) h1 h2
        | py l =>
          have hc : cast.contains a = true := by simpa using hr.2
          simp only [hc, if_true] at h1
          simp only at h2
          exact ih _ _ _ hacc h1 h2

theorem find_rel {env : Env V} {bs : List (String × Name)} {vb : List (String × V)} (h : BRel env bs vb)
    (tv : String) :
    (findBinding bs tv = none ∧ findVal vb tv = none) ∨
      (∃ y v, findBinding bs tv = some y ∧ findVal vb tv = some v ∧ env y = some v) := by
  induction h with
  | nil => left; simp [findBinding, findVal]
  | cons p q bs' vb' hp _ ih =>
    obtain ⟨t, y⟩ := p
    obtain ⟨t', v⟩ := q
    simp only at hp
    obtain ⟨rfl, he⟩ := hp
    unfold findBinding findVal
    by_cases ht : t = tv
    · right; exact ⟨y, v, by simp [ht], by simp [ht], he⟩
    · simp only [ht, if_false]; exact ih

theorem target_rel {env : Env V} {bs : List (String × Name)} {vb : List (String × V)} (h : BRel env bs vb)
    (sig : Sig) (i : Nat) :
    (castTarget sig bs i = none ∧ valTarget sig vb i = none) ∨
      (∃ y v, castTarget sig bs i = some y ∧ valTarget sig vb i = some v ∧ env y = some v) := by
  unfold castTarget valTarget
  cases formalTv sig i with
  | none => left; exact ⟨rfl, rfl⟩
  | some otv =>
    cases otv with
    | none => left; exact ⟨rfl, rfl⟩
    | some tv => exact find_rel h tv

theorem BRel.ext {env env' : Env V} {s s' : St} {bs : List (String × Name)} {vb : List (String × V)}
    (h : BRel env bs vb) (hu : ∀ t y, (t, y) ∈ bs → y ∈ s.used) (e : Ext env env' s s') : BRel env' bs vb := by
  induction h with
  | nil => exact All2.nil
  | cons p q bs' vb' hp _ ih =>
    refine All2.cons _ _ _ _ ⟨hp.1, ?_⟩ (ih (fun t y hm => hu t y (List.mem_cons_of_mem _ hm)))
    rw [e.envSame _ (hu p.1 p.2 List.mem_cons_self)]
    exact hp.2

theorem forall2_relV_ext {S : Sem V} {env env' : Env V} {s s' : St} {as : List Name} {pvs : List (PV V)}
    (h : All2 (RelV S env s.castable) as pvs) (hu : ∀ a, a ∈ as → a ∈ s.used) (e : Ext env env' s s') :
    All2 (RelV S env' s'.castable) as pvs := by
  induction h with
  | nil => exact All2.nil
  | cons a b as bs hr _ ih =>
    exact All2.cons _ _ _ _ (hr.ext (hu _ List.mem_cons_self) e)
      (ih (fun a ha => hu a (List.mem_cons_of_mem _ ha)))

theorem castOne_sim (S : Sem V) (fuel : Nat) {env : Env V} {s s1 : St} {a x : Name} {pv : PV V}
    {tgt : Option Name} {vtgt : Option V} {n1 : List Node} {v : V}
    (hr : RelV S env s.castable a pv) (ha : a ∈ s.used)
    (ht : (tgt = none ∧ vtgt = none) ∨ (∃ y yv, tgt = some y ∧ vtgt = some yv ∧ env y = some yv))
    (h : castOne a tgt s = .ok ((x, n1), s1)) (hv : promoteOne S pv vtgt = some v) :
    ∃ env1, evalNodes S fuel env n1 = some env1 ∧ env1 x = some v ∧ Ext env env1 s s1
      ∧ s1.castable = s.castable ∧ x ∈ s1.used ∧ Mono s s1 := by
  unfold castOne at h
  have plain : ∀ (w : V), env a = some w → tgt = none ∨ s.castable.contains a = false →
      (x, n1, s1) = (a, [], s) → v = w →
      ∃ env1, evalNodes S fuel env n1 = some env1 ∧ env1 x = some v ∧ Ext env env1 s s1
        ∧ s1.castable = s.castable ∧ x ∈ s1.used ∧ Mono s s1 := by
    intro w hw _ he hvw
    cases he; subst hvw
    exact ⟨env, evalNodes_nil _ _ _, hw, Ext.refl _ _, rfl, ha, Mono.refl _⟩
  cases pv with
  | t w =>
    simp only [promoteOne] at hv
    cases hv
    have hnc : s.castable.contains a = false := by simpa using hr.2
    cases tgt with
    | none => simp only at h; cases h; exact plain v hr.1 (Or.inl rfl) rfl rfl
    | some y =>
      simp only [hnc] at h
      cases h
      exact plain v hr.1 (Or.inr hnc) rfl rfl
  | py l =>
    obtain ⟨⟨c, hc, hea⟩, hm⟩ := hr
    simp only [promoteOne, hc] at hv
    rcases ht with ⟨rfl, rfl⟩ | ⟨y, yv, rfl, rfl, hey⟩
    · simp only at h hv
      cases h; cases hv
      exact ⟨env, evalNodes_nil _ _ _, hea, Ext.refl _ _, rfl, ha, Mono.refl _⟩
    · have hcc : s.castable.contains a = true := by simpa using hm
      simp only [hcc, if_true] at h
      simp only at hv
      cases hg : genUnique (a ++ "_cast") s with
      | error e => simp only [hg] at h; cases h
      | ok p =>
        obtain ⟨xc, s2⟩ := p
        simp only [hg] at h
        cases h
        obtain ⟨hfresh, hused, hcast⟩ := genUnique_spec hg
        cases hop : S.op "" "CastLike" [some c, some yv] [] with
        | none => simp [hop] at hv
        | some rs =>
          cases rs with
          | nil => simp [hop] at hv
          | cons r0 rest =>
            cases rest with
            | cons _ _ => simp [hop] at hv
            | nil =>
              simp only [hop] at hv
              cases hv
              refine ⟨env.set x v, evalNodes_op1 (vs := [some c, some yv]) ?_ hop, Env.set_same _ _ _, ?_, hcast,
                by rw [hused]; exact List.mem_cons_self, (genUnique_fresh hg).1⟩
              · simp [List.mapM_cons, Env.getOpt, hea, hey]
              · exact ext_set_fresh _ _ hfresh (fun n _ => by rw [hcast])

theorem castArgs_sim (S : Sem V) (fuel : Nat) {sig : Sig} {bs : List (String × Name)} {vb : List (String × V)} :
    ∀ (as : List Name) (pvs : List (PV V)) (i : Nat) (env : Env V) (s : St) {xs : List Name} {ns : List Node}
      {s' : St} {vs : List V},
      All2 (RelV S env s.castable) as pvs → (∀ a, a ∈ as → a ∈ s.used) → BRel env bs vb →
      (∀ t y, (t, y) ∈ bs → y ∈ s.used) →
      castArgs sig bs as i s = .ok ((xs, ns), s') → promoteArgs S sig vb pvs i = some vs →
      ∃ env', evalNodes S fuel env ns = some env' ∧ xs.mapM env' = some vs ∧ Ext env env' s s'
        ∧ s'.castable = s.castable ∧ Mono s s' := by
  intro as
  induction as with
  | nil =>
    intro pvs i env s xs ns s' vs hrel _ _ _ h hv
    cases hrel
    unfold castArgs at h
    obtain ⟨e1, e2⟩ := pure_ok h
    cases e1; subst e2
    simp only [promoteArgs] at hv
    cases hv
    exact ⟨env, evalNodes_nil _ _ _, by simp, Ext.refl _ _, rfl, Mono.refl _⟩
  | cons a as ih =>
    intro pvs i env s xs ns s' vs hrel hused hb hbu h hv
    cases hrel with
    | cons _ pv _ pvs' hr hrest =>
      unfold castArgs at h
      mbind h with p s1 hc
      obtain ⟨x, n1⟩ := p
      try dsimp only at h
      mbind h with p s2 hrec
      obtain ⟨rest, ns'⟩ := p
      try dsimp only at h
      obtain ⟨e1, e2⟩ := pure_ok h
      cases e1; subst e2
      unfold promoteArgs at hv
      cases hone : promoteOne S pv (valTarget sig vb i) with
      | none => simp [hone] at hv
      | some v =>
        cases hrestv : promoteArgs S sig vb pvs' (i + 1) with
        | none => simp [hone, hrestv] at hv
        | some vs' =>
          simp only [hone, hrestv] at hv
          cases hv
          obtain ⟨env1, ev1, hx, e1, hcast1, hxu, m1⟩ :=
            castOne_sim S fuel hr (hused a List.mem_cons_self) (target_rel hb sig i) hc hone
          have hrest1 := forall2_relV_ext hrest (fun a' ha' => hused a' (List.mem_cons_of_mem _ ha')) e1
          obtain ⟨env2, ev2, hm2, e2, hcast2, m2⟩ := ih pvs' (i + 1) env1 s1 hrest1
            (fun a' ha' => m1 _ (hused a' (List.mem_cons_of_mem _ ha'))) (hb.ext hbu e1)
            (fun t y hm => m1 _ (hbu t y hm)) hrec hrestv
          refine ⟨env2, evalNodes_seq ev1 ev2, ?_, e1.trans m1 e2, by rw [hcast2, hcast1], m1.trans m2⟩
          simp [List.mapM_cons, e2.envSame x hxu, hx, hm2]

end OV.C01

namespace OV.C01

variable {V : Type}

theorem all2_plain_mapM {S : Sem V} {env : Env V} {cast : List Name} :
    ∀ {as : List Name} {pvs : List (PV V)}, All2 (RelV S env cast) as pvs → ∀ {vs : List V},
      pvs.mapM (plainVal S) = some vs → as.mapM env = some vs := by
  intro as pvs h
  induction h with
  | nil => intro vs hv; simp at hv; subst hv; simp
  | cons a pv as' pvs' hr _ ih =>
    intro vs hv
    simp only [List.mapM_cons] at hv
    cases hp : plainVal S pv with
    | none => simp [hp] at hv
    | some v =>
      cases hr' : pvs'.mapM (plainVal S) with
      | none => simp [hp, hr'] at hv
      | some vs' =>
        simp [hp, hr'] at hv
        subst hv
        simp [List.mapM_cons, hr.plain hp, ih hr']

theorem castInputs_sim (S : Sem V) (fuel : Nat) {sig : Sig} {as : List Name} {pvs : List (PV V)}
    {env : Env V} {s s' : St} {xs : List Name} {ns : List Node} {vs : List V}
    (hrel : All2 (RelV S env s.castable) as pvs) (hused : ∀ a, a ∈ as → a ∈ s.used)
    (h : castInputs sig as s = .ok ((xs, ns), s')) (hv : argVals S sig pvs = some vs) :
    ∃ env', evalNodes S fuel env ns = some env' ∧ xs.mapM env' = some vs ∧ Ext env env' s s'
      ∧ s'.castable = s.castable ∧ Mono s s' := by
  unfold castInputs at h
  unfold argVals at hv
  by_cases hk : (!sig.known) = true
  · rw [if_pos hk] at h hv
    cases h
    exact ⟨env, evalNodes_nil _ _ _, all2_plain_mapM hrel hv, Ext.refl _ _, rfl, Mono.refl _⟩
  · rw [if_neg hk] at h hv
    cases hbs : castBindings sig s.castable as 0 [] with
    | none => simp only [hbs] at h; cases h
    | some bs =>
      simp only [hbs] at h
      cases hvb : valBindings sig pvs 0 [] with
      | none => simp only [hvb] at hv; cases hv
      | some vb =>
        simp only [hvb] at hv
        have hb : BRel env bs vb := bindings_rel as pvs hrel 0 [] [] All2.nil hbs hvb
        have hbu : ∀ t y, (t, y) ∈ bs → y ∈ s.used := by
          intro t y hm
          rcases castBindings_mem as 0 [] hbs t y hm with h' | h'
          · exact hused y h'
          · cases h'
        exact castArgs_sim S fuel as pvs 0 env s hrel hused hb hbu h hv

/-! ## Expressions -/

/-- The attribute bindings in scope are the identity bindings of attribute parameters (`alpha ↦ AttrRef alpha`).
That is all the refinement theorems assume about attribute parameters: they may be passed on as keyword arguments
(`alpha=alpha`); read as *values* they have no meaning in the plain-Python semantics of the model, and they must
not be re-assigned (`FreeOf`). -/
def AttrVal (S : Sem V) (p : Name) (ty : AttrTy) (l : Lit) : Prop :=
  ∀ c, constOf S l = some c →
    if ty = .bool then
      ∃ c1, S.op "" "Constant" [] [("value_int", .ref p)] = some [c1] ∧
        S.op "" "Cast" [some c1] [("to", .const "i:9")] = some [c]
    else ∃ an, attrValueName ty = some an ∧ S.op "" "Constant" [] [(an, .ref p)] = some [c]

/-- The attribute bindings in scope are identity bindings, and every attribute parameter the closure gives a Python
value (`S.attrLit`) is still bound to itself, the operators reading `@x` as the constant of that value (`AttrVal`:
what `_to_onnx_var` emits for an attribute — `Constant(value_<kind>=@x)`, for a `bool` followed by a `Cast` to
BOOL — yields what `Constant` of the literal yields). -/
def NoAttrBind (S : Sem V) (L : Locals) : Prop :=
  (∀ x p ty, lookup L x = some (.attr p ty) → p = x) ∧
  (∀ x l, S.attrLit x = some l → ∃ ty, lookup L x = some (.attr x ty) ∧ AttrVal S x ty l)

/-- What `_to_onnx_var` emits for an attribute parameter evaluates to the constant of its Python value, castable. -/
theorem attrVar_sim (S : Sem V) (fuel : Nat) (env : Env V) {p : Name} {ty : AttrTy} {tgt : Name} {l : Lit}
    {x : Name} {ns : List Node} {s s' : St} {c : V} (hv : AttrVal S p ty l) (hc : constOf S l = some c)
    (hs : CastSub s) (h : toOnnxVar (.attr p ty) tgt s = .ok ((x, ns), s')) :
    ∃ env', evalNodes S fuel env ns = some env' ∧ RelV S env' s'.castable x (.py l) ∧ Ext env env' s s'
      ∧ CastSub s' := by
  unfold toOnnxVar at h
  mbind h with r s1 hr
  obtain ⟨hfresh, hused, hcast⟩ := genUnique_spec hr
  cases han : attrValueName ty with
  | none => simp only [han] at h; exact (failM_ok h).elim
  | some an =>
    simp only [han] at h
    have hv' := hv c hc
    by_cases hb : ty = .bool
    · rw [if_pos hb] at h hv'
      subst hb
      obtain ⟨c1, hop1, hop2⟩ := hv'
      simp only [attrValueName] at han
      cases han
      mbind h with rb s2 hrb
      obtain ⟨hfresh2, hused2, hcast2⟩ := genUnique_spec hrb
      mbind h with u s3 hm
      unfold markCastable at hm
      cases hm
      obtain ⟨h1, h2⟩ := pure_ok h
      cases h1; subst h2
      refine ⟨(env.set r c1).set x c, ?_, ⟨⟨c, hc, Env.set_same _ _ _⟩, by simp⟩, ?_, ?_⟩
      · have e1 : evalNodes S fuel env [Node.op "" "Constant" [] [r] [("value_int", .ref p)]]
            = some (env.set r c1) := evalNodes_op1 (by simp) hop1
        have e2 : evalNodes S fuel (env.set r c1)
            [Node.op "" "Cast" [some r] [x] [("to", .const "i:9")]] = some ((env.set r c1).set x c) :=
          evalNodes_op1 (vs := [some c1]) (by simp [List.mapM_cons, Env.getOpt, Env.set_same]) hop2
        simpa using evalNodes_seq e1 e2
      · refine ⟨fun n hn => ?_, fun n hn => ?_⟩
        · have hnr : n ≠ r := fun he => hfresh (he ▸ hn)
          have hnrb : n ≠ x := fun he => hfresh2 (by rw [hused, ← he]; exact List.mem_cons_of_mem _ hn)
          rw [Env.set_other _ _ hnrb, Env.set_other _ _ hnr]
        · have hnrb : n ≠ x := fun he => hfresh2 (by rw [hused, ← he]; exact List.mem_cons_of_mem _ hn)
          simp only [List.mem_cons, hcast2, hcast]
          constructor
          · rintro (h' | h')
            · exact absurd h' hnrb
            · exact h'
          · exact Or.inr
      · intro m hm
        simp only [List.mem_cons, hcast2, hcast] at hm
        rw [hused2, hused]
        rcases hm with rfl | hm
        · exact List.mem_cons_self
        · exact List.mem_cons_of_mem _ (List.mem_cons_of_mem _ (hs m hm))
    · rw [if_neg hb] at h hv'
      obtain ⟨an', han', hop⟩ := hv'
      rw [han] at han'
      cases han'
      mbind h with u s2 hm
      unfold markCastable at hm
      cases hm
      obtain ⟨h1, h2⟩ := pure_ok h
      cases h1; subst h2
      refine ⟨env.set x c, evalNodes_op1 (by simp) hop, ⟨⟨c, hc, Env.set_same _ _ _⟩, by simp⟩, ?_, ?_⟩
      · apply ext_set_fresh _ _ hfresh
        intro m hm
        simp only [List.mem_cons, hcast]
        constructor
        · rintro (rfl | h')
          · exact absurd hm hfresh
          · exact h'
        · exact Or.inr
      · intro m hm
        simp only [List.mem_cons, hcast] at hm
        rw [hused]
        rcases hm with rfl | hm
        · exact List.mem_cons_self
        · exact List.mem_cons_of_mem _ (hs m hm)

/-- No name of `ts` is an attribute parameter with a Python value, nor one of the variables that hold Python
scalars (`S.pyVars`). -/
def TFree (S : Sem V) (ts : List Name) : Prop := ∀ x, x ∈ ts → S.attrLit x = none ∧ x ∉ S.pyVars

theorem TFree.sub {S : Sem V} {ts ts' : List Name} (h : TFree S ts) (hs : ∀ x, x ∈ ts' → x ∈ ts) : TFree S ts' :=
  fun x hx => h x (hs x hx)

theorem TFree.head {S : Sem V} {st : Stmt} {ss : List Stmt} (h : TFree S (targetsBlock (st :: ss))) :
    TFree S (targetsStmt st) ∧ TFree S (targetsBlock ss) :=
  ⟨h.sub (fun x hx => by simp [targetsBlock, hx]), h.sub (fun x hx => by simp [targetsBlock, hx])⟩

/-- None of the names `ts` (the names a statement may bind, or reads as a bare right-hand side) is bound to an
attribute in `L` — an attribute parameter that is re-assigned inside a branch or a loop would be exported as a
castable `Constant` (C01-D24) — or is one of the Python-scalar variables. -/
def FreeOf (S : Sem V) (L : Locals) (ts : List Name) : Prop :=
  ∀ x, x ∈ ts → (∀ p ty, lookup L x ≠ some (.attr p ty)) ∧ x ∉ S.pyVars

/-- `L'` has no attribute binding that `L` does not have (translation only ever adds value bindings). -/
def AttrMono (L L' : Locals) : Prop := ∀ x p ty, lookup L' x = some (.attr p ty) → lookup L x = some (.attr p ty)

theorem AttrMono.refl (L : Locals) : AttrMono L L := fun _ _ _ h => h
theorem AttrMono.trans {a b c : Locals} (h1 : AttrMono a b) (h2 : AttrMono b c) : AttrMono a c :=
  fun x p ty h => h1 x p ty (h2 x p ty h)

theorem FreeOf.mono {S : Sem V} {L L' : Locals} {ts : List Name} (h : FreeOf S L ts) (m : AttrMono L L') :
    FreeOf S L' ts :=
  fun x hx => ⟨fun p ty hl => (h x hx).1 p ty (m x p ty hl), (h x hx).2⟩

theorem FreeOf.sub {S : Sem V} {L : Locals} {ts ts' : List Name} (h : FreeOf S L ts) (hs : ∀ x, x ∈ ts' → x ∈ ts) :
    FreeOf S L ts' :=
  fun x hx => h x (hs x hx)

theorem TFree.of_free {S : Sem V} {L : Locals} {ts : List Name} (hA : NoAttrBind S L) (hf : FreeOf S L ts) :
    TFree S ts := by
  intro x hx
  refine ⟨?_, (hf x hx).2⟩
  cases h : S.attrLit x with
  | none => rfl
  | some l =>
    obtain ⟨ty, hl, _⟩ := hA.2 x l h
    exact absurd hl ((hf x hx).1 x ty)

theorem convAttrs_id {S : Sem V} {L : Locals} (hL : NoAttrBind S L) : ∀ (attrs attrs' : List (String × AttrV)),
    convAttrs L attrs = .ok attrs' → attrs' = attrs := by
  intro attrs
  induction attrs with
  | nil => intro attrs' h; simp only [convAttrs] at h; cases h; rfl
  | cons kv rest ih =>
    intro attrs' h
    obtain ⟨k, v⟩ := kv
    cases v with
    | const r =>
      simp only [convAttrs] at h
      cases hr : convAttrs L rest with
      | error e => simp [hr, bind, Except.bind] at h
      | ok rs =>
        simp [hr, bind, Except.bind] at h
        cases h
        rw [ih rs hr]
    | ref p =>
      simp only [convAttrs] at h
      cases hl : lookup L p with
      | none => simp [hl] at h
      | some b =>
        cases b with
        | val n => simp [hl] at h
        | attr q ty =>
          have hq : q = p := hL.1 p q ty hl
          subst hq
          simp only [hl] at h
          cases hr : convAttrs L rest with
          | error e => simp [hr, bind, Except.bind] at h
          | ok rs =>
            simp [hr, bind, Except.bind] at h
            cases h
            rw [ih rs hr]

/-- Conclusion of the expression simulation. -/
def ExprSim (S : Sem V) (fuel : Nat) (env : Env V) (s s' : St) (x : Name) (ns : List Node) (pv : PV V) : Prop :=
  ∃ env', evalNodes S fuel env ns = some env' ∧ RelV S env' s'.castable x pv ∧ Ext env env' s s' ∧ CastSub s'

theorem genUnique_castSub {cand r : Name} {s s' : St} (h : genUnique cand s = .ok (r, s')) (hs : CastSub s) :
    CastSub s' := by
  obtain ⟨_, hu, hc⟩ := genUnique_spec h
  intro n hn
  rw [hc] at hn
  rw [hu]
  exact List.mem_cons_of_mem _ (hs n hn)

/-- The final operator node of an expression: all operands evaluate, the operator returns one tensor. -/
theorem op_node_sim (S : Sem V) (fuel : Nat) {env : Env V} {s s' : St} {dom op : String}
    {xs : List Name} {vs : List V} {attrs : List (String × AttrV)} {r : Name} {v : V}
    (hm : xs.mapM env = some vs) (hop : S.op dom op (vs.map some) attrs = some [v])
    (hg : genUnique (r' : Name) s = .ok (r, s')) (hs : CastSub s) :
    evalNodes S fuel env [Node.op dom op (xs.map some) [r] attrs] = some (env.set r v)
      ∧ RelV S (env.set r v) s'.castable r (.t v) ∧ Ext env (env.set r v) s s' ∧ CastSub s' := by
  obtain ⟨hfresh, hu, hc⟩ := genUnique_spec hg
  refine ⟨evalNodes_op1 (mapM_getOpt_some xs vs hm) hop, ⟨Env.set_same _ _ _, ?_⟩,
    ext_set_fresh _ _ hfresh (fun n _ => by rw [hc]), genUnique_castSub hg hs⟩
  rw [hc]
  exact fun hm' => hfresh (hs r hm')

end OV.C01

namespace OV.C01

variable {V : Type}

theorem convExpr_result_used {L : Locals} {e : Expr} {tgt : Option Name} {x : Name} {ns : List Node}
    {s s' : St} (hL : VisOK s.used L) (h : convExpr L e tgt s = .ok ((x, ns), s')) : x ∈ s'.used :=
  after_in_used (convExpr_fresh L e tgt h) (convExpr_scope L e tgt hL h).2

theorem single_some {r : Option (List V)} {pv : PV V} (h : single r = some pv) : ∃ v, r = some [v] ∧ pv = .t v := by
  unfold single at h
  split at h
  · rename_i v; cases h; exact ⟨v, rfl, rfl⟩
  · cases h

theorem applyOp_some {S : Sem V} {dom op : String} {sig : Sig} {args : List (PV V)}
    {attrs : List (String × AttrV)} {rs : List V} (h : applyOp S dom op sig args attrs = some rs) :
    ∃ vs, argVals S sig args = some vs ∧ S.op dom op (vs.map some) attrs = some rs := by
  unfold applyOp at h
  cases hv : argVals S sig args with
  | none => simp [hv] at h
  | some vs => simp only [hv] at h; exact ⟨vs, rfl, h⟩

/-- Two related operands, the second computed after the first. -/
theorem pair_rel {S : Sem V} {env1 env2 : Env V} {s1 s2 : St} {l r : Name} {pa pb : PV V}
    (h1 : RelV S env1 s1.castable l pa) (hl : l ∈ s1.used) (e2 : Ext env1 env2 s1 s2)
    (h2 : RelV S env2 s2.castable r pb) : All2 (RelV S env2 s2.castable) [l, r] [pa, pb] :=
  All2.cons _ _ _ _ (h1.ext hl e2) (All2.cons _ _ _ _ h2 All2.nil)

mutual
theorem convExpr_sim (S : Sem V) (fuel : Nat) (hConst : ∀ l, ∃ c, constOf S l = some c) (ρ : Store V)
    (L : Locals) (hA : NoAttrBind S L) : ∀ (e : Expr) (tgt : Option Name) {env : Env V} {s s' : St} {x : Name}
    {ns : List Node} {pv : PV V}, VisOK s.used L → StoreRel S ρ L env s.castable → CastSub s →
    evalExpr S ρ e = some pv → convExpr L e tgt s = .ok ((x, ns), s') → ExprSim S fuel env s s' x ns pv
  | .var v, tgt, env, s, s', x, ns, pv, hL, hR, hs, he, h => by
    unfold evalExpr at he
    cases hρ : ρ v with
    | some pv0 =>
      simp only [hρ] at he
      cases he
      obtain ⟨n, hl, hr⟩ := hR v pv hρ
      unfold convExpr pyVar at h
      simp only [hl, toOnnxVar] at h
      obtain ⟨e1, e2⟩ := pure_ok h
      cases e1; subst e2
      exact ⟨env, evalNodes_nil _ _ _, hr, Ext.refl _ _, hs⟩
    | none =>
      -- an attribute parameter read as a value: `Constant(value_<kind>=@v)`, castable like a literal
      simp only [hρ] at he
      cases hal : S.attrLit v with
      | none => simp [hal] at he
      | some l =>
        simp only [hal, Option.map_some] at he
        cases he
        obtain ⟨ty, hl, hval⟩ := hA.2 v l hal
        unfold convExpr pyVar at h
        simp only [hl] at h
        obtain ⟨c, hc⟩ := hConst l
        exact attrVar_sim S fuel env hval hc hs h
  | .lit l, tgt, env, s, s', x, ns, pv, hL, hR, hs, he, h => by
    unfold evalExpr at he
    cases he
    unfold convExpr at h
    obtain ⟨c, hc⟩ := hConst l
    obtain ⟨a1, a2, a3, a4⟩ := emitConst_sim S fuel env hc hs h
    exact ⟨_, a1, a2, a3, a4⟩
  | .call dom op sig args attrs, tgt, env, s, s', x, ns, pv, hL, hR, hs, he, h => by
    unfold evalExpr at he
    cases hargs : evalExprs S ρ args with
    | none => simp [hargs] at he
    | some pvs =>
      simp only [hargs] at he
      obtain ⟨v, hap, rfl⟩ := single_some he
      obtain ⟨vs, hav, hop⟩ := applyOp_some hap
      unfold convExpr at h
      mbind h with p s1 h1
      obtain ⟨as, ns1⟩ := p
      try dsimp only at h
      mbind h with attrs' s2 h2
      have hs2 := liftE_state h2
      subst hs2
      have hattrs : attrs' = attrs := by
        unfold liftE at h2
        cases hca : convAttrs L attrs with
        | error e => simp [hca] at h2
        | ok a' =>
          simp only [hca] at h2
          cases h2
          exact convAttrs_id hA _ _ hca
      subst hattrs
      mbind h with p s3 h3
      obtain ⟨as', ns2⟩ := p
      try dsimp only at h
      mbind h with r s4 h4
      obtain ⟨e1, e2⟩ := pure_ok h
      cases e1; subst e2
      obtain ⟨env1, ev1, hrel1, x1, c1, hu1⟩ := convArgs_sim S fuel hConst ρ L hA args hL hR hs hargs h1
      have m1 := (convArgs_fresh L args h1).1
      obtain ⟨env3, ev3, hm3, x3, hc3, m3⟩ := castInputs_sim S fuel hrel1 hu1 h3 hav
      have c3 : CastSub s3 := fun n hn => m3 n (c1 n (hc3 ▸ hn))
      obtain ⟨ev4, r4, x4, c4⟩ := op_node_sim S fuel hm3 hop h4 c3
      exact ⟨_, evalNodes_seq ev1 (evalNodes_seq ev3 ev4), r4, x1.trans m1 (x3.trans m3 x4), c4⟩
  | .binop o a b, tgt, env, s, s', x, ns, pv, hL, hR, hs, he, h => by
    unfold evalExpr at he
    unfold convExpr at h
    cases hp : primop o with
    | none => simp only [hp] at h; exact (failM_ok h).elim
    | some oname =>
      simp only [hp] at h he
      cases hea : evalExpr S ρ a with
      | none => simp [hea] at he
      | some pa =>
        cases heb : evalExpr S ρ b with
        | none => simp [hea, heb] at he
        | some pb =>
          simp only [hea, heb] at he
          obtain ⟨v, hap, rfl⟩ := single_some he
          obtain ⟨vs, hav, hop⟩ := applyOp_some hap
          mbind h with p s1 h1
          obtain ⟨l, ns1⟩ := p
          try dsimp only at h
          mbind h with p s2 h2
          obtain ⟨r, ns2⟩ := p
          try dsimp only at h
          mbind h with p s3 h3
          obtain ⟨as', ns3⟩ := p
          try dsimp only at h
          mbind h with res s4 h4
          obtain ⟨e1, e2⟩ := pure_ok h
          cases e1; subst e2
          obtain ⟨env1, ev1, r1, x1, c1⟩ := convExpr_sim S fuel hConst ρ L hA a none hL hR hs hea h1
          have m1 := (convExpr_fresh L a none h1).1
          have hl1 := convExpr_result_used hL h1
          have hL1 : VisOK s1.used L := hL.mono m1
          obtain ⟨env2, ev2, r2, x2, c2⟩ :=
            convExpr_sim S fuel hConst ρ L hA b none hL1 (hR.ext hL x1) c1 heb h2
          have m2 := (convExpr_fresh L b none h2).1
          have hr2 := convExpr_result_used hL1 h2
          have hrel := pair_rel r1 hl1 x2 r2
          obtain ⟨env3, ev3, hm3, x3, hc3, m3⟩ := castInputs_sim S fuel hrel (by
            intro y hy
            simp only [List.mem_cons, List.mem_nil_iff, or_false] at hy
            rcases hy with rfl | rfl
            · exact m2 _ hl1
            · exact hr2) h3 hav
          have c3 : CastSub s3 := fun n hn => m3 n (c2 n (hc3 ▸ hn))
          obtain ⟨ev4, r4, x4, c4⟩ := op_node_sim S fuel hm3 hop h4 c3
          exact ⟨_, evalNodes_seq ev1 (evalNodes_seq ev2 (evalNodes_seq ev3 ev4)), r4,
            x1.trans m1 (x2.trans m2 (x3.trans m3 x4)), c4⟩
  | .unop o a, tgt, env, s, s', x, ns, pv, hL, hR, hs, he, h => by
    unfold evalExpr at he
    unfold convExpr at h
    cases hp : primop o with
    | none => simp only [hp] at h; exact (failM_ok h).elim
    | some oname =>
      simp only [hp] at h he
      cases hn : negatedLiteral o a with
      | some l =>
        simp only [hn] at h he
        cases he
        obtain ⟨c, hc⟩ := hConst (negLit l)
        obtain ⟨a1, a2, a3, a4⟩ := emitConst_sim S fuel env hc hs h
        exact ⟨_, a1, a2, a3, a4⟩
      | none =>
        simp only [hn] at h he
        cases hea : evalExpr S ρ a with
        | none => simp [hea] at he
        | some pa =>
          simp only [hea] at he
          obtain ⟨v, hap, rfl⟩ := single_some he
          obtain ⟨vs, hav, hop⟩ := applyOp_some hap
          mbind h with p s1 h1
          obtain ⟨y, ns1⟩ := p
          try dsimp only at h
          mbind h with res s4 h4
          obtain ⟨e1, e2⟩ := pure_ok h
          cases e1; subst e2
          obtain ⟨env1, ev1, r1, x1, c1⟩ := convExpr_sim S fuel hConst ρ L hA a none hL hR hs hea h1
          have m1 := (convExpr_fresh L a none h1).1
          have hm : [y].mapM env1 = some vs :=
            all2_plain_mapM (All2.cons _ _ _ _ r1 All2.nil) (by simpa [argVals] using hav)
          obtain ⟨ev4, r4, x4, c4⟩ := op_node_sim S fuel (xs := [y]) hm hop h4 c1
          exact ⟨_, evalNodes_seq ev1 ev4, r4, x1.trans m1 x4, c4⟩
  | .cmp o a b, tgt, env, s, s', x, ns, pv, hL, hR, hs, he, h => by
    unfold evalExpr at he
    unfold convExpr at h
    cases hp : primop o with
    | none => simp only [hp] at h; exact (failM_ok h).elim
    | some oname =>
      simp only [hp] at h he
      cases hea : evalExpr S ρ a with
      | none => simp [hea] at he
      | some pa =>
        cases heb : evalExpr S ρ b with
        | none => simp [hea, heb] at he
        | some pb =>
          simp only [hea, heb] at he
          mbind h with p s1 h1
          obtain ⟨l, ns1⟩ := p
          try dsimp only at h
          mbind h with p s2 h2
          obtain ⟨r, ns2⟩ := p
          try dsimp only at h
          mbind h with p s3 h3
          obtain ⟨as', ns3⟩ := p
          try dsimp only at h
          obtain ⟨env1, ev1, r1, x1, c1⟩ := convExpr_sim S fuel hConst ρ L hA a none hL hR hs hea h1
          have m1 := (convExpr_fresh L a none h1).1
          have hl1 := convExpr_result_used hL h1
          have hL1 : VisOK s1.used L := hL.mono m1
          obtain ⟨env2, ev2, r2, x2, c2⟩ :=
            convExpr_sim S fuel hConst ρ L hA b none hL1 (hR.ext hL x1) c1 heb h2
          have m2 := (convExpr_fresh L b none h2).1
          have hr2 := convExpr_result_used hL1 h2
          have hrel := pair_rel r1 hl1 x2 r2
          have hus : ∀ y, y ∈ [l, r] → y ∈ s2.used := by
            intro y hy
            simp only [List.mem_cons, List.mem_nil_iff, or_false] at hy
            rcases hy with rfl | rfl
            · exact m2 _ hl1
            · exact hr2
          by_cases hne : oname = "NotEqual"
          · simp only [hne, if_true] at h he
            cases hap : applyOp S "" "Equal" binSig [pa, pb] [] with
            | none => simp [hap] at he
            | some rs =>
              cases rs with
              | nil => simp [hap] at he
              | cons e0 rest =>
                cases rest with
                | cons _ _ => simp [hap] at he
                | nil =>
                  simp only [hap] at he
                  obtain ⟨v, hnot, rfl⟩ := single_some he
                  obtain ⟨vs, hav, hop⟩ := applyOp_some hap
                  obtain ⟨env3, ev3, hm3, x3, hc3, m3⟩ := castInputs_sim S fuel hrel hus h3 hav
                  have c3 : CastSub s3 := fun n hn => m3 n (c2 n (hc3 ▸ hn))
                  mbind h with tmp s4 h4
                  mbind h with res s5 h5
                  obtain ⟨e1, e2⟩ := pure_ok h
                  cases e1; subst e2
                  obtain ⟨ev4, r4, x4, c4⟩ := op_node_sim S fuel hm3 hop h4 c3
                  have m4 := (genUnique_fresh h4).1
                  have hm5 : [tmp].mapM (env3.set tmp e0) = some [e0] := by simp [Env.set_same]
                  obtain ⟨ev5, r5, x5, c5⟩ := op_node_sim S fuel (xs := [tmp]) hm5 hnot h5 c4
                  refine ⟨_, evalNodes_seq ev1 (evalNodes_seq ev2 (evalNodes_seq ev3 ?_)), r5,
                    x1.trans m1 (x2.trans m2 (x3.trans m3 (x4.trans m4 x5))), c5⟩
                  exact evalNodes_seq (a := [_]) (b := [_]) ev4 ev5
          · simp only [hne, if_false] at h he
            obtain ⟨v, hap, rfl⟩ := single_some he
            obtain ⟨vs, hav, hop⟩ := applyOp_some hap
            obtain ⟨env3, ev3, hm3, x3, hc3, m3⟩ := castInputs_sim S fuel hrel hus h3 hav
            have c3 : CastSub s3 := fun n hn => m3 n (c2 n (hc3 ▸ hn))
            mbind h with res s4 h4
            obtain ⟨e1, e2⟩ := pure_ok h
            cases e1; subst e2
            obtain ⟨ev4, r4, x4, c4⟩ := op_node_sim S fuel hm3 hop h4 c3
            exact ⟨_, evalNodes_seq ev1 (evalNodes_seq ev2 (evalNodes_seq ev3 ev4)), r4,
              x1.trans m1 (x2.trans m2 (x3.trans m3 x4)), c4⟩
  | .subscript base idx, tgt, env, s, s', x, ns, pv, hL, hR, hs, he, h => by
    unfold evalExpr at he
    cases he
  | .other us, tgt, env, s, s', x, ns, pv, hL, hR, hs, he, h => by
    unfold convExpr at h
    exact (failM_ok h).elim
theorem convArgs_sim (S : Sem V) (fuel : Nat) (hConst : ∀ l, ∃ c, constOf S l = some c) (ρ : Store V)
    (L : Locals) (hA : NoAttrBind S L) : ∀ (es : List Expr) {env : Env V} {s s' : St} {xs : List Name}
    {ns : List Node} {pvs : List (PV V)}, VisOK s.used L → StoreRel S ρ L env s.castable → CastSub s →
    evalExprs S ρ es = some pvs → convArgs L es s = .ok ((xs, ns), s') →
    ∃ env', evalNodes S fuel env ns = some env' ∧ All2 (RelV S env' s'.castable) xs pvs ∧ Ext env env' s s'
      ∧ CastSub s' ∧ (∀ x, x ∈ xs → x ∈ s'.used)
  | [], env, s, s', xs, ns, pvs, hL, hR, hs, he, h => by
    unfold evalExprs at he
    cases he
    unfold convArgs at h
    obtain ⟨e1, e2⟩ := pure_ok h
    cases e1; subst e2
    exact ⟨env, evalNodes_nil _ _ _, All2.nil, Ext.refl _ _, hs, fun x hx => by cases hx⟩
  | e :: es, env, s, s', xs, ns, pvs, hL, hR, hs, he, h => by
    unfold evalExprs at he
    cases hea : evalExpr S ρ e with
    | none => simp [hea] at he
    | some pa =>
      cases hes : evalExprs S ρ es with
      | none => simp [hea, hes] at he
      | some prest =>
        simp only [hea, hes] at he
        cases he
        unfold convArgs at h
        mbind h with p s1 h1
        obtain ⟨y, ns1⟩ := p
        try dsimp only at h
        mbind h with p s2 h2
        obtain ⟨ys, ns2⟩ := p
        try dsimp only at h
        obtain ⟨e1, e2⟩ := pure_ok h
        cases e1; subst e2
        obtain ⟨env1, ev1, r1, x1, c1⟩ := convExpr_sim S fuel hConst ρ L hA e none hL hR hs hea h1
        have m1 := (convExpr_fresh L e none h1).1
        have hy1 := convExpr_result_used hL h1
        have hL1 : VisOK s1.used L := hL.mono m1
        obtain ⟨env2, ev2, r2, x2, c2, u2⟩ :=
          convArgs_sim S fuel hConst ρ L hA es hL1 (hR.ext hL x1) c1 hes h2
        have m2 := (convArgs_fresh L es h2).1
        refine ⟨env2, evalNodes_seq ev1 ev2, All2.cons _ _ _ _ (r1.ext hy1 x2) r2, x1.trans m1 x2, c2, ?_⟩
        intro z hz
        rcases List.mem_cons.mp hz with rfl | hz
        · exact m2 _ hy1
        · exact u2 z hz
end

end OV.C01

namespace OV.C01

variable {V : Type}

/-! ## Statements of straight-line code -/

theorem lookup_bindVar_same (L : Locals) (x : Name) (b : Bind) : lookup (bindVar L x b) x = some b := by
  cases L with
  | nil => simp [bindVar, lookup, Frame.find]
  | cons f fs => simp [bindVar, lookup, Frame.find]

theorem NoAttrBind.bindVal {S : Sem V} {L : Locals} (h : NoAttrBind S L) (x n : Name)
    (hx : S.attrLit x = none) : NoAttrBind S (bindVar L x (.val n)) := by
  refine ⟨fun y p ty hl => ?_, fun y l hy => ?_⟩
  · by_cases hy : y = x
    · subst hy
      rw [lookup_bindVar_same] at hl
      cases hl
    · rw [lookup_bindVar_ne hy] at hl
      exact h.1 y p ty hl
  · have hyx : y ≠ x := fun he => by rw [he, hx] at hy; cases hy
    obtain ⟨ty, hl, hv⟩ := h.2 y l hy
    exact ⟨ty, by rw [lookup_bindVar_ne hyx]; exact hl, hv⟩

theorem NoAttrBind.push {S : Sem V} {L : Locals} (h : NoAttrBind S L) : NoAttrBind S ([] :: L) :=
  ⟨fun x p ty hl => h.1 x p ty (by simpa [lookup, Frame.find] using hl),
   fun x l hx => by
     obtain ⟨ty, hl, hv⟩ := h.2 x l hx
     exact ⟨ty, by simpa [lookup, Frame.find] using hl, hv⟩⟩

theorem assign_sim (S : Sem V) (fuel : Nat) (hConst : ∀ l, ∃ c, constOf S l = some c) {ρ : Store V}
    {L : Locals} (hA : NoAttrBind S L) {x : Name} {e : Expr} {lo : VSet} {env : Env V} {s s' : St}
    {L' : Locals} {ns : List Node} {pv : PV V}
    (hL : VisOK s.used L) (hR : StoreRel S ρ L env s.castable) (hs : CastSub s)
    (hx : S.attrLit x = none)
    (he : evalExpr S ρ e = some pv) (h : convStmt L (.assign x e) lo s = .ok ((L', ns), s')) :
    ∃ env', evalNodes S fuel env ns = some env' ∧ StoreRel S (ρ.set x pv) L' env' s'.castable
      ∧ Ext env env' s s' ∧ CastSub s' ∧ VisOK s'.used L' ∧ NoAttrBind S L' ∧ Mono s s' := by
  have hfr := convStmt_fresh L _ lo h
  have hsc := convStmt_scope L _ lo hL (fun x hx => hx) h
  unfold convStmt at h
  mbind h with p s1 h1
  obtain ⟨t, ns1⟩ := p
  try dsimp only at h
  obtain ⟨e1, e2⟩ := pure_ok h
  cases e1; subst e2
  obtain ⟨env1, ev1, r1, x1, c1⟩ := convExpr_sim S fuel hConst ρ L hA e _ hL hR hs he h1
  have ht := convExpr_result_used hL h1
  refine ⟨env1, ev1, ?_, x1, c1, hsc.2.mono (fun y hy => after_in_used hfr hy), hA.bindVal _ _ hx, hfr.1⟩
  intro y pv' hy
  unfold Store.set at hy
  by_cases hyx : y = x
  · subst hyx
    simp only [if_true] at hy
    cases hy
    exact ⟨t, lookup_bindVar_same _ _ _, r1⟩
  · simp only [hyx, if_false] at hy
    obtain ⟨n, hl, hr⟩ := hR y pv' hy
    exact ⟨n, by rw [lookup_bindVar_ne hyx]; exact hl, hr.ext (hL.lookup hl) x1⟩

theorem storeRel_bind {S : Sem V} {ρ : Store V} {L : Locals} {env : Env V} {cast : List Name}
    (hR : StoreRel S ρ L env cast) {x t : Name} {pv : PV V} (hr : RelV S env cast t pv) :
    StoreRel S (ρ.set x pv) (bindVar L x (.val t)) env cast := by
  intro y pv' hy
  unfold Store.set at hy
  by_cases hyx : y = x
  · subst hyx
    simp only [if_true] at hy
    cases hy
    exact ⟨t, lookup_bindVar_same _ _ _, hr⟩
  · simp only [hyx, if_false] at hy
    obtain ⟨n, hl, hr'⟩ := hR y pv' hy
    exact ⟨n, by rw [lookup_bindVar_ne hyx]; exact hl, hr'⟩

theorem storeRel_bindVals {S : Sem V} {env : Env V} {cast : List Name} :
    ∀ {ts : List Name} {pvs : List (PV V)}, All2 (RelV S env cast) ts pvs → ∀ (xs : List Name) {ρ : Store V}
      {L : Locals}, StoreRel S ρ L env cast → StoreRel S (ρ.setMany xs pvs) (bindVals L xs ts) env cast := by
  intro ts pvs h
  induction h with
  | nil => intro xs ρ L hR; cases xs <;> exact hR
  | cons t pv ts' pvs' hr _ ih =>
    intro xs ρ L hR
    cases xs with
    | nil => exact hR
    | cons x xs => exact ih xs (storeRel_bind hR hr)

theorem NoAttrBind.bindVals {S : Sem V} {L : Locals} (h : NoAttrBind S L) : ∀ (xs ns : List Name),
    (∀ x, x ∈ xs → S.attrLit x = none) → NoAttrBind S (OV.C01.bindVals L xs ns) := by
  intro xs
  induction xs generalizing L with
  | nil => intro ns _; cases ns <;> exact h
  | cons x xs ih =>
    intro ns hxs
    cases ns with
    | nil => exact h
    | cons n ns =>
      exact ih (h.bindVal x n (hxs x List.mem_cons_self)) ns (fun y hy => hxs y (List.mem_cons_of_mem _ hy))

theorem NoAttrBind.bindValsT {S : Sem V} {L : Locals} (h : NoAttrBind S L) (xs ns : List Name)
    (hT : TFree S xs) : NoAttrBind S (OV.C01.bindVals L xs ns) :=
  h.bindVals xs ns (fun x hx => (hT x hx).1)

theorem AttrMono.bindVal (L : Locals) (x n : Name) : AttrMono L (bindVar L x (.val n)) := by
  intro y p ty hl
  by_cases hy : y = x
  · subst hy
    rw [lookup_bindVar_same] at hl
    cases hl
  · rw [lookup_bindVar_ne hy] at hl
    exact hl

theorem AttrMono.bindVals : ∀ (xs ns : List Name) (L : Locals), AttrMono L (OV.C01.bindVals L xs ns) := by
  intro xs
  induction xs with
  | nil => intro ns L; cases ns <;> exact AttrMono.refl L
  | cons x xs ih =>
    intro ns L
    cases ns with
    | nil => exact AttrMono.refl L
    | cons n ns => exact (AttrMono.bindVal L x n).trans (ih ns _)

theorem all2_length {α β : Type} {R : α → β → Prop} {as : List α} {bs : List β} (h : All2 R as bs) :
    as.length = bs.length := by
  induction h with
  | nil => rfl
  | cons _ _ _ _ _ _ ih => simp [ih]

theorem convParExprs_sim (S : Sem V) (fuel : Nat) (hConst : ∀ l, ∃ c, constOf S l = some c) (ρ : Store V)
    (L : Locals) (hA : NoAttrBind S L) : ∀ (xs : List Name) (es : List Expr) {env : Env V} {s s' : St}
    {ts : List Name} {ns : List Node} {pvs : List (PV V)}, xs.length = es.length →
    VisOK s.used L → StoreRel S ρ L env s.castable → CastSub s →
    evalExprs S ρ es = some pvs → convParExprs L xs es s = .ok ((ts, ns), s') →
    ∃ env', evalNodes S fuel env ns = some env' ∧ All2 (RelV S env' s'.castable) ts pvs ∧ Ext env env' s s'
      ∧ CastSub s' := by
  intro xs
  induction xs with
  | nil =>
    intro es env s s' ts ns pvs hlen hL hR hs he h
    cases es with
    | cons _ _ => simp at hlen
    | nil =>
      unfold evalExprs at he
      cases he
      unfold convParExprs at h
      obtain ⟨e1, e2⟩ := pure_ok h
      cases e1; subst e2
      exact ⟨env, evalNodes_nil _ _ _, All2.nil, Ext.refl _ _, hs⟩
  | cons x xs ih =>
    intro es env s s' ts ns pvs hlen hL hR hs he h
    cases es with
    | nil => simp at hlen
    | cons e es =>
      unfold evalExprs at he
      cases hea : evalExpr S ρ e with
      | none => simp [hea] at he
      | some pa =>
        cases hes : evalExprs S ρ es with
        | none => simp [hea, hes] at he
        | some prest =>
          simp only [hea, hes] at he
          cases he
          unfold convParExprs at h
          mbind h with p s1 h1
          obtain ⟨t, ns1⟩ := p
          try dsimp only at h
          mbind h with p s2 h2
          obtain ⟨ts', ns2⟩ := p
          try dsimp only at h
          obtain ⟨q1, q2⟩ := pure_ok h
          cases q1; subst q2
          obtain ⟨env1, ev1, r1, x1, c1⟩ := convExpr_sim S fuel hConst ρ L hA e _ hL hR hs hea h1
          have m1 := (convExpr_fresh L e _ h1).1
          have ht1 := convExpr_result_used hL h1
          obtain ⟨env2, ev2, r2, x2, c2⟩ := ih es (by simpa using hlen) (hL.mono m1) (hR.ext hL x1) c1 hes h2
          exact ⟨env2, evalNodes_seq ev1 ev2, All2.cons _ _ _ _ (r1.ext ht1 x2) r2, x1.trans m1 x2, c2⟩

theorem par_sim (S : Sem V) (fuel : Nat) (hConst : ∀ l, ∃ c, constOf S l = some c) {ρ : Store V}
    {L : Locals} (hA : NoAttrBind S L) {xs : List Name} {es : List Expr} {lo : VSet} {env : Env V} {s s' : St}
    {L' : Locals} {ns : List Node} {pvs : List (PV V)}
    (hL : VisOK s.used L) (hR : StoreRel S ρ L env s.castable) (hs : CastSub s)
    (hxs : ∀ x, x ∈ xs → S.attrLit x = none)
    (he : evalExprs S ρ es = some pvs) (h : convStmt L (.par xs es) lo s = .ok ((L', ns), s')) :
    ∃ env', evalNodes S fuel env ns = some env' ∧ StoreRel S (ρ.setMany xs pvs) L' env' s'.castable
      ∧ Ext env env' s s' ∧ CastSub s' ∧ VisOK s'.used L' ∧ NoAttrBind S L' ∧ Mono s s' := by
  have hfr := convStmt_fresh L _ lo h
  have hsc := convStmt_scope L _ lo hL (fun x hx => hx) h
  unfold convStmt at h
  by_cases hl : xs.length ≠ es.length
  · rw [if_pos hl] at h; exact (failM_ok h).elim
  · rw [if_neg hl] at h
    unfold convPar at h
    mbind h with p s1 h1
    obtain ⟨ts, ns1⟩ := p
    try dsimp only at h
    obtain ⟨q1, q2⟩ := pure_ok h
    cases q1; subst q2
    obtain ⟨env1, ev1, r1, x1, c1⟩ := convParExprs_sim S fuel hConst ρ L hA xs es (by simpa using hl) hL hR hs he h1
    exact ⟨env1, ev1, storeRel_bindVals r1 xs (hR.ext hL x1), x1, c1,
      hsc.2.mono (fun y hy => after_in_used hfr hy), hA.bindVals _ _ hxs, hfr.1⟩

theorem emitCopy_sim (S : Sem V) (fuel : Nat) (hId : ∀ v, S.op "" "Identity" [some v] [] = some [v])
    {env : Env V} {o sug x : Name} {ns : List Node} {s s' : St} {v : V}
    (ho : env o = some v) (h : emitCopy o sug s = .ok ((x, ns), s')) :
    evalNodes S fuel env ns = some (env.set x v) ∧ Ext env (env.set x v) s s' ∧ x ∈ s'.used ∧ Mono s s' := by
  have hfr := emitCopy_fresh h
  unfold emitCopy at h
  mbind h with n s1 hn
  obtain ⟨h1, h2⟩ := pure_ok h
  cases h1; subst h2
  obtain ⟨hfresh, hu, hc⟩ := genUnique_spec hn
  refine ⟨evalNodes_op1 (vs := [some v]) (by simp [List.mapM_cons, Env.getOpt, ho]) (hId v),
    ext_set_fresh _ _ hfresh (fun n _ => by rw [hc]), by rw [hu]; exact List.mem_cons_self, hfr.1⟩

theorem toTensor_eq_plain (S : Sem V) (pv : PV V) : toTensor S pv = plainVal S pv := by
  cases pv <;> rfl

theorem convRetOne_sim (S : Sem V) (fuel : Nat) (hConst : ∀ l, ∃ c, constOf S l = some c)
    (hId : ∀ v, S.op "" "Identity" [some v] [] = some [v]) {ρ : Store V} {L : Locals} (hA : NoAttrBind S L)
    {inputs : List Name} {e : Expr} {pref : Name} {outs : List Name} {o : Name} {ns : List Node}
    {env : Env V} {s s' : St} {pv : PV V} {v : V}
    (hL : VisOK s.used L) (hR : StoreRel S ρ L env s.castable) (hs : CastSub s)
    (he : evalExpr S ρ e = some pv) (hv : toTensor S pv = some v)
    (h : convRetOne L inputs e pref outs s = .ok ((o, ns), s')) :
    ∃ env', evalNodes S fuel env ns = some env' ∧ env' o = some v ∧ Ext env env' s s' ∧ CastSub s'
      ∧ o ∈ s'.used ∧ Mono s s' := by
  have hfr := convRetOne_fresh h
  have cs' : ∀ {sa sb : St}, CastSub sa → sb.castable = sa.castable → Mono sa sb → CastSub sb :=
    fun hsa hc m n hn => m n (hsa n (hc ▸ hn))
  unfold convRetOne at h
  mbind h with p s1 h1
  obtain ⟨rv, ns1⟩ := p
  try dsimp only at h
  mbind h with p s2 h2
  obtain ⟨rv2, ns2⟩ := p
  try dsimp only at h
  obtain ⟨env1, ev1, r1, x1, c1⟩ := convExpr_sim S fuel hConst ρ L hA e _ hL hR hs he h1
  have m1 := (convExpr_fresh L e _ h1).1
  have hrv := convExpr_result_used hL h1
  have hval : env1 rv = some v := r1.plain (by rw [← toTensor_eq_plain]; exact hv)
  -- optional copy of a graph input
  have step2 : ∃ env2, evalNodes S fuel env1 ns2 = some env2 ∧ env2 rv2 = some v ∧ Ext env1 env2 s1 s2
      ∧ s2.castable = s1.castable ∧ rv2 ∈ s2.used ∧ Mono s1 s2 := by
    by_cases hi : returnsInput inputs rv = true
    · rw [if_pos hi] at h2
      obtain ⟨a, b, c, d⟩ := emitCopy_sim S fuel hId hval h2
      have hc2 : s2.castable = s1.castable := by
        unfold emitCopy at h2
        mbind h2 with n sx hn
        obtain ⟨q1, q2⟩ := pure_ok h2
        subst q2
        exact (genUnique_spec hn).2.2
      exact ⟨_, a, Env.set_same _ _ _, b, hc2, c, d⟩
    · rw [if_neg hi] at h2
      obtain ⟨q1, q2⟩ := pure_ok h2
      cases q1; subst q2
      exact ⟨env1, evalNodes_nil _ _ _, hval, Ext.refl _ _, rfl, hrv, Mono.refl _⟩
  obtain ⟨env2, ev2, hv2, x2, hc2, hu2, m2⟩ := step2
  have c2 : CastSub s2 := cs' c1 hc2 m2
  by_cases hc : outs.contains rv2 = true
  · rw [if_pos hc] at h
    mbind h with p s3 h3
    obtain ⟨rv3, ns3⟩ := p
    try dsimp only at h
    obtain ⟨q1, q2⟩ := pure_ok h
    cases q1; subst q2
    obtain ⟨a, b, c, d⟩ := emitCopy_sim S fuel hId hv2 h3
    have hc3 : s3.castable = s2.castable := by
      unfold emitCopy at h3
      mbind h3 with n sx hn
      obtain ⟨q1, q2⟩ := pure_ok h3
      subst q2
      exact (genUnique_spec hn).2.2
    exact ⟨_, evalNodes_seq ev1 (evalNodes_seq ev2 a), Env.set_same _ _ _,
      x1.trans m1 (x2.trans m2 b), cs' c2 hc3 d, c, hfr.1⟩
  · rw [if_neg hc] at h
    obtain ⟨q1, q2⟩ := pure_ok h
    cases q1; subst q2
    exact ⟨env2, evalNodes_seq ev1 ev2, hv2, x1.trans m1 x2, c2, hu2, hfr.1⟩

theorem mapM_append_one {env : Env V} {outs : List Name} {vals : List V} {o : Name} {v : V}
    (h : outs.mapM env = some vals) (ho : env o = some v) : (outs ++ [o]).mapM env = some (vals ++ [v]) := by
  induction outs generalizing vals with
  | nil => simp at h; subst h; simp [ho]
  | cons a as ih =>
    simp only [List.mapM_cons] at h
    cases ha : env a with
    | none => simp [ha] at h
    | some va =>
      cases hr : as.mapM env with
      | none => simp [ha, hr] at h
      | some vr =>
        simp [ha, hr] at h
        subst h
        simp [List.mapM_cons, ha, ih hr]

theorem mapM_ext {env env' : Env V} {s s' : St} {outs : List Name} {vals : List V}
    (h : outs.mapM env = some vals) (hu : ∀ o, o ∈ outs → o ∈ s.used) (e : Ext env env' s s') :
    outs.mapM env' = some vals := by
  induction outs generalizing vals with
  | nil => simpa using h
  | cons a as ih =>
    simp only [List.mapM_cons] at h ⊢
    rw [e.envSame a (hu a List.mem_cons_self)]
    cases ha : env a with
    | none => simp [ha] at h
    | some va =>
      cases hr : as.mapM env with
      | none => simp [ha, hr] at h
      | some vr =>
        simp [ha, hr] at h
        subst h
        simp [ih hr (fun o ho => hu o (List.mem_cons_of_mem _ ho))]

theorem convRetAll_sim (S : Sem V) (fuel : Nat) (hConst : ∀ l, ∃ c, constOf S l = some c)
    (hId : ∀ v, S.op "" "Identity" [some v] [] = some [v]) {ρ : Store V} {L : Locals} (hA : NoAttrBind S L)
    {inputs : List Name} {single : Bool} : ∀ (es : List Expr) (i : Nat) (outs : List Name) {env : Env V}
    {s s' : St} {outs' : List Name} {ns : List Node} {pvs : List (PV V)} {vals vs : List V},
    VisOK s.used L → StoreRel S ρ L env s.castable → CastSub s →
    outs.mapM env = some vals → (∀ o, o ∈ outs → o ∈ s.used) →
    evalExprs S ρ es = some pvs → pvs.mapM (toTensor S) = some vs →
    convRetAll L inputs single es i outs s = .ok ((outs', ns), s') →
    ∃ env', evalNodes S fuel env ns = some env' ∧ outs'.mapM env' = some (vals ++ vs) := by
  intro es
  induction es with
  | nil =>
    intro i outs env s s' outs' ns pvs vals vs _ _ _ ho _ he hv h
    unfold evalExprs at he
    cases he
    simp at hv
    subst hv
    unfold convRetAll at h
    obtain ⟨q1, q2⟩ := pure_ok h
    cases q1
    exact ⟨env, evalNodes_nil _ _ _, by simpa using ho⟩
  | cons e es ih =>
    intro i outs env s s' outs' ns pvs vals vs hL hR hs ho hou he hv h
    unfold evalExprs at he
    cases hea : evalExpr S ρ e with
    | none => simp [hea] at he
    | some pa =>
      cases hes : evalExprs S ρ es with
      | none => simp [hea, hes] at he
      | some prest =>
        simp only [hea, hes] at he
        cases he
        simp only [List.mapM_cons] at hv
        cases hta : toTensor S pa with
        | none => simp [hta] at hv
        | some va =>
          cases htr : prest.mapM (toTensor S) with
          | none => simp [hta, htr] at hv
          | some vr =>
            simp [hta, htr] at hv
            subst hv
            unfold convRetAll at h
            simp only at h
            mbind h with p s1 h1
            obtain ⟨o, ns1⟩ := p
            try dsimp only at h
            mbind h with p s2 h2
            obtain ⟨outs2, ns2⟩ := p
            try dsimp only at h
            obtain ⟨q1, q2⟩ := pure_ok h
            cases q1
            obtain ⟨env1, ev1, ho1, x1, c1, hu1, m1⟩ :=
              convRetOne_sim S fuel hConst hId hA hL hR hs hea hta h1
            have ho' : (outs ++ [o]).mapM env1 = some (vals ++ [va]) :=
              mapM_append_one (mapM_ext ho hou x1) ho1
            obtain ⟨env2, ev2, hm2⟩ := ih (i + 1) (outs ++ [o]) (hL.mono m1) (hR.ext hL x1) c1 ho'
              (by
                intro o' ho''
                rcases List.mem_append.mp ho'' with ho'' | ho''
                · exact m1 _ (hou o' ho'')
                · simp only [List.mem_singleton] at ho''; subst ho''; exact hu1) hes htr h2
            exact ⟨env2, evalNodes_seq ev1 ev2, by simpa [List.append_assoc] using hm2⟩

end OV.C01

namespace OV.C01

variable {V : Type}

/-! ## Function level -/

theorem convTop_sl_sim (S : Sem V) (fuel : Nat) (hConst : ∀ l, ∃ c, constOf S l = some c)
    (hId : ∀ v, S.op "" "Identity" [some v] [] = some [v]) {inputs : List Name} {rc : Option Nat} :
    ∀ (body : List Stmt) (L : Locals) {ρ : Store V} {env : Env V} {s s' : St} {ns : List Node}
      {outs : List Name} {pvs : List (PV V)} {vs : List V},
      straightLine body = true → (∀ x, x ∈ targetsBlock body → S.attrLit x = none) →
      NoAttrBind S L → VisOK s.used L → StoreRel S ρ L env s.castable → CastSub s →
      evalBlock S fuel body ρ = some (.returned pvs) → pvs.mapM (toTensor S) = some vs →
      convTop inputs rc L body [] s = .ok ((ns, outs), s') →
      ∃ env', evalNodes S fuel env ns = some env' ∧ outs.mapM env' = some vs := by
  intro body
  induction body with
  | nil => intro L ρ env s s' ns outs pvs vs hsl; simp [straightLine] at hsl
  | cons st ss ih =>
    intro L ρ env s s' ns outs pvs vs hsl ht hA hL hR hs he hv h
    have htS : ∀ x, x ∈ targetsStmt st → S.attrLit x = none := fun x hx =>
      ht x (by simp [targetsBlock, hx])
    have htR : ∀ x, x ∈ targetsBlock ss → S.attrLit x = none := fun x hx =>
      ht x (by simp [targetsBlock, hx])
    cases st with
    | assign x e =>
      simp only [straightLine] at hsl
      unfold evalBlock at he
      simp only [evalStmt] at he
      cases hee : evalExpr S ρ e with
      | none => simp [hee] at he
      | some pv =>
        simp only [hee] at he
        rw [convTop_cons_nonret inputs rc L _ ss [] (fun es b hc => by cases hc)] at h
        mbind h with p s1 h1
        obtain ⟨L1, ns1⟩ := p
        try dsimp only at h
        mbind h with p s2 h2
        obtain ⟨ns2, outs2⟩ := p
        try dsimp only at h
        obtain ⟨q1, q2⟩ := pure_ok h
        cases q1
        obtain ⟨env1, ev1, hR1, x1, c1, hL1, hA1, m1⟩ := assign_sim S fuel hConst hA hL hR hs (htS _ (by simp [targetsStmt])) hee h1
        obtain ⟨env2, ev2, hm2⟩ := ih L1 hsl htR hA1 hL1 hR1 c1 he hv h2
        exact ⟨env2, evalNodes_seq ev1 ev2, hm2⟩
    | skip =>
      simp only [straightLine] at hsl
      unfold evalBlock at he
      simp only [evalStmt] at he
      rw [convTop_cons_nonret inputs rc L _ ss [] (fun es b hc => by cases hc)] at h
      mbind h with p s1 h1
      obtain ⟨L1, ns1⟩ := p
      try dsimp only at h
      mbind h with p s2 h2
      obtain ⟨ns2, outs2⟩ := p
      try dsimp only at h
      obtain ⟨q1, q2⟩ := pure_ok h
      cases q1
      unfold convStmt at h1
      obtain ⟨q1, q2⟩ := pure_ok h1
      cases q1; subst q2
      obtain ⟨env2, ev2, hm2⟩ := ih L hsl htR hA hL hR hs he hv h2
      exact ⟨env2, by simpa using ev2, hm2⟩
    | ret es bare =>
      cases ss with
      | cons _ _ => simp [straightLine] at hsl
      | nil =>
        simp only [straightLine, Bool.not_eq_true'] at hsl
        subst hsl
        unfold evalBlock at he
        simp only [evalStmt] at he
        cases hes : evalExprs S ρ es with
        | none => simp [hes] at he
        | some pvs' =>
          simp only [hes] at he
          cases he
          unfold convTop at h
          mbind h with p s1 h1
          have h1 := (onlyLast_ok h1).2
          obtain ⟨outs1, ns1⟩ := p
          try dsimp only at h
          have hall : ∃ single, convRetAll L inputs single es 0 [] s = .ok ((outs1, ns1), s1) := by
            unfold convRetStmt at h1
            simp only [Bool.false_eq_true, if_false] at h1
            cases rc with
            | none => exact ⟨_, h1⟩
            | some k =>
              simp only at h1
              by_cases hk : k ≠ es.length
              · rw [if_pos hk] at h1; exact (failM_ok h1).elim
              · rw [if_neg hk] at h1; exact ⟨_, h1⟩
          obtain ⟨single, hall⟩ := hall
          obtain ⟨env1, ev1, hm1⟩ := convRetAll_sim S fuel hConst hId hA es 0 [] (vals := []) hL hR hs
            (by simp) (fun o ho => by cases ho) hes hv hall
          mbind h with p s2 h2
          obtain ⟨ns2, outs2⟩ := p
          try dsimp only at h
          obtain ⟨q1, q2⟩ := pure_ok h
          cases q1
          unfold convTop at h2
          obtain ⟨q1, q2⟩ := pure_ok h2
          cases q1
          exact ⟨env1, by simpa using ev1, by simpa using hm1⟩
    | par xs es =>
      simp only [straightLine] at hsl
      unfold evalBlock at he
      simp only [evalStmt] at he
      cases hee : evalExprs S ρ es with
      | none => simp [hee] at he
      | some pvs' =>
        simp only [hee] at he
        by_cases hlen : pvs'.length = xs.length
        · simp only [hlen, if_true] at he
          rw [convTop_cons_nonret inputs rc L _ ss [] (fun es b hc => by cases hc)] at h
          mbind h with p s1 h1
          obtain ⟨L1, ns1⟩ := p
          try dsimp only at h
          mbind h with p s2 h2
          obtain ⟨ns2, outs2⟩ := p
          try dsimp only at h
          obtain ⟨q1, q2⟩ := pure_ok h
          cases q1
          obtain ⟨env1, ev1, hR1, x1, c1, hL1, hA1, m1⟩ := par_sim S fuel hConst hA hL hR hs (fun x hx => htS x (by simp [targetsStmt, hx])) hee h1
          obtain ⟨env2, ev2, hm2⟩ := ih L1 hsl htR hA1 hL1 hR1 c1 he hv h2
          exact ⟨env2, evalNodes_seq ev1 ev2, hm2⟩
        · simp [hlen] at he
    | tuple xs e => simp [straightLine] at hsl
    | badAssign xs e => simp [straightLine] at hsl
    | ite c t e => simp [straightLine] at hsl
    | for_ i ok b body => simp [straightLine] at hsl
    | while_ c body => simp [straightLine] at hsl
    | brk c => simp [straightLine] at hsl
    | unsupported => simp [straightLine] at hsl

/-- All parameters are tensors. -/
def AllTensorParams (ps : List Param) : Prop := ∀ p, p ∈ ps → ∃ x, p = Param.tensor x

theorem paramFrame_vals : ∀ (ps : List Param), AllTensorParams ps → ∀ q, q ∈ paramFrame ps → ∃ n, q.2 = Bind.val n := by
  intro ps
  induction ps with
  | nil => intro _ q hq; simp [paramFrame] at hq
  | cons p ps ih =>
    intro hall q hq
    obtain ⟨x, rfl⟩ := hall p List.mem_cons_self
    simp only [paramFrame, List.mem_append, List.mem_singleton] at hq
    rcases hq with hq | hq
    · exact ih (fun p' hp' => hall p' (List.mem_cons_of_mem _ hp')) q hq
    · subst hq; exact ⟨x, rfl⟩

theorem paramFrame_attr_ident : ∀ (ps : List Param) (k p : Name) (ty : AttrTy),
    (k, Bind.attr p ty) ∈ paramFrame ps → p = k ∧ k ∈ attrParams ps := by
  intro ps
  induction ps with
  | nil => intro k p ty h; simp [paramFrame] at h
  | cons q ps ih =>
    intro k p ty h
    cases q with
    | tensor y =>
      simp only [paramFrame, List.mem_append, List.mem_singleton] at h
      rcases h with h | h
      · obtain ⟨h1, h2⟩ := ih k p ty h
        exact ⟨h1, by simpa [attrParams] using h2⟩
      · cases h
    | attr y ty' =>
      simp only [paramFrame, List.mem_append, List.mem_singleton] at h
      rcases h with h | h
      · obtain ⟨h1, h2⟩ := ih k p ty h
        refine ⟨h1, ?_⟩
        simp [attrParams] at h2 ⊢
        exact Or.inr h2
      · cases h
        exact ⟨rfl, by simp [attrParams]⟩

theorem paramFrame_find_attr : ∀ (ps : List Param) (x : Name) (ty : AttrTy), (ps.map Param.name).Nodup →
    Param.attr x ty ∈ ps → Frame.find (paramFrame ps) x = some (.attr x ty) := by
  intro ps
  induction ps with
  | nil => intro x ty _ hx; cases hx
  | cons q qs ih =>
    intro x ty hn hx
    simp only [List.map_cons, List.nodup_cons] at hn
    rcases List.mem_cons.mp hx with hq | hx'
    · subst hq
      simp only [paramFrame, Frame.find_append]
      rw [paramFrame_find_none qs x (by simpa [Param.name] using hn.1)]
      simp [Frame.find]
    · cases q with
      | tensor y =>
        simp only [paramFrame, Frame.find_append]
        rw [ih x ty hn.2 hx']
      | attr y ty' =>
        simp only [paramFrame, Frame.find_append]
        rw [ih x ty hn.2 hx']

/-- The parameter frame binds attribute parameters to themselves; the attribute parameters the closure gives a
value are among them (`hσ`). -/
theorem noAttrBind_paramFrame {S : Sem V} (ps : List Param) (hn : (ps.map Param.name).Nodup)
    (hσ : ∀ x l, S.attrLit x = some l → ∃ ty, Param.attr x ty ∈ ps ∧ AttrVal S x ty l) :
    NoAttrBind S [paramFrame ps] := by
  refine ⟨fun x p ty hl => ?_, fun x l hx => ?_⟩
  · obtain ⟨fr, hfr, hm⟩ := lookup_mem hl
    simp only [List.mem_singleton] at hfr
    subst hfr
    exact (paramFrame_attr_ident ps x p ty hm).1
  · obtain ⟨ty, hm, hv⟩ := hσ x l hx
    refine ⟨ty, ?_, hv⟩
    simp only [lookup]
    rw [paramFrame_find_attr ps x ty hn hm]

/-- Attribute parameters that the body never binds are free in the parameter frame. -/
theorem freeOf_paramFrame {S : Sem V} (ps : List Param) (ts : List Name)
    (h : ∀ p, p ∈ attrParams ps → p ∉ ts) (hP : ∀ x, x ∈ S.pyVars → x ∉ ts) : FreeOf S [paramFrame ps] ts := by
  intro x hx
  refine ⟨fun p ty hl => ?_, fun hm => hP x hm hx⟩
  obtain ⟨fr, hfr, hm⟩ := lookup_mem hl
  simp only [List.mem_singleton] at hfr
  subst hfr
  exact h x (paramFrame_attr_ident ps x p ty hm).2 hx

theorem setMany_rel : ∀ (xs : List Name) (vs : List V) (ρb : Store V) (eb : Env V),
    (∀ x, ρb x = (eb x).map PV.t) →
    ∀ x, (Store.setMany ρb xs (vs.map PV.t)) x = ((Env.setMany eb xs vs) x).map PV.t := by
  intro xs
  induction xs with
  | nil => intro vs ρb eb hb x; cases vs <;> exact hb x
  | cons y ys ih =>
    intro vs ρb eb hb x
    cases vs with
    | nil => exact hb x
    | cons v vs =>
      simp only [List.map_cons, Store.setMany, Env.setMany]
      apply ih
      intro z
      unfold Store.set Env.set
      by_cases hz : z = y
      · simp [hz]
      · simp [hz, hb z]

theorem setMany_dom : ∀ (xs : List Name) (vs : List V) (eb : Env V) (x : Name) (v : V),
    (Env.setMany eb xs vs) x = some v → x ∈ xs ∨ eb x = some v := by
  intro xs
  induction xs with
  | nil => intro vs eb x v h; cases vs <;> exact Or.inr h
  | cons y ys ih =>
    intro vs eb x v h
    cases vs with
    | nil => exact Or.inr h
    | cons w ws =>
      simp only [Env.setMany] at h
      rcases ih ws _ x v h with h' | h'
      · exact Or.inl (List.mem_cons_of_mem _ h')
      · unfold Env.set at h'
        by_cases hx : x = y
        · exact Or.inl (hx ▸ List.mem_cons_self)
        · simp only [hx, if_false] at h'; exact Or.inr h'

/-- **Refinement for straight-line functions.** -/
theorem convert_correct_sl (S : Sem V) (hConst : ∀ l, ∃ c, constOf S l = some c)
    (hId : ∀ v, S.op "" "Identity" [some v] [] = some [v]) {f : Func} {g : Graph}
    (hsl : straightLine f.body = true)
    (hσ : ∀ x l, S.attrLit x = some l → ∃ ty, Param.attr x ty ∈ f.params ∧ AttrVal S x ty l)
    (ht : ∀ x, x ∈ targetsBlock f.body → S.attrLit x = none)
    (hnames : (f.params.map Param.name).Nodup) (h : convert f = .ok g)
    {fuel : Nat} {args vs : List V} (he : evalFunc S fuel f args = some vs) :
    evalGraph S fuel g args = some vs := by
  obtain ⟨h, _, d0, ha0⟩ := convert_core h
  unfold convertCore at h
  cases ha : assignedBlock f.body with
  | none => rw [ha] at ha0; cases ha0
  | some d =>
    simp only at h
    cases hc : convTop (tensorParams f.params) f.retCount [paramFrame f.params] f.body []
        { used := (tensorParams f.params).reverse, next := 0, castable := [] } with
    | error e => rw [hc] at h; cases h
    | ok r =>
      obtain ⟨⟨ns, outs⟩, s'⟩ := r
      rw [hc] at h
      cases h
      unfold evalFunc at he
      simp only at he
      by_cases hlen : args.length = (tensorParams f.params).length
      · rw [if_pos hlen] at he
        cases hb : evalBlock S fuel f.body
            (Store.setMany (fun _ => none) (tensorParams f.params) (args.map PV.t)) with
        | none => simp [hb] at he
        | some o =>
          cases o with
          | normal _ => simp [hb] at he
          | broke _ => simp [hb] at he
          | returned pvs =>
            simp only [hb] at he
            have hL : VisOK (tensorParams f.params).reverse [paramFrame f.params] := by
              intro fr hfr p hp n hn
              simp only [List.mem_singleton] at hfr
              subst hfr
              simpa using paramFrame_vis _ p hp n hn
            have hR : StoreRel S (Store.setMany (fun _ => none) (tensorParams f.params) (args.map PV.t))
                [paramFrame f.params] (Env.setMany (fun _ => none) (tensorParams f.params) args) [] := by
              intro x pv hx
              rw [setMany_rel _ _ (fun _ => none) (fun _ => none) (fun _ => rfl)] at hx
              cases hev : Env.setMany (fun _ => none) (tensorParams f.params) args x with
              | none => simp [hev] at hx
              | some v =>
                simp only [hev, Option.map_some] at hx
                cases hx
                have hmem : x ∈ tensorParams f.params := by
                  rcases setMany_dom _ _ _ _ _ hev with h' | h'
                  · exact h'
                  · cases h'
                refine ⟨x, ?_, hev, by simp⟩
                simp only [lookup]
                rw [paramFrame_find _ x hnames hmem]
            obtain ⟨env', ev, hm⟩ := convTop_sl_sim S fuel hConst hId f.body [paramFrame f.params] hsl ht
              (noAttrBind_paramFrame _ hnames hσ) hL hR (fun n hn => by cases hn) hb he hc
            unfold evalGraph
            simp only [hlen, if_true, ev]
            exact hm
      · rw [if_neg hlen] at he; cases he

end OV.C01
