import OV.Model.C12Scope
/-! Refinement: the flat castable set keyed by unique value names = a literal flag on every binding. -/
namespace OV.Scope

def flagScope (c : List VId) (s : List (PyName × VId)) : List (PyName × Bool) :=
  s.map (fun p => (p.1, c.contains p.2))

def flagEnv (c : List VId) (l : List (List (PyName × VId))) : List (List (PyName × Bool)) :=
  l.map (flagScope c)

/-- All value ids in the scope stack and in the castable set are below the counter. -/
def Fresh (l : List (List (PyName × VId))) (c : List VId) (next : VId) : Prop :=
  (∀ s ∈ l, ∀ p ∈ s, p.2 < next) ∧ (∀ v ∈ c, v < next)

theorem lookupScope_flag (c : List VId) (n : PyName) : ∀ s : List (PyName × VId),
    lookupScopeS n (flagScope c s) = (lookupScope n s).map (fun v => c.contains v)
  | [] => rfl
  | (m, v) :: rest => by
    simp only [flagScope, List.map, lookupScopeS, lookupScope]
    by_cases h : (m == n) = true
    · simp [h]
    · simp only [h]
      exact lookupScope_flag c n rest

theorem lookup_flag (c : List VId) (n : PyName) : ∀ l : List (List (PyName × VId)),
    lookupS n (flagEnv c l) = (lookup n l).map (fun v => c.contains v)
  | [] => rfl
  | s :: rest => by
    simp only [flagEnv, List.map, lookupS, lookup]
    rw [lookupScope_flag]
    cases lookupScope n s with
    | some v => rfl
    | none => exact lookup_flag c n rest

theorem bind_flag (c : List VId) (n : PyName) (v : VId) (l : List (List (PyName × VId))) :
    flagEnv c (bind n v l) = bindS n (c.contains v) (flagEnv c l) := by
  cases l <;> rfl

/-- Adding a fresh id to the castable set does not change the flags of existing bindings. -/
theorem flagEnv_cons_fresh (c : List VId) (next : VId) (l : List (List (PyName × VId)))
    (h : ∀ s ∈ l, ∀ p ∈ s, p.2 < next) : flagEnv (next :: c) l = flagEnv c l := by
  unfold flagEnv
  apply List.map_congr_left
  intro s hs
  unfold flagScope
  apply List.map_congr_left
  intro p hp
  have hlt : p.2 < next := h s hs p hp
  have hne : p.2 ≠ next := Nat.ne_of_lt hlt
  have hb : (p.2 == next) = false := by simpa using hne
  simp only [List.contains_cons, hb, Bool.false_or]

theorem not_contains_of_fresh (c : List VId) (next : VId) (h : ∀ v ∈ c, v < next) : c.contains next = false := by
  cases hc : c.contains next with
  | false => rfl
  | true =>
    have := h next (List.contains_iff_mem.mp hc)
    exact absurd this (Nat.lt_irrefl _)

theorem fresh_bind (l : List (List (PyName × VId))) (c : List VId) (next : VId) (n : PyName)
    (h : Fresh l c next) : Fresh (bind n next l) c (next + 1) := by
  refine ⟨?_, fun v hv => Nat.lt_succ_of_lt (h.2 v hv)⟩
  intro s hs p hp
  cases l with
  | nil =>
    simp only [bind, List.mem_singleton] at hs
    subst hs
    simp only [List.mem_singleton] at hp
    subst hp
    exact Nat.lt_succ_self _
  | cons s0 rest =>
    simp only [bind, List.mem_cons] at hs
    rcases hs with rfl | hs
    · simp only [List.mem_cons] at hp
      rcases hp with rfl | hp
      · exact Nat.lt_succ_self _
      · exact Nat.lt_succ_of_lt (h.1 s0 List.mem_cons_self p hp)
    · exact Nat.lt_succ_of_lt (h.1 s (List.mem_cons_of_mem _ hs) p hp)

theorem fresh_tail (l : List (List (PyName × VId))) (c : List VId) (next : VId) (h : Fresh l c next) :
    Fresh l.tail c next :=
  ⟨fun s hs p hp => h.1 s (List.mem_of_mem_tail hs) p hp, h.2⟩

/-- Binding a list of names to fresh tensors (If/Loop outputs). -/
theorem bindOuts_spec (c : List VId) : ∀ (outs : List PyName) (l : List (List (PyName × VId))) (next : VId),
    Fresh l c next →
    flagEnv c (bindOuts outs l next).1 = outs.foldl (fun e n => bindS n false e) (flagEnv c l) ∧
    Fresh (bindOuts outs l next).1 c (bindOuts outs l next).2
  | [], l, next, h => ⟨rfl, h⟩
  | n :: rest, l, next, h => by
    have hb := fresh_bind l c next n h
    obtain ⟨ih1, ih2⟩ := bindOuts_spec c rest (bind n next l) (next + 1) hb
    simp only [bindOuts, List.foldl] at ih1 ih2 ⊢
    refine ⟨?_, ih2⟩
    rw [ih1, bind_flag, not_contains_of_fresh c next h.2]

/-- The simulation relation. -/
def Rel (st : St) (sp : Sp) : Prop :=
  sp.env = flagEnv st.castable st.locals ∧ sp.obs = st.obs ∧ Fresh st.locals st.castable st.next ∧ sp.err = st.err

theorem lookup_flag_isNone (c : List VId) (n : PyName) (l : List (List (PyName × VId))) :
    (lookupS n (flagEnv c l)).isNone = (lookup n l).isNone := by
  rw [lookup_flag]; cases lookup n l <;> rfl

theorem any_unbound_flag (c : List VId) (l : List (List (PyName × VId))) (names : List PyName) :
    names.any (fun n => (lookupS n (flagEnv c l)).isNone) = names.any (fun n => (lookup n l).isNone) := by
  simp only [lookup_flag_isNone]

theorem flagEnv_tail (c : List VId) (l : List (List (PyName × VId))) : (flagEnv c l).tail = flagEnv c l.tail := by
  simp [flagEnv, List.map_tail]

theorem fresh_push (l : List (List (PyName × VId))) (c : List VId) (next : VId) (h : Fresh l c next) :
    Fresh ([] :: l) c next := by
  refine ⟨?_, h.2⟩
  intro s hs p hp
  rcases List.mem_cons.mp hs with rfl | hs
  · cases hp
  · exact h.1 s hs p hp

theorem rel_step (st : St) (sp : Sp) (h : Rel st sp) (i : Instr) : Rel (step st i) (stepS sp i) := by
  obtain ⟨he, ho, hf, herr⟩ := h
  cases i with
  | enterLoop lv state =>
    obtain ⟨h1, h2⟩ := bindOuts_spec st.castable (lv.toList ++ state) ([] :: st.locals) st.next (fresh_push _ _ _ hf)
    refine ⟨?_, ho, h2, ?_⟩
    · simp only [step, stepS]
      rw [h1, he]; rfl
    · simp only [step, stepS, herr]
  | exitLoop state =>
    have ht := fresh_tail _ _ _ hf
    obtain ⟨h1, h2⟩ := bindOuts_spec st.castable state st.locals.tail st.next ht
    refine ⟨?_, ho, h2, ?_⟩
    · simp only [step, stepS]
      rw [h1, he, flagEnv_tail]
    · simp only [step, stepS, herr, he, flagEnv_tail, any_unbound_flag]
  | exitBranch outs =>
    refine ⟨?_, ho, fresh_tail _ _ _ hf, ?_⟩
    · simp only [step, stepS, he, flagEnv_tail]
    · simp only [step, stepS, herr, he, any_unbound_flag]
  | endIf outs =>
    obtain ⟨h1, h2⟩ := bindOuts_spec st.castable outs st.locals st.next hf
    refine ⟨?_, ho, h2, ?_⟩
    · simp only [step, stepS]
      rw [h1, he]
    · simp only [step, stepS, herr]
  | bindLit n =>
    refine ⟨?_, ho, ?_, herr⟩
    · simp only [step, stepS]
      rw [bind_flag, he]
      have h1 : flagEnv (st.next :: st.castable) st.locals = flagEnv st.castable st.locals :=
        flagEnv_cons_fresh _ _ _ hf.1
      simp [h1, List.contains_cons]
    · have := fresh_bind st.locals st.castable st.next n hf
      refine ⟨this.1, ?_⟩
      intro v hv
      simp only [step, List.mem_cons] at hv
      rcases hv with rfl | hv
      · exact Nat.lt_succ_self _
      · exact Nat.lt_succ_of_lt (hf.2 v hv)
  | bindTensor n =>
    refine ⟨?_, ho, fresh_bind st.locals st.castable st.next n hf, herr⟩
    simp only [step, stepS]
    rw [bind_flag, he, not_contains_of_fresh _ _ hf.2]
  | use n =>
    refine ⟨he, ?_, hf, herr⟩
    simp only [step, stepS]
    rw [ho, he, lookup_flag]
  | enter =>
    refine ⟨?_, ho, ?_, herr⟩
    · simp only [step, stepS, he]; rfl
    · refine ⟨?_, hf.2⟩
      intro s hs p hp
      simp only [step, List.mem_cons] at hs
      rcases hs with rfl | hs
      · cases hp
      · exact hf.1 s hs p hp
  | exit outs =>
    have ht := fresh_tail _ _ _ hf
    obtain ⟨h1, h2⟩ := bindOuts_spec st.castable outs st.locals.tail st.next ht
    refine ⟨?_, ho, h2, herr⟩
    simp only [step, stepS]
    rw [h1, he]
    simp [flagEnv, List.map_tail]

theorem rel_init : Rel St.init Sp.init := by
  refine ⟨rfl, rfl, ⟨?_, ?_⟩, rfl⟩
  · intro s hs p hp
    simp only [St.init, List.mem_singleton] at hs
    subst hs
    cases hp
  · intro v hv
    cases hv

theorem rel_run : ∀ (prog : List Instr) (st : St) (sp : Sp), Rel st sp →
    Rel (prog.foldl step st) (prog.foldl stepS sp)
  | [], _, _, h => h
  | i :: rest, st, sp, h => rel_run rest _ _ (rel_step st sp h i)


/-! ### a literal binding stays visible (and castable) in nested scopes until it is rebound -/

/-- `is` never rebinds `a` (no assignment to `a`, `a` not among the outputs of a block that is left) and never
leaves a scope it did not enter (`d` = scopes entered so far). -/
def safe (a : PyName) : Nat → List Instr → Bool
  | _, [] => true
  | d, .bindLit n :: r => (n != a) && safe a d r
  | d, .bindTensor n :: r => (n != a) && safe a d r
  | d, .use _ :: r => safe a d r
  | d, .enter :: r => safe a (d + 1) r
  | d, .exit outs :: r => decide (0 < d) && !(outs.contains a) && safe a (d - 1) r
  | d, .enterLoop lv state :: r => !((lv.toList ++ state).contains a) && safe a (d + 1) r
  | d, .exitLoop state :: r => decide (0 < d) && !(state.contains a) && safe a (d - 1) r
  | d, .exitBranch _ :: r => decide (0 < d) && safe a (d - 1) r
  | d, .endIf outs :: r => !(outs.contains a) && safe a d r

/-- `env` is `d` scopes that do not bind `a`, on top of an environment in which `a` is a literal. -/
def Vis (a : PyName) (d : Nat) (env : List (List (PyName × Bool))) : Prop :=
  ∃ X E, env = X ++ E ∧ X.length = d ∧ (∀ s ∈ X, lookupScopeS a s = none) ∧ lookupS a E = some true

theorem vis_lookup (a : PyName) (d : Nat) (env : List (List (PyName × Bool))) (h : Vis a d env) :
    lookupS a env = some true := by
  obtain ⟨X, E, rfl, hlen, hX, hE⟩ := h
  clear hlen
  induction X with
  | nil => exact hE
  | cons x xs ih =>
    simp only [List.cons_append, lookupS, hX x List.mem_cons_self]
    exact ih (fun s hs => hX s (List.mem_cons_of_mem _ hs))

theorem vis_bind (a n : PyName) (b : Bool) (hn : (n != a) = true) (d : Nat) (env : List (List (PyName × Bool)))
    (h : Vis a d env) : Vis a d (bindS n b env) := by
  obtain ⟨X, E, rfl, hd, hX, hE⟩ := h
  have hne : (n == a) = false := by simpa [bne] using hn
  cases X with
  | nil =>
    cases E with
    | nil => simp [lookupS] at hE
    | cons s rest =>
      refine ⟨[], ((n, b) :: s) :: rest, rfl, hd, (fun _ h => by cases h), ?_⟩
      simp only [lookupS, lookupScopeS, hne] at hE ⊢
      exact hE
  | cons x xs =>
    refine ⟨((n, b) :: x) :: xs, E, rfl, hd, ?_, hE⟩
    intro s hs
    rcases List.mem_cons.mp hs with rfl | hs
    · simp only [lookupScopeS, hne]
      exact hX x List.mem_cons_self
    · exact hX s (List.mem_cons_of_mem _ hs)

theorem vis_outs (a : PyName) : ∀ (outs : List PyName) (d : Nat) (env : List (List (PyName × Bool))),
    outs.contains a = false → Vis a d env → Vis a d (outs.foldl (fun e n => bindS n false e) env)
  | [], _, _, _, h => h
  | n :: rest, d, env, hc, h => by
    simp only [List.contains_cons, Bool.or_eq_false_iff] at hc
    have hn : (n != a) = true := by
      have : (a == n) = false := hc.1
      simp only [bne, Bool.not_eq_true']
      cases hh : (n == a) with
      | false => rfl
      | true =>
        have e : n = a := by simpa using hh
        subst e
        simp at this
    exact vis_outs a rest d _ hc.2 (vis_bind a n false hn d env h)

theorem vis_run (a : PyName) : ∀ (is : List Instr) (d : Nat) (sp : Sp), safe a d is = true → Vis a d sp.env →
    ∃ d', Vis a d' (is.foldl stepS sp).env
  | [], d, sp, _, h => ⟨d, h⟩
  | i :: rest, d, sp, hs, h => by
    cases i with
    | bindLit n =>
      simp only [safe, Bool.and_eq_true] at hs
      exact vis_run a rest d _ hs.2 (vis_bind a n true hs.1 d sp.env h)
    | bindTensor n =>
      simp only [safe, Bool.and_eq_true] at hs
      exact vis_run a rest d _ hs.2 (vis_bind a n false hs.1 d sp.env h)
    | use n => exact vis_run a rest d _ (by simpa [safe] using hs) h
    | enter =>
      simp only [safe] at hs
      obtain ⟨X, E, he, hd, hX, hE⟩ := h
      refine vis_run a rest (d + 1) _ hs ⟨[] :: X, E, ?_, by simp [hd], ?_, hE⟩
      · simp [stepS, he]
      · intro s hs'
        rcases List.mem_cons.mp hs' with rfl | hs'
        · rfl
        · exact hX s hs'
    | exit outs =>
      simp only [safe, Bool.and_eq_true, decide_eq_true_eq, Bool.not_eq_true'] at hs
      obtain ⟨⟨hd0, hc⟩, hr⟩ := hs
      obtain ⟨X, E, he, hd, hX, hE⟩ := h
      cases X with
      | nil => simp at hd; omega
      | cons x xs =>
        have ht : Vis a (d - 1) sp.env.tail :=
          ⟨xs, E, by simp [he], by simp at hd; omega, fun s hs' => hX s (List.mem_cons_of_mem _ hs'), hE⟩
        exact vis_run a rest (d - 1) _ hr (vis_outs a outs (d - 1) _ hc ht)
    | enterLoop lv state =>
      simp only [safe, Bool.and_eq_true, Bool.not_eq_true'] at hs
      obtain ⟨X, E, he, hd, hX, hE⟩ := h
      have hp : Vis a (d + 1) ([] :: sp.env) := by
        refine ⟨[] :: X, E, by simp [he], by simp [hd], ?_, hE⟩
        intro s hs'
        rcases List.mem_cons.mp hs' with rfl | hs'
        · rfl
        · exact hX s hs'
      exact vis_run a rest (d + 1) _ hs.2 (vis_outs a _ (d + 1) _ hs.1 hp)
    | exitLoop state =>
      simp only [safe, Bool.and_eq_true, decide_eq_true_eq, Bool.not_eq_true'] at hs
      obtain ⟨⟨hd0, hc⟩, hr⟩ := hs
      obtain ⟨X, E, he, hd, hX, hE⟩ := h
      cases X with
      | nil => simp at hd; omega
      | cons x xs =>
        have ht : Vis a (d - 1) sp.env.tail :=
          ⟨xs, E, by simp [he], by simp at hd; omega, fun s hs' => hX s (List.mem_cons_of_mem _ hs'), hE⟩
        exact vis_run a rest (d - 1) _ hr (vis_outs a state (d - 1) _ hc ht)
    | exitBranch outs =>
      simp only [safe, Bool.and_eq_true, decide_eq_true_eq] at hs
      obtain ⟨hd0, hr⟩ := hs
      obtain ⟨X, E, he, hd, hX, hE⟩ := h
      cases X with
      | nil => simp at hd; omega
      | cons x xs =>
        have ht : Vis a (d - 1) sp.env.tail :=
          ⟨xs, E, by simp [he], by simp at hd; omega, fun s hs' => hX s (List.mem_cons_of_mem _ hs'), hE⟩
        exact vis_run a rest (d - 1) _ hr ht
    | endIf outs =>
      simp only [safe, Bool.and_eq_true, Bool.not_eq_true'] at hs
      exact vis_run a rest d _ hs.2 (vis_outs a outs d _ hs.1 h)

/-! ### outputs of If/Loop nodes and loop-carried names are ordinary tensors (round 5) -/

theorem lookupS_bindS (n m : PyName) (b : Bool) (env : List (List (PyName × Bool))) :
    lookupS n (bindS m b env) = if (m == n) = true then some b else lookupS n env := by
  cases env with
  | nil => by_cases h : (m == n) = true <;> simp [bindS, lookupS, lookupScopeS, h]
  | cons s rest => by_cases h : (m == n) = true <;> simp [bindS, lookupS, lookupScopeS, h]

theorem lookupS_bindAll_false (n : PyName) : ∀ (names : List PyName) (env : List (List (PyName × Bool))),
    (lookupS n env = some false ∨ n ∈ names) →
    lookupS n (names.foldl (fun e m => bindS m false e) env) = some false
  | [], env, h => by
    rcases h with h | h
    · exact h
    · cases h
  | m :: rest, env, h => by
    simp only [List.foldl_cons]
    apply lookupS_bindAll_false n rest
    rw [lookupS_bindS]
    by_cases hm : (m == n) = true
    · left; simp [hm]
    · simp only [hm]
      rcases h with h | h
      · left; exact h
      · rcases List.mem_cons.mp h with rfl | h
        · simp at hm
        · right; exact h

/-! ### the scope stack of a well-bracketed program (round 5) -/

/-- Scope depth after a program started at depth `d` (number of blocks entered and not yet left); `none` when the
program leaves a block it never entered. -/
def depthAfter : Nat → List Instr → Option Nat
  | d, [] => some d
  | d, .bindLit _ :: r => depthAfter d r
  | d, .bindTensor _ :: r => depthAfter d r
  | d, .use _ :: r => depthAfter d r
  | d, .endIf _ :: r => depthAfter d r
  | d, .enter :: r => depthAfter (d + 1) r
  | d, .enterLoop _ _ :: r => depthAfter (d + 1) r
  | d, .exit _ :: r => if 0 < d then depthAfter (d - 1) r else none
  | d, .exitLoop _ :: r => if 0 < d then depthAfter (d - 1) r else none
  | d, .exitBranch _ :: r => if 0 < d then depthAfter (d - 1) r else none

theorem bind_length (n : PyName) (v : VId) (l : List (List (PyName × VId))) (h : 0 < l.length) :
    (bind n v l).length = l.length := by
  cases l with
  | nil => simp at h
  | cons s rest => rfl

theorem bindOuts_length : ∀ (outs : List PyName) (l : List (List (PyName × VId))) (next : VId), 0 < l.length →
    (bindOuts outs l next).1.length = l.length
  | [], _, _, _ => rfl
  | n :: rest, l, next, h => by
    have hb := bind_length n next l h
    have := bindOuts_length rest (bind n next l) (next + 1) (by omega)
    simp only [bindOuts, List.foldl] at this ⊢
    rw [this, hb]

theorem step_depth (st : St) (i : Instr) (d d' : Nat) (rest : List Instr) (hl : st.locals.length = d + 1)
    (h : depthAfter d (i :: rest) = some d') :
    ∃ d1, (step st i).locals.length = d1 + 1 ∧ depthAfter d1 rest = some d' := by
  cases i with
  | bindLit n => exact ⟨d, by simp only [step]; rw [bind_length _ _ _ (by omega), hl], h⟩
  | bindTensor n => exact ⟨d, by simp only [step]; rw [bind_length _ _ _ (by omega), hl], h⟩
  | use n => exact ⟨d, hl, h⟩
  | enter => exact ⟨d + 1, by simp [step, hl], h⟩
  | endIf outs => exact ⟨d, by simp only [step]; rw [bindOuts_length _ _ _ (by omega), hl], h⟩
  | enterLoop lv state =>
    refine ⟨d + 1, ?_, h⟩
    simp only [step]
    rw [bindOuts_length _ _ _ (by simp)]
    simp [hl]
  | exit outs =>
    simp only [depthAfter] at h
    split at h
    · refine ⟨d - 1, ?_, h⟩
      simp only [step]
      rw [bindOuts_length _ _ _ (by simp; omega)]
      simp; omega
    · cases h
  | exitLoop outs =>
    simp only [depthAfter] at h
    split at h
    · refine ⟨d - 1, ?_, h⟩
      simp only [step]
      rw [bindOuts_length _ _ _ (by simp; omega)]
      simp; omega
    · cases h
  | exitBranch outs =>
    simp only [depthAfter] at h
    split at h
    · refine ⟨d - 1, ?_, h⟩
      simp only [step]
      simp; omega
    · cases h

theorem foldl_depth : ∀ (prog : List Instr) (st : St) (d d' : Nat), st.locals.length = d + 1 →
    depthAfter d prog = some d' → (prog.foldl step st).locals.length = d' + 1
  | [], st, d, d', hl, h => by
    simp only [depthAfter, Option.some.injEq] at h
    subst h
    exact hl
  | i :: rest, st, d, d', hl, h => by
    obtain ⟨d1, h1, h2⟩ := step_depth st i d d' rest hl h
    exact foldl_depth rest (step st i) d1 d' h1 h2

end OV.Scope
