import OV.Model.C05Linalg
/-!
# C05 — removing `Expand` in front of a broadcasting binary op is shape-sound (all ranks, all dim sizes)

`Op(Expand(x, e), y) → Op(x, y)` under the guard `expandRemovableConst` (strategy 1, constant target), static shapes.

* `specBroadcast_eq_some_iff`, `specBroadcast_isSome_iff` : right-aligned index characterisation of `specBroadcast`.
* `guard_iff` : the guard is `e.length ≤ max rank` plus, per right-aligned position, `e = 1 ∨ x = e ∨ y = e`.
* `expand_removal_shape_eq` : guard + valid Expand ⟹ `specBroadcast t y = specBroadcast x y` (as options).
* `expand_removal_shape_sound` (main), `expand_removal_shape_sound'` (no non-negativity hypothesis: `guard_nonneg`),
  `expand_removal_shape_complete`, `expand_valid_of_rewritten_valid`, `expand_removal_shape_iff`.
* `rank_guard_needed`, `guard_does_not_validate_expand` : witnesses.
* `expand_index_compose`, `expand_removal_value_sound` : element positions.
Core Lean only.
-/
set_option linter.unusedSimpArgs false

namespace OV.Lemmas.C05Expand
open OV.C05.Shape OV.C05.Linalg

/-! ## Sanity facts -/

theorem sanity_stretch_fires : expandRemovableConst (some [.known 1]) (some [.known 3]) [3] = true := by decide
theorem sanity_rank_change_refused : expandRemovableConst (some [.known 3]) (some [.known 3]) [1, 3] = false := by decide
theorem sanity_mixed_fires : expandRemovableConst (some [.known 2, .known 1]) (some [.known 3]) [2, 3] = true := by decide
theorem sanity_neither_matches_refused : expandRemovableConst (some [.known 1]) (some [.known 1]) [3] = false := by decide

/-! ## Per-dimension broadcast rule -/

/-- The per-dimension rule of `specBroadcast`. -/
def bdim (x y : Nat) : Option Nat :=
  if x = y then some x else if x = 1 then some y else if y = 1 then some x else none

def bc1 : Nat × Nat → Option Nat :=
  fun (x, y) => if x == y then some x else if x == 1 then some y else if y == 1 then some x else none

theorem bc1_eq (x y : Nat) : bc1 (x, y) = bdim x y := by
  simp [bc1, bdim]

theorem bdim_one_one : bdim 1 1 = some 1 := by decide

/-- Right-aligned read with missing dims read as `1`. -/
def rget (a : List Nat) (j : Nat) : Nat :=
  if j < a.length then a.getD (a.length - 1 - j) 1 else 1

theorem specBroadcast_eq (a b : List Nat) :
    specBroadcast a b =
      (List.zip (List.replicate (max a.length b.length - a.length) 1 ++ a)
                (List.replicate (max a.length b.length - b.length) 1 ++ b)).mapM bc1 := rfl

/-- Index characterisation of `mapM` into `Option`. -/
theorem mapM_eq_some_iff {α β : Type} (f : α → Option β) (da : α) (db : β) (l : List α) (r : List β) :
    l.mapM f = some r ↔ r.length = l.length ∧ ∀ i, i < l.length → f (l.getD i da) = some (r.getD i db) := by
  induction l generalizing r with
  | nil =>
    cases r <;> simp
  | cons a l ih =>
    rw [List.mapM_cons]
    constructor
    · intro h
      cases hfa : f a with
      | none => simp [hfa] at h
      | some b =>
        cases hl : l.mapM f with
        | none => simp [hfa, hl] at h
        | some bs =>
          simp [hfa, hl] at h
          subst h
          obtain ⟨h1, h2⟩ := (ih bs).1 hl
          refine ⟨by simp [h1], ?_⟩
          intro i hi
          cases i with
          | zero => simpa using hfa
          | succ i =>
            have := h2 i (by simpa using hi)
            simpa using this
    · rintro ⟨h1, h2⟩
      cases r with
      | nil => simp at h1
      | cons b bs =>
        have h0 := h2 0 (by simp)
        simp at h0
        have hl : l.mapM f = some bs := by
          refine (ih bs).2 ⟨by simpa using h1, ?_⟩
          intro i hi
          have := h2 (i + 1) (by simpa using hi)
          simpa using this
        simp [h0, hl]

theorem rget_of_le (a : List Nat) (j : Nat) (h : a.length ≤ j) : rget a j = 1 := by
  unfold rget; rw [if_neg (by omega)]

/-- Left-padding with `1`s to length `n`, read at `i`, is the right-aligned read at `n - 1 - i`. -/
theorem pad_getD (a : List Nat) (n i : Nat) (hn : a.length ≤ n) (hi : i < n) :
    (List.replicate (n - a.length) 1 ++ a).getD i 1 = rget a (n - 1 - i) := by
  unfold rget
  rw [List.getD_eq_getElem?_getD, List.getD_eq_getElem?_getD]
  by_cases h : i < n - a.length
  · rw [List.getElem?_append_left (by simpa using h)]
    rw [if_neg (by omega)]
    simp [List.getElem?_replicate, h]
  · rw [List.getElem?_append_right (by simpa using Nat.le_of_not_lt h)]
    rw [if_pos (by omega)]
    simp only [List.length_replicate]
    have e : i - (n - a.length) = a.length - 1 - (n - 1 - i) := by omega
    rw [e]

theorem zip_getD {α β : Type} (l₁ : List α) (l₂ : List β) (d₁ : α) (d₂ : β) (i : Nat)
    (h₁ : i < l₁.length) (h₂ : i < l₂.length) :
    (List.zip l₁ l₂).getD i (d₁, d₂) = (l₁.getD i d₁, l₂.getD i d₂) := by
  induction l₁ generalizing l₂ i with
  | nil => simp at h₁
  | cons x l₁ ih =>
    cases l₂ with
    | nil => simp at h₂
    | cons y l₂ =>
      cases i with
      | zero => simp
      | succ i =>
        have := ih l₂ i (by simpa using h₁) (by simpa using h₂)
        simpa using this

theorem zip_pad_length (a b : List Nat) :
    (List.zip (List.replicate (max a.length b.length - a.length) 1 ++ a)
      (List.replicate (max a.length b.length - b.length) 1 ++ b)).length = max a.length b.length := by
  simp only [List.length_zip, List.length_append, List.length_replicate]; omega

theorem zip_pad_getD (a b : List Nat) : ∀ i, i < max a.length b.length →
    bc1 ((List.zip (List.replicate (max a.length b.length - a.length) 1 ++ a)
      (List.replicate (max a.length b.length - b.length) 1 ++ b)).getD i (1, 1)) =
    bdim (rget a (max a.length b.length - 1 - i)) (rget b (max a.length b.length - 1 - i)) := by
  intro i hi
  rw [zip_getD _ _ _ _ _ (by simp only [List.length_append, List.length_replicate]; omega)
    (by simp only [List.length_append, List.length_replicate]; omega), bc1_eq,
    pad_getD a _ i (by omega) hi, pad_getD b _ i (by omega) hi]

/-- `mapM` into `Option` succeeds iff every element succeeds. -/
theorem mapM_isSome_iff {α β : Type} (f : α → Option β) (da : α) (l : List α) :
    (∃ r, l.mapM f = some r) ↔ ∀ i, i < l.length → ∃ b, f (l.getD i da) = some b := by
  induction l with
  | nil => simp
  | cons a l ih =>
    rw [List.mapM_cons]
    constructor
    · rintro ⟨r, h⟩
      cases hfa : f a with
      | none => simp [hfa] at h
      | some b =>
        cases hl : l.mapM f with
        | none => simp [hfa, hl] at h
        | some bs =>
          have h2 := ih.1 ⟨bs, hl⟩
          intro i hi
          cases i with
          | zero => exact ⟨b, by simpa using hfa⟩
          | succ i =>
            obtain ⟨c, hc⟩ := h2 i (by simpa using hi)
            exact ⟨c, by simpa using hc⟩
    · intro h
      obtain ⟨b, hb⟩ := h 0 (by simp)
      simp at hb
      obtain ⟨bs, hbs⟩ := ih.2 (by
        intro i hi
        obtain ⟨c, hc⟩ := h (i + 1) (by simpa using hi)
        exact ⟨c, by simpa using hc⟩)
      exact ⟨b :: bs, by simp [hb, hbs]⟩

/-- `specBroadcast a b` is defined iff every right-aligned position is compatible. -/
theorem specBroadcast_isSome_iff (a b : List Nat) :
    (∃ r, specBroadcast a b = some r) ↔ ∀ j, ∃ d, bdim (rget a j) (rget b j) = some d := by
  rw [specBroadcast_eq, mapM_isSome_iff bc1 (1, 1), zip_pad_length]
  constructor
  · intro h j
    by_cases hj : j < max a.length b.length
    · obtain ⟨d, hd⟩ := h (max a.length b.length - 1 - j) (by omega)
      rw [zip_pad_getD a b _ (by omega)] at hd
      have e : max a.length b.length - 1 - (max a.length b.length - 1 - j) = j := by omega
      rw [e] at hd
      exact ⟨d, hd⟩
    · rw [rget_of_le a j (by omega), rget_of_le b j (by omega)]
      exact ⟨1, bdim_one_one⟩
  · intro h i hi
    rw [zip_pad_getD a b i hi]
    exact h _

/-- `specBroadcast` via right-aligned indexing (missing dims read as `1`). -/
theorem specBroadcast_eq_some_iff (a b r : List Nat) :
    specBroadcast a b = some r ↔
      r.length = max a.length b.length ∧ ∀ j, bdim (rget a j) (rget b j) = some (rget r j) := by
  rw [specBroadcast_eq, mapM_eq_some_iff bc1 (1, 1) 1]
  have hzl : (List.zip (List.replicate (max a.length b.length - a.length) 1 ++ a)
      (List.replicate (max a.length b.length - b.length) 1 ++ b)).length = max a.length b.length := by
    simp only [List.length_zip, List.length_append, List.length_replicate]; omega
  rw [hzl]
  have key := zip_pad_getD a b
  have rkey : ∀ i, r.length = max a.length b.length → i < max a.length b.length →
      r.getD i 1 = rget r (max a.length b.length - 1 - i) := by
    intro i hr hi
    have := pad_getD r (max a.length b.length) i (by omega) hi
    rw [← this, hr]; simp
  constructor
  · rintro ⟨h1, h2⟩
    refine ⟨h1, ?_⟩
    intro j
    by_cases hj : j < max a.length b.length
    · have := h2 (max a.length b.length - 1 - j) (by omega)
      rw [key _ (by omega), rkey _ h1 (by omega)] at this
      have e : max a.length b.length - 1 - (max a.length b.length - 1 - j) = j := by omega
      rwa [e] at this
    · rw [rget_of_le a j (by omega), rget_of_le b j (by omega), rget_of_le r j (by omega)]
      exact bdim_one_one
  · rintro ⟨h1, h2⟩
    refine ⟨h1, ?_⟩
    intro i hi
    rw [key i hi, rkey i h1 hi]
    exact h2 _

/-! ## The guard, per right-aligned position -/

theorem annot_dim_eq (x : List Nat) (rev : Nat) :
    (if rev < (x.map Dim.known).length
      then (x.map Dim.known).getD ((x.map Dim.known).length - 1 - rev) Dim.unknown
      else Dim.known 1) = Dim.known (rget x rev) := by
  unfold rget
  simp only [List.length_map]
  split
  · have h : x.length - 1 - rev < x.length := by omega
    simp [List.getD_eq_getElem?_getD, List.getElem?_map, List.getElem?_eq_getElem h]
  · rfl

/-- Right-aligned read of the (integer) Expand target, missing entries read as `1`. -/
def rgetI (e : List Int) (j : Nat) : Int :=
  if j < e.length then e.getD (e.length - 1 - j) 0 else 1

theorem guard_iff (x y : List Nat) (e : List Int) :
    expandRemovableConst (some (x.map Dim.known)) (some (y.map Dim.known)) e = true ↔
      e.length ≤ max x.length y.length ∧
      ∀ j, rgetI e j = 1 ∨ (rget x j : Int) = rgetI e j ∨ (rget y j : Int) = rgetI e j := by
  unfold expandRemovableConst expandRemovableConstPrefix expandRankChanges
  simp only [annot_dim_eq]
  simp only [Bool.and_eq_true, Bool.not_eq_true', decide_eq_false_iff_not, Nat.not_lt, List.length_map,
    List.all_eq_true, List.mem_range]
  refine and_congr_right (fun _ => ?_)
  constructor
  · intro h j
    by_cases hj : j < e.length
    · have := h j hj
      unfold rgetI
      rw [if_pos hj]
      generalize e.getD (e.length - 1 - j) 0 = v at this ⊢
      by_cases h1 : v = 1
      · exact Or.inl h1
      · right
        simpa [h1, Int.ofNat_eq_natCast] using this
    · left; unfold rgetI; rw [if_neg hj]
  · intro h j hj
    have := h j
    unfold rgetI at this
    rw [if_pos hj] at this
    generalize e.getD (e.length - 1 - j) 0 = v at this ⊢
    by_cases h1 : v = 1
    · simp [h1]
    · simpa [h1, Int.ofNat_eq_natCast] using this

/-! ## Pointwise argument -/

theorem bdim_self (x : Nat) : bdim x x = some x := by simp [bdim]

theorem bdim_one_right (x : Nat) : bdim x 1 = some x := by
  unfold bdim; by_cases h : x = 1 <;> simp [h]

theorem bdim_eq_some (x y t : Nat) (h : bdim x y = some t) : t = x ∨ t = y := by
  unfold bdim at h
  by_cases h1 : x = y
  · rw [if_pos h1] at h; cases h; exact Or.inl rfl
  · rw [if_neg h1] at h
    by_cases h2 : x = 1
    · rw [if_pos h2] at h; cases h; exact Or.inr rfl
    · rw [if_neg h2] at h
      by_cases h3 : y = 1
      · rw [if_pos h3] at h; cases h; exact Or.inl rfl
      · rw [if_neg h3] at h; cases h

/-- One right-aligned position: with `t = bdim x e` and the guard's disjunction, broadcasting `t` against `y`
is the same as broadcasting `x` against `y` (as partial results — failure included). -/
theorem bdim_step (x y e t : Nat) (ht : bdim x e = some t) (hg : e = 1 ∨ x = e ∨ y = e) :
    bdim t y = bdim x y := by
  rcases hg with rfl | rfl | rfl
  · rw [bdim_one_right] at ht; cases ht; rfl
  · rw [bdim_self] at ht; cases ht; rfl
  · rcases bdim_eq_some _ _ _ ht with rfl | rfl
    · rfl
    · rw [ht, bdim_self]

theorem rgetI_map_ofNat (en : List Nat) (j : Nat) : rgetI (en.map Int.ofNat) j = (rget en j : Int) := by
  unfold rgetI rget
  simp only [List.length_map]
  split
  · have h : en.length - 1 - j < en.length := by omega
    simp [List.getD_eq_getElem?_getD, List.getElem?_map, List.getElem?_eq_getElem h]
  · rfl

/-! ## Main theorems -/

/-- Under the guard and a valid `Expand` (`t` its output shape), the original op `Op(Expand(x,e), y)` and the
rewritten op `Op(x, y)` have the same broadcast outcome: both invalid, or both valid with the same shape. -/
theorem expand_removal_shape_eq (x y : List Nat) (e : List Int) (en : List Nat) (t : List Nat)
    (hguard : expandRemovableConst (some (x.map Dim.known)) (some (y.map Dim.known)) e = true)
    (he : e = en.map Int.ofNat)
    (ht : specBroadcast x en = some t) :
    specBroadcast t y = specBroadcast x y := by
  subst he
  obtain ⟨hlen, hg⟩ := (guard_iff x y _).1 hguard
  obtain ⟨htl, htp⟩ := (specBroadcast_eq_some_iff _ _ _).1 ht
  rw [List.length_map] at hlen
  have hpt : ∀ j, bdim (rget t j) (rget y j) = bdim (rget x j) (rget y j) := by
    intro j
    refine bdim_step _ _ (rget en j) _ (htp j) ?_
    have := hg j
    rw [rgetI_map_ofNat] at this
    omega
  apply Option.ext
  intro r
  rw [specBroadcast_eq_some_iff, specBroadcast_eq_some_iff]
  have hm : max t.length y.length = max x.length y.length := by omega
  rw [hm]
  simp only [hpt]

/-- **Main goal.** -/
theorem expand_removal_shape_sound (x y : List Nat) (e : List Int) (en : List Nat) (t r : List Nat)
    (hguard : expandRemovableConst (some (x.map Dim.known)) (some (y.map Dim.known)) e = true)
    (he : e = en.map Int.ofNat)
    (ht : specBroadcast x en = some t)
    (hr : specBroadcast t y = some r) :
    specBroadcast x y = some r := by
  rw [← expand_removal_shape_eq x y e en t hguard he ht]; exact hr

/-- The rewrite does not turn an invalid model into a valid one either. -/
theorem expand_removal_shape_complete (x y : List Nat) (e : List Int) (en : List Nat) (t r : List Nat)
    (hguard : expandRemovableConst (some (x.map Dim.known)) (some (y.map Dim.known)) e = true)
    (he : e = en.map Int.ofNat)
    (ht : specBroadcast x en = some t)
    (hr : specBroadcast x y = some r) :
    specBroadcast t y = some r := by
  rw [expand_removal_shape_eq x y e en t hguard he ht]; exact hr

/-- If the rewritten op is valid, the guard makes the removed `Expand` valid as well. -/
theorem expand_valid_of_rewritten_valid (x y : List Nat) (e : List Int) (en : List Nat) (r : List Nat)
    (hguard : expandRemovableConst (some (x.map Dim.known)) (some (y.map Dim.known)) e = true)
    (he : e = en.map Int.ofNat)
    (hr : specBroadcast x y = some r) :
    ∃ t, specBroadcast x en = some t := by
  subst he
  obtain ⟨_, hg⟩ := (guard_iff x y _).1 hguard
  obtain ⟨_, hrp⟩ := (specBroadcast_eq_some_iff _ _ _).1 hr
  rw [specBroadcast_isSome_iff]
  intro j
  have h1 := hg j
  rw [rgetI_map_ofNat] at h1
  have h2 : rget en j = 1 ∨ rget x j = rget en j ∨ rget y j = rget en j := by omega
  rcases h2 with h | h | h
  · rw [h]; exact ⟨_, bdim_one_right _⟩
  · rw [← h]; exact ⟨_, bdim_self _⟩
  · rw [← h]; exact ⟨_, hrp j⟩

/-- **Full equivalence.** Under the guard, "the `Expand` is valid and the original op is valid with result
shape `r`" is equivalent to "the rewritten op is valid with result shape `r`". -/
theorem expand_removal_shape_iff (x y : List Nat) (e : List Int) (en : List Nat) (r : List Nat)
    (hguard : expandRemovableConst (some (x.map Dim.known)) (some (y.map Dim.known)) e = true)
    (he : e = en.map Int.ofNat) :
    (∃ t, specBroadcast x en = some t ∧ specBroadcast t y = some r) ↔ specBroadcast x y = some r := by
  constructor
  · rintro ⟨t, ht, hr⟩
    exact expand_removal_shape_sound x y e en t r hguard he ht hr
  · intro hr
    obtain ⟨t, ht⟩ := expand_valid_of_rewritten_valid x y e en r hguard he hr
    exact ⟨t, ht, expand_removal_shape_complete x y e en t r hguard he ht hr⟩

/-! ## `he` is implied by the guard -/

theorem guard_nonneg (x y : List Nat) (e : List Int)
    (hguard : expandRemovableConst (some (x.map Dim.known)) (some (y.map Dim.known)) e = true) :
    e = (e.map Int.toNat).map Int.ofNat := by
  obtain ⟨_, hg⟩ := (guard_iff x y _).1 hguard
  rw [List.map_map]
  conv => lhs; rw [← List.map_id e]
  apply List.map_congr_left
  intro v hv
  obtain ⟨k, hk, rfl⟩ := List.getElem_of_mem hv
  have := hg (e.length - 1 - k)
  unfold rgetI at this
  rw [if_pos (by omega)] at this
  have e1 : e.length - 1 - (e.length - 1 - k) = k := by omega
  rw [e1] at this
  simp only [List.getD_eq_getElem?_getD, List.getElem?_eq_getElem hk, Option.getD_some] at this
  simp only [id, Function.comp]
  have : 0 ≤ e[k] := by omega
  simp [Int.toNat_of_nonneg this]

/-- Main goal without the non-negativity hypothesis: the guard already forces `e ≥ 0` entrywise. -/
theorem expand_removal_shape_sound' (x y : List Nat) (e : List Int) (t r : List Nat)
    (hguard : expandRemovableConst (some (x.map Dim.known)) (some (y.map Dim.known)) e = true)
    (ht : specBroadcast x (e.map Int.toNat) = some t)
    (hr : specBroadcast t y = some r) :
    specBroadcast x y = some r :=
  expand_removal_shape_sound x y e (e.map Int.toNat) t r hguard (guard_nonneg x y e hguard) ht hr

/-! ## Necessity witnesses -/

/-- The rank guard is needed: the pre-fix guard accepts `e = [1,3]` against `x = y = [3]`, the Expand and the
original op are valid with result `[1,3]`, but the rewritten op has result `[3]`. -/
theorem rank_guard_needed :
    expandRemovableConstPrefix (some [.known 3]) (some [.known 3]) [1, 3] = true ∧
    specBroadcast [3] [1, 3] = some [1, 3] ∧ specBroadcast [1, 3] [3] = some [1, 3] ∧
    specBroadcast [3] [3] = some [3] := by decide

/-- The guard does not by itself make the `Expand` valid (hypothesis `ht` is not vacuous); here the rewritten op is
invalid too. -/
theorem guard_does_not_validate_expand :
    expandRemovableConst (some [.known 2]) (some [.known 3]) [3] = true ∧
    specBroadcast [2] [3] = none := by decide

/-! ## Element positions (optional part)

A tensor of shape `s` is read at right-aligned coordinates `c : Nat → Nat` (`c j` = coordinate of the `j`-th axis
from the right; axes beyond the rank carry coordinate `0`).  Broadcasting a tensor of shape `s` to a larger shape
reads it at `bidx s c`: coordinate `0` where the source dim is `1` (or missing), the output coordinate otherwise. -/

def bidx (s : List Nat) (c : Nat → Nat) : Nat → Nat :=
  fun j => if rget s j = 1 then 0 else c j

theorem bdim_ne_one (x e t : Nat) (h : bdim x e = some t) (hx : x ≠ 1) : t ≠ 1 := by
  unfold bdim at h
  by_cases h1 : x = e
  · rw [if_pos h1] at h; cases h; exact hx
  · rw [if_neg h1, if_neg hx] at h
    by_cases h3 : e = 1
    · rw [if_pos h3] at h; cases h; exact hx
    · rw [if_neg h3] at h; cases h

/-- The source index into `x` reached through the expanded tensor (shape `t = broadcast x e`) equals the source
index reached directly — for any valid `Expand`, guard or no guard. -/
theorem expand_index_compose (x en t : List Nat) (ht : specBroadcast x en = some t) (c : Nat → Nat) :
    bidx x (bidx t c) = bidx x c := by
  obtain ⟨_, htp⟩ := (specBroadcast_eq_some_iff _ _ _).1 ht
  funext j
  unfold bidx
  by_cases hx : rget x j = 1
  · rw [if_pos hx, if_pos hx]
  · rw [if_neg hx, if_neg hx, if_neg (bdim_ne_one _ _ _ (htp j) hx)]

/-- Function model of tensors: `Expand` and a broadcasting binary op. -/
def expandT {α : Type} (xs : List Nat) (X : (Nat → Nat) → α) : (Nat → Nat) → α :=
  fun c => X (bidx xs c)

def binopT {α : Type} (f : α → α → α) (as bs : List Nat) (A B : (Nat → Nat) → α) : (Nat → Nat) → α :=
  fun c => f (A (bidx as c)) (B (bidx bs c))

/-- Element-wise: `Op(Expand(X, e), Y)` and `Op(X, Y)` agree at every output coordinate (the output index sets agree
by `expand_removal_shape_sound`). -/
theorem expand_removal_value_sound {α : Type} (f : α → α → α) (x y en t : List Nat)
    (ht : specBroadcast x en = some t) (X Y : (Nat → Nat) → α) :
    binopT f t y (expandT x X) Y = binopT f x y X Y := by
  funext c
  simp only [binopT, expandT, expand_index_compose x en t ht]

end OV.Lemmas.C05Expand
