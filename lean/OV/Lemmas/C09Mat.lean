import OV.Lemmas.C09Reshape
/-! `MaterializeReshapeShape`: lemmas about the emitted target (core Lean only). -/
set_option linter.unusedSimpArgs false
namespace OV.C09

def matF : Dim → Int
  | .known n => n
  | _ => -1

def nonInts (o : Shape) : Nat := (o.filter (fun d => !d.isInt)).length

def statics : Shape → List Int
  | [] => []
  | .known n :: t => n :: statics t
  | _ :: t => statics t

theorem materialize_eq (o : Shape) (tgt : List Int) (h : materialize (some o) false = some tgt) :
    nonInts o ≤ 1 ∧ tgt = o.map matF ∧ (nonInts o = 1 → Dim.known 0 ∉ o) := by
  simp only [materialize, Bool.false_eq_true, if_false] at h
  by_cases hg : ((o.filter (fun d => !d.isInt)).length = 1 && o.any (fun d => decide (d = .known 0))) = true
  · rw [if_pos hg] at h; cases h
  · rw [if_neg hg] at h
    by_cases hc : (o.filter (fun d => !d.isInt)).length ≤ 1
    · rw [if_pos hc] at h
      simp only [Option.some.injEq] at h
      refine ⟨hc, ?_, ?_⟩
      · rw [← h]
        apply List.map_congr_left
        intro d _
        cases d <;> rfl
      · intro h1 hm
        apply hg
        simp only [Bool.and_eq_true, decide_eq_true_eq, List.any_eq_true]
        exact ⟨h1, ⟨_, hm, rfl⟩⟩
    · rw [if_neg hc] at h; cases h

theorem nonInts_cons_known (n : Int) (o : Shape) : nonInts (.known n :: o) = nonInts o := by
  simp only [nonInts, List.filter_cons, Dim.isInt, Bool.not_true, Bool.false_eq_true, if_false]

theorem nonInts_cons_sym (a : String) (o : Shape) : nonInts (.sym a :: o) = nonInts o + 1 := by
  simp only [nonInts, List.filter_cons, Dim.isInt, Bool.not_false, if_true, List.length_cons]

theorem nonInts_cons_unknown (o : Shape) : nonInts (.unknown :: o) = nonInts o + 1 := by
  simp only [nonInts, List.filter_cons, Dim.isInt, Bool.not_false, if_true, List.length_cons]

/-- facts about the target that hold for any number of non-static dims -/
theorem mat_basic {σ : String → Nat} : ∀ {o : Shape} {lo : List Int}, Admits σ o lo → (∀ d ∈ lo, 0 ≤ d) →
    (o.map matF).filter (· != -1) = statics o ∧
    ((o.map matF).filter (· == -1)).length = nonInts o ∧
    (o.map matF).any (· < -1) = false ∧
    (∀ d ∈ statics o, 0 ≤ d)
  | [], [], _, _ => by simp [statics, nonInts]
  | [], _ :: _, h, _ => by simp only [Admits] at h
  | _ :: _, [], h, _ => by simp only [Admits] at h
  | d :: o, v :: lo, h, hn => by
    simp only [Admits] at h
    obtain ⟨i1, i2, i3, i4⟩ := mat_basic h.2 (fun d hd => hn d (List.mem_cons_of_mem _ hd))
    have hv : 0 ≤ v := hn v (List.mem_cons_self ..)
    cases d with
    | known n =>
      simp only [Dim.Admits] at h
      have hn1 : n ≠ -1 := by omega
      have hn2 : ¬ n < -1 := by omega
      refine ⟨?_, ?_, ?_, ?_⟩
      · simp [matF, statics, hn1, i1]
      · simp [matF, hn1, i2, nonInts_cons_known]
      · simp [matF, hn2, i3]
      · intro d hd
        simp only [statics, List.mem_cons] at hd
        rcases hd with rfl | hd
        · omega
        · exact i4 d hd
    | sym a =>
      refine ⟨?_, ?_, ?_, ?_⟩
      · simp [matF, statics, i1]
      · simp [matF, i2, nonInts_cons_sym]
      · simp [matF, i3]
      · simpa only [statics] using i4
    | unknown =>
      refine ⟨?_, ?_, ?_, ?_⟩
      · simp [matF, statics, i1]
      · simp [matF, i2, nonInts_cons_unknown]
      · simp [matF, i3]
      · simpa only [statics] using i4

/-- no non-static dim: the target is the concrete shape itself -/
theorem mat_zero {σ : String → Nat} : ∀ {o : Shape} {lo : List Int}, nonInts o = 0 → Admits σ o lo →
    o.map matF = lo ∧ statics o = lo
  | [], [], _, _ => by simp [statics]
  | [], _ :: _, _, h => by simp only [Admits] at h
  | _ :: _, [], _, h => by simp only [Admits] at h
  | .known n :: o, v :: lo, hc, h => by
    simp only [Admits, Dim.Admits] at h
    rw [nonInts_cons_known] at hc
    obtain ⟨a, b⟩ := mat_zero hc h.2
    simp [matF, statics, a, b, h.1]
  | .sym _ :: o, v :: lo, hc, _ => by rw [nonInts_cons_sym] at hc; omega
  | .unknown :: o, v :: lo, hc, _ => by rw [nonInts_cons_unknown] at hc; omega

/-- exactly one non-static dim with run-time value `v`: the element count factors as statics × v,
and putting `v` in place of the `-1` gives back the concrete shape -/
theorem mat_one {σ : String → Nat} : ∀ {o : Shape} {lo : List Int}, nonInts o = 1 → Admits σ o lo →
    (∀ d ∈ lo, 0 ≤ d) →
    ∃ v, prodInt lo = prodInt (statics o) * v ∧
      (o.map matF).map (fun d => if d = -1 then v else d) = lo ∧ (-1 : Int) ∈ o.map matF
  | [], [], hc, _, _ => by simp [nonInts] at hc
  | [], _ :: _, _, h, _ => by simp only [Admits] at h
  | _ :: _, [], _, h, _ => by simp only [Admits] at h
  | .known n :: o, w :: lo, hc, h, hn => by
    simp only [Admits, Dim.Admits] at h
    rw [nonInts_cons_known] at hc
    obtain ⟨v, h1, h2, h3⟩ := mat_one hc h.2 (fun d hd => hn d (List.mem_cons_of_mem _ hd))
    have hw : 0 ≤ w := hn w (List.mem_cons_self ..)
    have hn1 : n ≠ -1 := by omega
    refine ⟨v, ?_, ?_, ?_⟩
    · simp only [statics, prodInt_cons, h1, h.1, Int.mul_assoc]
    · have hw1 : w ≠ -1 := by omega
      have h2' := h2
      simp only [List.map_map] at h2'
      simp [matF, hn1, hw1, h2', h.1.symm]
    · simp [matF, h3]
  | .sym a :: o, w :: lo, hc, h, hn => by
    simp only [Admits] at h
    rw [nonInts_cons_sym] at hc
    obtain ⟨e1, e2⟩ := mat_zero (σ := σ) (o := o) (lo := lo) (by omega) h.2
    refine ⟨w, ?_, ?_, ?_⟩
    · simp only [statics, prodInt_cons, e2, Int.mul_comm]
    · have hno : ∀ d ∈ lo, d ≠ -1 := fun d hd hc' => by
        have := hn d (List.mem_cons_of_mem _ hd); omega
      simp only [List.map_cons, matF, if_true, e1, List.cons.injEq, true_and]
      have : lo.map (fun d => if d = -1 then w else d) = lo.map id := by
        apply List.map_congr_left
        intro d hd
        simp only [hno d hd, if_false, id]
      simpa only [List.map_id] using this
    · simp [matF]
  | .unknown :: o, w :: lo, hc, h, hn => by
    simp only [Admits] at h
    rw [nonInts_cons_unknown] at hc
    obtain ⟨e1, e2⟩ := mat_zero (σ := σ) (o := o) (lo := lo) (by omega) h.2
    refine ⟨w, ?_, ?_, ?_⟩
    · simp only [statics, prodInt_cons, e2, Int.mul_comm]
    · have hno : ∀ d ∈ lo, d ≠ -1 := fun d hd hc' => by
        have := hn d (List.mem_cons_of_mem _ hd); omega
      simp only [List.map_cons, matF, if_true, e1, List.cons.injEq, true_and]
      have : lo.map (fun d => if d = -1 then w else d) = lo.map id := by
        apply List.map_congr_left
        intro d hd
        simp only [hno d hd, if_false, id]
      simpa only [List.map_id] using this
    · simp [matF]

theorem statics_mem {o : Shape} {k : Int} (h : k ∈ statics o) : Dim.known k ∈ o := by
  induction o with
  | nil => simp only [statics, List.not_mem_nil] at h
  | cons d o ih =>
    cases d with
    | known n =>
      simp only [statics, List.mem_cons] at h
      rcases h with rfl | h
      · exact List.mem_cons_self ..
      · exact List.mem_cons_of_mem _ (ih h)
    | sym a => exact List.mem_cons_of_mem _ (ih (by simpa only [statics] using h))
    | unknown => exact List.mem_cons_of_mem _ (ih (by simpa only [statics] using h))

theorem mat_zero_mem {o : Shape} (h : (0 : Int) ∈ o.map matF) : Dim.known 0 ∈ o := by
  simp only [List.mem_map] at h
  obtain ⟨d, hd, he⟩ := h
  cases d with
  | known n => simp only [matF] at he; subst he; exact hd
  | sym a => simp only [matF] at he; omega
  | unknown => simp only [matF] at he; omega

/-- with `allowzero=1` a literal non-negative target of the right element count is the result -/
theorem reshapeTarget_literal (inp lo : List Int) (hn : ∀ d ∈ lo, 0 ≤ d) (hp : prodInt inp = prodInt lo) :
    reshapeTarget inp lo true = some lo := by
  have hm : ¬ ((-1 : Int) ∈ lo) := fun hm => by have := hn _ hm; omega
  unfold reshapeTarget
  simp [filter_neg1_nil hn, any_lt_neg1_false hn, contains_neg1_false hn, hm, hp]


end OV.C09
