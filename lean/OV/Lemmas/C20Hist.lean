import OV.Model.C20Hist
import OV.Lemmas.C20Save
import OV.Lemmas.C20Round
/-!
# C20 — helper lemmas for histories (several saves of the same in-memory model)

The one fact a history needs beyond `model_unchanged`: the initializers' tensors are still *readable, with the same
bytes*, on the file system a call leaves behind — whatever the call did and wherever it faulted.
-/
namespace OV.C20

/-- No tensor object of the heap is an `ExternalTensor` stored in file `p`. -/
def NoExtIn (heap : List TRef) (p : String) : Prop :=
  ∀ (id : Nat) (f : String) (o l : Nat) (v : Bool), heap[id]? = some (.ext f o l v) → f ≠ p

/-- Files other than the two destination files hold what they held (lemma form of `OV.Props.C20.fs_frame`). -/
theorem runSave_frame (cfg : Cfg) (m : Model) (dir name : String) (verbose : Bool) (fs : FS) (k : Option Nat)
    (p : String) (h1 : p ≠ joinPath dir (name ++ ".data")) (h2 : p ≠ joinPath dir name) :
    FS.get? (runSave cfg m dir name verbose fs k).st.fs p = FS.get? fs p := by
  have hinv := inv_save cfg m.sig m.tnames dir name (verbose && cfg.tqdm)
    (stable_frame fs (joinPath dir (name ++ ".data")) (joinPath dir name)) (init m fs k)
    (fun _ _ _ => rfl)
  unfold runSave
  cases hs : save cfg m.sig m.tnames dir name (verbose && cfg.tqdm) (init m fs k) with
  | mk r s' => rw [hs] at hinv; exact hinv p h1 h2

/-- A refused call (second guard) leaves the file system as it was. -/
theorem runSave_refused_fs (cfg : Cfg) (hr : cfg.refuse = true) (m : Model) (dir name : String) (verbose : Bool) (fs : FS)
    (k : Option Nat) (h : (destHits (joinPath dir (name ++ ".data")) m.heap m.cv).isEmpty = false) :
    (runSave cfg m dir name verbose fs k).st.fs = fs := by
  have hd' : (destHits (joinPath dir (name ++ ".data")) (init m fs k).heap (init m fs k).cv).isEmpty = false := by
    simpa [init] using h
  obtain ⟨_, h2⟩ := save_guard2 cfg m.sig m.tnames dir name (verbose && cfg.tqdm) (init m fs k) hr hd'
  unfold runSave
  cases hs : save cfg m.sig m.tnames dir name (verbose && cfg.tqdm) (init m fs k) with
  | mk r s' => rw [hs] at h2; simp only [] at h2 ⊢; rw [h2]; rfl

/-- A usable tensor (not stored in `dest`) that is not stored in `mp` either reads the same bytes on any file system that
agrees with `fs` outside `dest` and `mp`. -/
theorem readable_of_holds (dest mp : String) (fs fs' : FS) (t : TRef) (b : Bytes)
    (hfs : ∀ p, p ≠ dest → p ≠ mp → FS.get? fs' p = FS.get? fs p)
    (hmp : ∀ f o l v, t = .ext f o l v → f ≠ mp) (h : Holds dest fs t b) : Readable fs' t b := by
  cases t with
  | mem b' np => exact h
  | ext f off len v =>
    obtain ⟨h1, h2, h3⟩ := h
    refine ⟨h1, ?_⟩
    have := hfs f h2 (hmp f off len v rfl)
    simp only [FS.read, this] at h3 ⊢
    exact h3

/-- A refused call (the model-file half of the second guard, 3d20cf2) leaves the file system as it was. -/
theorem runSave_refused_fs_model (cfg : Cfg) (hr : cfg.refuseModel = true) (m : Model) (dir name : String) (verbose : Bool)
    (fs : FS) (k : Option Nat) (h : (destHits (joinPath dir name) m.heap m.cv).isEmpty = false) :
    (runSave cfg m dir name verbose fs k).st.fs = fs := by
  have hd' : (destHits (joinPath dir name) (init m fs k).heap (init m fs k).cv).isEmpty = false := by
    simpa [init] using h
  obtain ⟨_, h2⟩ := save_guard3 cfg m.sig m.tnames dir name (verbose && cfg.tqdm) (init m fs k) hr hd'
  unfold runSave
  cases hs : save cfg m.sig m.tnames dir name (verbose && cfg.tqdm) (init m fs k) with
  | mk r s' => rw [hs] at h2; simp only [] at h2 ⊢; rw [h2]; rfl

theorem All2.and {R S : α → β → Prop} : ∀ {l1 l2}, All2 R l1 l2 → All2 S l1 l2 → All2 (fun a b => R a b ∧ S a b) l1 l2
  | _, _, .nil, .nil => .nil
  | _, _, .cons hr ht, .cons hs ht' => .cons ⟨hr, hs⟩ (ht.and ht')

/-- **The initializers' data survives a call**: with the second guard in full (the code as it is since 3d20cf2:
`cfg.refuse` and `cfg.refuseModel`) — or, for the guard before 3d20cf2, when no tensor object is stored in the model file
`dir/name` itself — after `save_model_with_external_data(model, dir/name)`, successful, refused, or failed at any
file-system call `k`, every initializer's tensor still denotes the bytes it denoted, on the file system the call left. -/
theorem initR_after_save (cfg : Cfg) (hr : cfg.refuse = true) (m : Model) (dir name : String) (verbose : Bool) (fs : FS)
    (k : Option Nat) (bs : List Bytes) (hmp : cfg.refuseModel = true ∨ NoExtIn m.heap (joinPath dir name))
    (hinit : All2 (InitR fs m.heap) m.cv bs) :
    All2 (InitR (runSave cfg m dir name verbose fs k).st.fs m.heap) m.cv bs := by
  by_cases hd : (destHits (joinPath dir (name ++ ".data")) m.heap m.cv).isEmpty = true
  · have hok := initOK_of_readable (joinPath dir (name ++ ".data")) fs m.heap hinit (List.isEmpty_iff.mp hd)
    rcases hmp with hrm | hmp
    · by_cases hm : (destHits (joinPath dir name) m.heap m.cv).isEmpty = true
      · have hok2 := initOK_of_readable (joinPath dir name) fs m.heap hinit (List.isEmpty_iff.mp hm)
        refine (hok.and hok2).imp ?_
        rintro c b ⟨⟨id, t, rfl, h1, h2⟩, ⟨id', t', hc, h1', h2'⟩⟩
        cases hc
        rw [h1] at h1'
        cases h1'
        refine ⟨id, t, rfl, h1, ?_⟩
        apply readable_of_holds (joinPath dir (name ++ ".data")) (joinPath dir name) fs _ t b _ _ h2
        · intro p hp1 hp2
          exact runSave_frame cfg m dir name verbose fs k p hp1 hp2
        · intro f o l v ht
          subst ht
          exact h2'.2.1
      · have hm' : (destHits (joinPath dir name) m.heap m.cv).isEmpty = false := by
          cases h : (destHits (joinPath dir name) m.heap m.cv).isEmpty with
          | true => exact absurd h hm
          | false => rfl
        rw [runSave_refused_fs_model cfg hrm m dir name verbose fs k hm']
        exact hinit
    · refine hok.imp ?_
      rintro c b ⟨id, t, rfl, h1, h2⟩
      refine ⟨id, t, rfl, h1, ?_⟩
      apply readable_of_holds (joinPath dir (name ++ ".data")) (joinPath dir name) fs _ t b _ _ h2
      · intro p hp1 hp2
        exact runSave_frame cfg m dir name verbose fs k p hp1 hp2
      · intro f o l v ht
        subst ht
        exact hmp id f o l v h1
  · have hd' : (destHits (joinPath dir (name ++ ".data")) m.heap m.cv).isEmpty = false := by
      cases h : (destHits (joinPath dir (name ++ ".data")) m.heap m.cv).isEmpty with
      | true => exact absurd h hd
      | false => rfl
    rw [runSave_refused_fs cfg hr m dir name verbose fs k hd']
    exact hinit

end OV.C20
