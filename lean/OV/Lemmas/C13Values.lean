import OV.Model.C13Values
import Std.Data.String.ToInt
/-! Helper lemmas for the value-rendering round trip (`OV.Props.C13.inline_const_repr_int64`). -/
namespace OV.C13V

/-- characters of a printed integer -/
def isIntChar (c : Char) : Bool := c.isDigit || c == '-'

theorem nat_repr_chars (n : Nat) : ∀ c ∈ (Nat.repr n).toList, isIntChar c = true := by
  intro c hc
  rw [Nat.toList_repr] at hc
  have := Nat.isDigit_of_mem_toDigits (by decide) (by decide) hc
  simp [isIntChar, this]

theorem int_repr_chars (i : Int) : ∀ c ∈ (Int.repr i).toList, isIntChar c = true := by
  intro c hc
  rw [Int.repr_eq_if] at hc
  split at hc
  · exact nat_repr_chars _ c hc
  · rw [String.toList_append] at hc
    rcases List.mem_append.mp hc with h | h
    · have : c = '-' := by simp at h; exact h
      subst this; decide
    · exact nat_repr_chars _ c h

theorem int_repr_ne_nil (i : Int) : (Int.repr i).toList ≠ [] := by
  rw [Int.repr_eq_if]
  split
  · intro h
    have := @Nat.repr_ne_empty i.toNat
    apply this
    rw [← String.toList_inj]; simp at h
  · rw [String.toList_append]; simp

theorem comma_not_int : isIntChar ',' = false := by decide
theorem bracket_not_int : isIntChar '[' = false := by decide

theorem splitSep_cons_ne (c : Char) (rest : List Char) (hc : c ≠ ',') :
    splitSep (c :: rest) = match splitSep rest with
      | [] => [[c]]
      | w :: ws => (c :: w) :: ws := by
  rw [splitSep]
  · rfl
  · intro r h
    exact absurd h hc

/-- a word without `,` followed by the separator is the first item -/
theorem splitSep_word_sep : ∀ (w rest : List Char), (∀ c ∈ w, c ≠ ',') →
    splitSep (w ++ ',' :: ' ' :: rest) = w :: splitSep rest
  | [], rest, _ => by simp [splitSep]
  | c :: w, rest, h => by
    have hc : c ≠ ',' := h c (by simp)
    have ih := splitSep_word_sep w rest (fun d hd => h d (by simp [hd]))
    rw [List.cons_append, splitSep_cons_ne c _ hc, ih]

/-- a word without `,` is a single item -/
theorem splitSep_word : ∀ (w : List Char), (∀ c ∈ w, c ≠ ',') → splitSep w = [w]
  | [], _ => by simp [splitSep]
  | c :: w, h => by
    have hc : c ≠ ',' := h c (by simp)
    have ih := splitSep_word w (fun d hd => h d (by simp [hd]))
    rw [splitSep_cons_ne c _ hc, ih]

theorem int_repr_no_comma (i : Int) : ∀ c ∈ (Int.repr i).toList, c ≠ ',' := by
  intro c hc h
  have := int_repr_chars i c hc
  rw [h, comma_not_int] at this
  cases this

theorem splitSep_renderItems : ∀ (l : List Int), l ≠ [] →
    splitSep (renderItems l) = l.map (fun i => (Int.repr i).toList)
  | [], h => absurd rfl h
  | [i], _ => by
    simp only [renderItems, List.map_cons, List.map_nil]
    exact splitSep_word _ (int_repr_no_comma i)
  | i :: j :: rest, _ => by
    simp only [renderItems, List.map_cons]
    rw [splitSep_word_sep _ _ (int_repr_no_comma i), splitSep_renderItems (j :: rest) (by simp)]
    simp only [List.map_cons]

theorem parseIntL_repr (i : Int) : parseIntL (Int.repr i).toList = some i := by
  unfold parseIntL
  rw [String.ofList_toList]
  exact Int.toInt?_repr i

theorem parseAll_reprs : ∀ (l : List Int), parseAll (l.map (fun i => (Int.repr i).toList)) = some l
  | [] => rfl
  | i :: rest => by
    simp only [List.map_cons, parseAll, parseIntL_repr, parseAll_reprs rest]

theorem renderItems_ne_nil : ∀ (l : List Int), l ≠ [] → renderItems l ≠ []
  | [], h => absurd rfl h
  | [i], _ => by simpa [renderItems] using int_repr_ne_nil i
  | i :: j :: rest, _ => by simp [renderItems]

theorem parseL_scalar (i : Int) : parseL (Int.repr i).toList = some (.scalar i) := by
  have hne := int_repr_ne_nil i
  have hch := int_repr_chars i
  cases hl : (Int.repr i).toList with
  | nil => exact absurd hl hne
  | cons c cs =>
    have hc : c ≠ '[' := by
      intro h
      have := hch c (by rw [hl]; simp)
      rw [h, bracket_not_int] at this
      cases this
    have hp := parseIntL_repr i
    rw [hl] at hp
    unfold parseL
    split
    · rename_i rest heq
      simp only [List.cons.injEq] at heq
      exact absurd heq.1 hc
    · rw [hp]; rfl

theorem parseL_list (l : List Int) : parseL ('[' :: (renderItems l ++ [']'])) = some (.list l) := by
  unfold parseL
  simp only [List.getLast?_append, List.getLast?_singleton, Option.some_or, List.dropLast_concat, if_true]
  by_cases hl : l = []
  · subst hl; simp [renderItems]
  · simp only [renderItems_ne_nil l hl, if_false, splitSep_renderItems l hl, parseAll_reprs, Option.map_some]

end OV.C13V
