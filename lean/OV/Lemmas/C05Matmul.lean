import OV.Model.C05More
/-!
# C05 — `check_if_not_need_reshape` (`matmulOutShape`) is sound w.r.t. the NumPy/ONNX MatMul shape (`specMatMulShape`)

Main results
* `matmul_out_shape_sound` : for all ranks, `matmulOutShape a b = some out` implies `specMatMulShape a b = some out`
  under (1) `hinner` — inner dims agree (the Python loop only tests `a[-1] ∈ {1, b[-2]}`), and (2) no aligned pair of
  batch dims is `(da, db) = (1, 0)` (the loop emits `max(1, 0) = 1`, NumPy broadcasts `1` with `0` to `0`).
* `matmul_out_shape_sound_of_nonzero` : same with the simpler side condition "no `0` among `b`'s batch dims".
* `matmul_out_shape_sound_12` / `_21` : 1-D promotion cases need no hypothesis at all.
* `matmul_out_shape_inner_needed`, `matmul_out_shape_zero_batch_needed` : both hypotheses are necessary (witnesses).
Core Lean only.
-/
set_option linter.unusedSimpArgs false

namespace OV.Lemmas.C05Matmul
open OV.C05.More OV.C05.Shape

/-- The per-dimension rule of `specBroadcast`. -/
def bc1 : Nat × Nat → Option Nat :=
  fun (x, y) => if x == y then some x else if x == 1 then some y else if y == 1 then some x else none

theorem specBroadcast_eq (a b : List Nat) :
    specBroadcast a b =
      (List.zip (List.replicate (max a.length b.length - a.length) 1 ++ a)
                (List.replicate (max a.length b.length - b.length) 1 ++ b)).mapM bc1 := rfl

theorem mapM_some_append {α β : Type} (f : α → Option β) {l₁ l₂ : List α} {r₁ r₂ : List β}
    (h₁ : l₁.mapM f = some r₁) (h₂ : l₂.mapM f = some r₂) : (l₁ ++ l₂).mapM f = some (r₁ ++ r₂) := by
  simp [List.mapM_append, h₁, h₂]

theorem mapM_bc1_pad_right (P : List Nat) : (List.zip P (List.replicate P.length 1)).mapM bc1 = some P := by
  induction P with
  | nil => rfl
  | cons x P ih =>
    have hx : bc1 (x, 1) = some x := by
      simp only [bc1]; by_cases h : x = 1 <;> simp [h]
    simp [List.replicate_succ, List.mapM_cons, hx, ih]

theorem mapM_bc1_pad_left (P : List Nat) : (List.zip (List.replicate P.length 1) P).mapM bc1 = some P := by
  induction P with
  | nil => rfl
  | cons x P ih =>
    have hx : bc1 (1, x) = some x := by
      simp only [bc1]; by_cases h : 1 = x <;> simp [h]
    simp [List.replicate_succ, List.mapM_cons, hx, ih]

theorem specBroadcast_longer_left (P A2 B W : List Nat) (hlen : A2.length = B.length)
    (h : (List.zip A2 B).mapM bc1 = some W) : specBroadcast (P ++ A2) B = some (P ++ W) := by
  rw [specBroadcast_eq]
  have e1 : max (P ++ A2).length B.length - (P ++ A2).length = 0 := by
    simp only [List.length_append]; omega
  have e2 : max (P ++ A2).length B.length - B.length = P.length := by
    simp only [List.length_append]; omega
  rw [e1, e2]
  simp only [List.replicate_zero, List.nil_append]
  rw [List.zip_append (by simp)]
  exact mapM_some_append _ (mapM_bc1_pad_right P) h

theorem specBroadcast_longer_right (P A B2 W : List Nat) (hlen : A.length = B2.length)
    (h : (List.zip A B2).mapM bc1 = some W) : specBroadcast A (P ++ B2) = some (P ++ W) := by
  rw [specBroadcast_eq]
  have e1 : max A.length (P ++ B2).length - (P ++ B2).length = 0 := by
    simp only [List.length_append]; omega
  have e2 : max A.length (P ++ B2).length - A.length = P.length := by
    simp only [List.length_append]; omega
  rw [e1, e2]
  simp only [List.replicate_zero, List.nil_append]
  rw [List.zip_append (by simp)]
  exact mapM_some_append _ (mapM_bc1_pad_left P) h

/-! ### `bcLoop` -/

theorem bcLoop_nil_right (X : List Nat) (i : Nat) (acc : List Nat) : bcLoop X [] i acc = some acc := by
  cases X <;> rfl

theorem bcLoop_nil_left (Y : List Nat) (i : Nat) (acc : List Nat) : bcLoop [] Y i acc = some acc := by
  cases Y <;> rfl

theorem bcLoop_append_left (X S : List Nat) : ∀ (Y : List Nat) (i : Nat) (acc : List Nat),
    X.length = Y.length → bcLoop (X ++ S) Y i acc = bcLoop X Y i acc := by
  induction X with
  | nil => intro Y i acc h; cases Y with
    | nil => simp [bcLoop_nil_right]
    | cons _ _ => simp at h
  | cons x X ih => intro Y i acc h; cases Y with
    | nil => simp at h
    | cons y Y =>
      simp only [List.cons_append, bcLoop]
      rw [ih _ _ _ (by simpa using h)]

theorem bcLoop_append_right (Y S : List Nat) : ∀ (X : List Nat) (i : Nat) (acc : List Nat),
    X.length = Y.length → bcLoop X (Y ++ S) i acc = bcLoop X Y i acc := by
  induction Y with
  | nil => intro X i acc h; cases X with
    | nil => simp [bcLoop_nil_left]
    | cons _ _ => simp at h
  | cons y Y ih => intro X i acc h; cases X with
    | nil => simp at h
    | cons x X =>
      simp only [List.cons_append, bcLoop]
      rw [ih _ _ _ (by simpa using h)]

theorem bcLoop_spec (X : List Nat) : ∀ (Y : List Nat) (i : Nat) (acc r : List Nat),
    X.length = Y.length → 0 < i → bcLoop X Y i acc = some r →
    (∀ p ∈ List.zip X Y, ¬ (p.1 = 1 ∧ p.2 = 0)) →
    ∃ W, (List.zip X.reverse Y.reverse).mapM bc1 = some W ∧ r = W ++ acc := by
  induction X with
  | nil => intro Y i acc r hl hi h hz
           cases Y with
           | nil => simp [bcLoop] at h; exact ⟨[], rfl, by simp [h]⟩
           | cons _ _ => simp at hl
  | cons x X ih =>
    intro Y i acc r hl hi h hz
    cases Y with
    | nil => simp at hl
    | cons y Y =>
      simp only [bcLoop] at h
      split at h
      · rename_i hc
        obtain ⟨W, hW, hr⟩ := ih Y (i+1) _ r (by simpa using hl) (Nat.succ_pos _) h
          (fun p hp => hz p (by simp only [List.zip_cons_cons]; exact List.mem_cons_of_mem _ hp))
        have hy : ¬ (x = 1 ∧ y = 0) := hz (x, y) (by simp)
        have hb : bc1 (x, y) = some (max x y) := by
          simp only [bc1]
          simp only [Bool.or_eq_true, beq_iff_eq] at hc
          rcases hc with hc | hc
          · subst hc
            have hy0 : y ≠ 0 := fun h0 => hy ⟨rfl, h0⟩
            by_cases h1 : 1 = y
            · simp [h1]
            · have : max 1 y = y := by omega
              simp [h1, this]
          · subst hc; simp
        refine ⟨W ++ [max x y], ?_, by simp [hr]⟩
        simp only [List.reverse_cons]
        rw [List.zip_append (by simpa using hl)]
        exact mapM_some_append _ hW (by simp [List.mapM_cons, hb])
      · simp at h

theorem batch_sound (A B acc r : List Nat) (h : bcLoop A.reverse B.reverse 1 acc = some r)
    (hz : ∀ p ∈ List.zip A.reverse B.reverse, ¬ (p.1 = 1 ∧ p.2 = 0)) :
    ∃ W, r = W ++ acc ∧
      specBroadcast A B =
        some ((if A.length > B.length then A.take (A.length - B.length) else B.take (B.length - A.length)) ++ W) := by
  by_cases hlt : A.length > B.length
  · simp only [hlt, if_true]
    have hA : A = A.take (A.length - B.length) ++ A.drop (A.length - B.length) := (List.take_append_drop _ _).symm
    have hlen : (A.drop (A.length - B.length)).length = B.length := by simp; omega
    rw [hA, List.reverse_append, bcLoop_append_left _ _ _ _ _ (by simpa using hlen)] at h
    have hzip : List.zip A.reverse B.reverse = List.zip (A.drop (A.length - B.length)).reverse B.reverse := by
      conv => lhs; rw [hA, List.reverse_append]
      have := List.zip_append (l₁ := (A.drop (A.length - B.length)).reverse) (l₂ := B.reverse)
        (r₁ := (A.take (A.length - B.length)).reverse) (r₂ := []) (by simpa using hlen)
      simpa using this
    obtain ⟨W, hW, hr⟩ := bcLoop_spec _ _ _ _ _ (by simpa using hlen) (by decide) h (hzip ▸ hz)
    refine ⟨W, hr, ?_⟩
    simp only [List.reverse_reverse] at hW
    have := specBroadcast_longer_left (A.take (A.length - B.length)) _ _ _ hlen hW
    rwa [List.take_append_drop] at this
  · simp only [hlt, if_false]
    have hB : B = B.take (B.length - A.length) ++ B.drop (B.length - A.length) := (List.take_append_drop _ _).symm
    have hlen : A.length = (B.drop (B.length - A.length)).length := by simp; omega
    rw [hB, List.reverse_append, bcLoop_append_right _ _ _ _ _ (by simpa using hlen)] at h
    have hzip : List.zip A.reverse B.reverse = List.zip A.reverse (B.drop (B.length - A.length)).reverse := by
      conv => lhs; rw [hB, List.reverse_append]
      have := List.zip_append (l₁ := A.reverse) (l₂ := (B.drop (B.length - A.length)).reverse)
        (r₁ := []) (r₂ := (B.take (B.length - A.length)).reverse) (by simpa using hlen)
      simpa using this
    obtain ⟨W, hW, hr⟩ := bcLoop_spec _ _ _ _ _ (by simpa using hlen) (by decide) h (hzip ▸ hz)
    refine ⟨W, hr, ?_⟩
    simp only [List.reverse_reverse] at hW
    have := specBroadcast_longer_right (B.take (B.length - A.length)) _ _ _ hlen hW
    rwa [List.take_append_drop] at this


theorem getLastD_app2 (A : List Nat) (m k d : Nat) : (A ++ [m, k]).getLastD d = k := by
  have : A ++ [m, k] = (A ++ [m]) ++ [k] := by simp
  rw [this, List.getLastD_concat]

theorem getD_app2 (A : List Nat) (m k d : Nat) : (A ++ [m, k]).getD A.length d = m := by
  simp [List.getD_eq_getElem?_getD]

theorem matmulOutShape_22 (A B : List Nat) (M K K' N : Nat) :
    matmulOutShape (A ++ [M, K]) (B ++ [K', N]) =
      (if K == 1 || K == K' then
        match bcLoop A.reverse B.reverse 1 [M, N] with
        | none => none
        | some out =>
          some ((if A.length > B.length then A.take (A.length - B.length) else B.take (B.length - A.length)) ++ out)
       else none) := by
  unfold matmulOutShape
  have r1 : ¬ (A.length + 2 < 2) := by omega
  have r2 : ¬ (B.length + 2 < 2) := by omega
  simp only [List.length_append, List.length_cons, List.length_nil, Nat.zero_add, Nat.reduceAdd, r1, r2,
    decide_false, Bool.false_and, Bool.false_eq_true, if_false, Bool.not_true, Nat.add_sub_cancel,
    getLastD_app2, getD_app2]
  have t1 : List.take A.length (A ++ [M, K]) = A := List.take_left' rfl
  have t2 : List.take (B.length + 2 - 1) (B ++ [K', N]) = B ++ [K'] := by
    have : B ++ [K', N] = (B ++ [K']) ++ [N] := by simp
    rw [this]; exact List.take_left' (by simp)
  have z1 : (A.length + 2 == 0 || B.length + 2 == 0) = false := by simp
  rw [t1, t2, z1]
  simp only [Bool.false_eq_true, if_false, List.reverse_append, List.reverse_cons, List.reverse_nil,
    List.nil_append, List.cons_append, bcLoop, Nat.lt_irrefl, gt_iff_lt, Nat.zero_add]
  by_cases hc : (K == 1 || K == K') = true
  · simp only [hc, if_true]
    by_cases hlt : B.length < A.length
    · have : B.length + 2 < A.length + 2 := by omega
      simp only [this, hlt, if_true, List.length_append, List.length_cons, List.length_nil]
      rw [show A.length + (0 + 1 + 1) - (B.length + (0 + 1 + 1)) = A.length - B.length by omega,
        List.take_append_of_le_length (by omega)]
      cases bcLoop A.reverse B.reverse 1 [M, N] <;> rfl
    · have : ¬ (B.length + 2 < A.length + 2) := by omega
      simp only [this, hlt, if_false, List.length_append, List.length_cons, List.length_nil]
      rw [show B.length + (0 + 1 + 1) - (A.length + (0 + 1 + 1)) = B.length - A.length by omega,
        List.take_append_of_le_length (by omega)]
      cases bcLoop A.reverse B.reverse 1 [M, N] <;> rfl
  · simp only [hc]; simp


theorem specBroadcast_nil_left (B : List Nat) : specBroadcast [] B = some B := by
  have := specBroadcast_longer_right B [] [] [] rfl rfl
  simpa using this

theorem specBroadcast_nil_right (A : List Nat) : specBroadcast A [] = some A := by
  have := specBroadcast_longer_left A [] [] [] rfl rfl
  simpa using this

theorem specMatMulShape_22 (A B : List Nat) (M K K' N : Nat) :
    specMatMulShape (A ++ [M, K]) (B ++ [K', N]) =
      (if K != K' then none else
        match specBroadcast A B with
        | none => none
        | some batch => some (batch ++ [M, N])) := by
  unfold specMatMulShape
  have r1 : ¬ (A.length + 2 = 1) := by omega
  have r2 : ¬ (B.length + 2 = 1) := by omega
  have z1 : (A.length + 2 == 0 || B.length + 2 == 0) = false := by simp
  have t1 : List.take A.length (A ++ [M, K]) = A := List.take_left' rfl
  have t2 : List.take B.length (B ++ [K', N]) = B := List.take_left' rfl
  simp only [List.length_append, List.length_cons, List.length_nil, Nat.zero_add, Nat.reduceAdd, r1, r2, z1,
    beq_iff_eq, Bool.false_eq_true, if_false, Nat.add_sub_cancel, getLastD_app2, getD_app2, t1, t2,
    List.cons_append, List.nil_append]
  by_cases hk : (K != K') = true
  · simp only [hk, if_true]
  · simp only [hk]; cases specBroadcast A B <;> rfl

theorem matmulOutShape_12 (k : Nat) (B : List Nat) (K' N : Nat) :
    matmulOutShape [k] (B ++ [K', N]) = (if k == K' then some (B ++ [N]) else none) := by
  unfold matmulOutShape
  have r2 : ¬ (B.length + 2 < 2) := by omega
  have l12 : (1 : Nat) < 2 := by decide
  simp only [List.length_append, List.length_cons, List.length_nil, Nat.zero_add, Nat.reduceAdd, r2,
    decide_false, Bool.false_and, Bool.and_false, Bool.false_eq_true, if_false, Bool.not_true, Nat.add_sub_cancel,
    getLastD_app2, getD_app2, l12, if_true, decide_true, Bool.true_and, List.getLastD_cons, List.getLastD_nil,
    List.length_cons, List.length_nil, Nat.zero_add, Nat.reduceAdd, Nat.sub_self, List.take_zero, List.nil_append,
    List.getD_cons_zero, beq_self_eq_true, Bool.false_eq_true, if_false]
  have t1 : List.take B.length (B ++ [K', N]) = B := List.take_left' rfl
  have t2 : List.take (B.length + 2 - 1) (B ++ [K', N]) = B ++ [K'] := by
    have : B ++ [K', N] = (B ++ [K']) ++ [N] := by simp
    rw [this]; exact List.take_left' (by simp)
  have z1 : ((1 : Nat) == 0 || B.length + 2 == 0) = false := by simp
  rw [t1, t2, z1]
  by_cases hk : k = K'
  · subst hk
    simp only [Bool.false_eq_true, if_false, beq_self_eq_true, Bool.not_true, List.reverse_append,
      List.reverse_cons, List.reverse_nil, List.nil_append, List.cons_append, bcLoop, Bool.or_true, if_true,
      gt_iff_lt, Nat.lt_irrefl, List.length_cons, List.length_nil, Nat.zero_add,
      Nat.reduceAdd, Nat.add_sub_cancel]
    rw [List.eraseIdx_append_of_length_le (Nat.le_refl _)]
    simp
  · have : (k == K') = false := by simpa using hk
    simp [this]


theorem matmulOutShape_21 (A : List Nat) (M K k : Nat) :
    matmulOutShape (A ++ [M, K]) [k] = (if k == K then some (A ++ [M]) else none) := by
  unfold matmulOutShape
  have r1 : ¬ (A.length + 2 < 2) := by omega
  have l12 : (1 : Nat) < 2 := by decide
  simp only [List.length_append, List.length_cons, List.length_nil, Nat.zero_add, Nat.reduceAdd, r1,
    decide_false, Bool.false_and, Bool.and_false, Bool.false_eq_true, if_false, Bool.not_true, Nat.add_sub_cancel,
    getLastD_app2, getD_app2, l12, if_true, decide_true, Bool.true_and, List.getLastD_cons, List.getLastD_nil,
    List.length_cons, List.length_nil, Nat.zero_add, Nat.reduceAdd, Nat.sub_self, List.take_zero, List.nil_append,
    List.getD_cons_zero, beq_self_eq_true, Bool.false_eq_true, if_false, List.cons_append]
  have t1 : List.take A.length (A ++ [M, K]) = A := List.take_left' rfl
  have z1 : (A.length + 2 == 0 || (1 : Nat) == 0) = false := by simp
  rw [t1, z1]
  by_cases hk : k = K
  · subst hk
    simp only [Bool.false_eq_true, if_false, beq_self_eq_true, Bool.not_true, List.reverse_append,
      List.reverse_cons, List.reverse_nil, List.nil_append, List.cons_append, bcLoop, Bool.or_true, if_true,
      gt_iff_lt, Nat.lt_irrefl, List.length_cons, List.length_nil, Nat.zero_add, List.take_succ_cons, List.take_zero,
      Nat.reduceSub, bcLoop_nil_right]
    by_cases hA : 2 < A.length + 2
    · simp only [hA, if_true, List.length_append, List.length_cons, List.length_nil, Nat.zero_add, Nat.reduceAdd,
        Nat.add_sub_cancel]
      rw [List.take_left' rfl]
      have : A ++ [M, 1] = (A ++ [M]) ++ [1] := by simp
      rw [this]
      congr 1
      exact List.take_left' (by simp)
    · have hA0 : A = [] := by
        cases A with
        | nil => rfl
        | cons _ _ => simp at hA
      subst hA0
      simp
  · have : (k == K) = false := by simpa using hk
    simp [this]

theorem specMatMulShape_12 (k : Nat) (B : List Nat) (K' N : Nat) :
    specMatMulShape [k] (B ++ [K', N]) = (if k != K' then none else some (B ++ [N])) := by
  unfold specMatMulShape
  have r2 : ¬ (B.length + 2 = 1) := by omega
  have z1 : ((1 : Nat) == 0 || B.length + 2 == 0) = false := by simp
  have t2 : List.take B.length (B ++ [K', N]) = B := List.take_left' rfl
  simp only [List.length_append, List.length_cons, List.length_nil, Nat.zero_add, Nat.reduceAdd, r2, z1,
    beq_iff_eq, Bool.false_eq_true, if_false, if_true, Nat.add_sub_cancel, getLastD_app2, getD_app2, t2,
    List.cons_append, List.nil_append, Nat.sub_self, List.take_zero, specBroadcast_nil_left,
    List.getLastD_cons, List.getLastD_nil, List.append_nil]

theorem specMatMulShape_21 (A : List Nat) (M K k : Nat) :
    specMatMulShape (A ++ [M, K]) [k] = (if K != k then none else some (A ++ [M])) := by
  unfold specMatMulShape
  have r1 : ¬ (A.length + 2 = 1) := by omega
  have z1 : (A.length + 2 == 0 || (1 : Nat) == 0) = false := by simp
  have t1 : List.take A.length (A ++ [M, K]) = A := List.take_left' rfl
  simp only [List.length_append, List.length_cons, List.length_nil, Nat.zero_add, Nat.reduceAdd, r1, z1,
    beq_iff_eq, Bool.false_eq_true, if_false, if_true, Nat.add_sub_cancel, getLastD_app2, getD_app2, t1,
    List.cons_append, List.nil_append, Nat.sub_self, List.take_zero, specBroadcast_nil_right,
    List.getLastD_cons, List.getLastD_nil, List.append_nil, List.getD_cons_zero]


/-! ### Soundness -/

/-- (i) both ranks ≥ 2, arbitrary batch dims. -/
theorem matmul_out_shape_sound_22 (A B : List Nat) (M K K' N : Nat) (out : List Nat)
    (h : matmulOutShape (A ++ [M, K]) (B ++ [K', N]) = some out)
    (hinner : K = K') (hnz : ∀ p ∈ List.zip A.reverse B.reverse, ¬ (p.1 = 1 ∧ p.2 = 0)) :
    specMatMulShape (A ++ [M, K]) (B ++ [K', N]) = some out := by
  subst hinner
  rw [matmulOutShape_22] at h
  rw [specMatMulShape_22]
  simp only [beq_self_eq_true, Bool.or_true, if_true] at h
  cases hb : bcLoop A.reverse B.reverse 1 [M, N] with
  | none => rw [hb] at h; simp at h
  | some r =>
    rw [hb] at h
    obtain ⟨W, hr, hs⟩ := batch_sound A B [M, N] r hb hnz
    simp only [Option.some.injEq] at h
    rw [hs]
    simp only [bne_self_eq_false, Bool.false_eq_true, if_false, Option.some.injEq]
    rw [← h, hr, List.append_assoc]

/-- (ii) `a` 1-D, `b` of rank ≥ 2: no hypothesis needed. -/
theorem matmul_out_shape_sound_12 (k : Nat) (B : List Nat) (K' N : Nat) (out : List Nat)
    (h : matmulOutShape [k] (B ++ [K', N]) = some out) :
    specMatMulShape [k] (B ++ [K', N]) = some out := by
  rw [matmulOutShape_12] at h
  rw [specMatMulShape_12]
  by_cases hk : k = K'
  · subst hk; simpa using h
  · have : (k == K') = false := by simpa using hk
    simp [this] at h

/-- (iii) `a` of rank ≥ 2, `b` 1-D: no hypothesis needed. -/
theorem matmul_out_shape_sound_21 (A : List Nat) (M K k : Nat) (out : List Nat)
    (h : matmulOutShape (A ++ [M, K]) [k] = some out) :
    specMatMulShape (A ++ [M, K]) [k] = some out := by
  rw [matmulOutShape_21] at h
  rw [specMatMulShape_21]
  by_cases hk : k = K
  · subst hk; simpa using h
  · have : (k == K) = false := by simpa using hk
    simp [this] at h

theorem exists_app2 (l : List Nat) (h : 2 ≤ l.length) : ∃ A m k, l = A ++ [m, k] := by
  have h2 : (l.drop (l.length - 2)).length = 2 := by simp; omega
  match hd : l.drop (l.length - 2), h2 with
  | [m, k], _ => exact ⟨l.take (l.length - 2), m, k, by rw [← hd, List.take_append_drop]⟩

theorem matmulOutShape_nil_left (b : List Nat) : matmulOutShape [] b = none := by
  unfold matmulOutShape; simp

theorem matmulOutShape_nil_right (a : List Nat) : matmulOutShape a [] = none := by
  unfold matmulOutShape; simp

theorem matmulOutShape_11 (x y : Nat) : matmulOutShape [x] [y] = none := by
  unfold matmulOutShape; simp

/-- Main theorem, all ranks. -/
theorem matmul_out_shape_sound (a b out : List Nat) (h : matmulOutShape a b = some out)
    (hinner : a.getLastD 0 = (if b.length == 1 then b.getLastD 0 else b.getD (b.length - 2) 0))
    (hnz : ∀ p ∈ List.zip (a.take (a.length - 2)).reverse (b.take (b.length - 2)).reverse,
      ¬ (p.1 = 1 ∧ p.2 = 0)) :
    specMatMulShape a b = some out := by
  match a, b with
  | [], b => simp [matmulOutShape_nil_left] at h
  | _ :: _, [] => simp [matmulOutShape_nil_right] at h
  | [x], [y] => simp [matmulOutShape_11] at h
  | [k], y :: y' :: b =>
    obtain ⟨B, K', N, hB⟩ := exists_app2 (y :: y' :: b) (by simp)
    rw [hB] at h ⊢
    exact matmul_out_shape_sound_12 k B K' N out h
  | x :: x' :: a, [k] =>
    obtain ⟨A, M, K, hA⟩ := exists_app2 (x :: x' :: a) (by simp)
    rw [hA] at h ⊢
    exact matmul_out_shape_sound_21 A M K k out h
  | x :: x' :: a, y :: y' :: b =>
    obtain ⟨A, M, K, hA⟩ := exists_app2 (x :: x' :: a) (by simp)
    obtain ⟨B, K', N, hB⟩ := exists_app2 (y :: y' :: b) (by simp)
    rw [hA, hB] at h hinner
    rw [hA, hB] at hnz
    rw [hA, hB]
    refine matmul_out_shape_sound_22 A B M K K' N out h ?_ ?_
    · have r2 : ¬ (B.length + 2 = 1) := by omega
      simpa [getLastD_app2, getD_app2, r2] using hinner
    · have t1 : List.take A.length (A ++ [M, K]) = A := List.take_left' rfl
      have t2 : List.take B.length (B ++ [K', N]) = B := List.take_left' rfl
      simpa only [List.length_append, List.length_cons, List.length_nil, Nat.zero_add, Nat.reduceAdd,
        Nat.add_sub_cancel, t1, t2] using hnz

/-- Corollary with the simpler (stronger) side condition "no zero among `b`'s batch dims". -/
theorem matmul_out_shape_sound_of_nonzero (a b out : List Nat) (h : matmulOutShape a b = some out)
    (hinner : a.getLastD 0 = (if b.length == 1 then b.getLastD 0 else b.getD (b.length - 2) 0))
    (hnz : ∀ d ∈ b.take (b.length - 2), d ≠ 0) :
    specMatMulShape a b = some out :=
  matmul_out_shape_sound a b out h hinner (fun p hp hc =>
    hnz p.2 (List.mem_reverse.mp (List.of_mem_zip (a := p.1) (b := p.2) hp).2) hc.2)

/-- Both hypotheses are needed. -/
theorem matmul_out_shape_inner_needed :
    matmulOutShape [2,1] [5,3] = some [2,3] ∧ specMatMulShape [2,1] [5,3] = none := by decide

/-- The `max(da, db)` of the loop is not the broadcast of `da = 1` with `db = 0`
(NumPy: `1` broadcast with `0` gives `0`). -/
theorem matmul_out_shape_zero_batch_needed :
    matmulOutShape [1,3,4] [0,4,5] = some [1,3,5] ∧ specMatMulShape [1,3,4] [0,4,5] = some [0,3,5] := by decide

example : matmulOutShape [2,3,4] [4,5] = some [2,3,5] := by decide
example : matmulOutShape [4] [2,4,5] = some [2,5] := by decide
example : matmulOutShape [3,4] [4] = some [3] := by decide
example : matmulOutShape [2,3,4] [4] = some [2,3] := by decide
example : matmulOutShape [1,3,4] [2,4,5] = some [2,3,5] := by decide
example : matmulOutShape [2,3,4] [1,4,5] = none := by decide
example : specMatMulShape [2,3,4] [1,4,5] = some [2,3,5] := by decide
example : matmulOutShape [7,2,3,4] [2,4,5] = some [7,2,3,5] := by decide
example : matmulOutShape [2,3,4] [7,2,4,5] = some [7,2,3,5] := by decide
example : matmulOutShape [4] [4] = none := by decide
example : specMatMulShape [4] [4] = some [] := by decide
example : specMatMulShape [1,3,4] [2,4,5] = some [2,3,5] := by decide

end OV.Lemmas.C05Matmul
