import OV.Lemmas.C18Sem
import OV.Lemmas.C18Builder
/-! Helper lemmas for C18: which items change a module-scope stack (`GraphBuilder._scope_stack`) of the current
builder or of an enclosing builder — and what a *refused* call leaves behind. -/
namespace OV.C18

/-- the current builder's scope stack and the enclosing builders (with theirs) are the same. -/
def SS (st st' : St) : Prop := st'.cur.scope = st.cur.scope ∧ st'.stack = st.stack

theorem SS.refl (st : St) : SS st st := ⟨rfl, rfl⟩

theorem SS.trans {a b c : St} (h1 : SS a b) (h2 : SS b c) : SS a c :=
  ⟨h2.1.trans h1.1, h2.2.trans h1.2⟩

theorem ss_fail (st : St) (e : String) : SS st (fail st e) := by
  unfold fail
  split <;> exact ⟨rfl, rfl⟩

theorem ss_newValuesK (ks : List VKey) (st : St) : SS st (newValuesK st ks).1 := by
  obtain ⟨a, b, _⟩ := newValuesK_frames ks st
  exact ⟨by rw [a], b⟩

theorem ss_promote (st : St) (l : Lit) : SS st (promote st l).1 := by
  unfold promote
  split
  · exact SS.refl st
  · exact ⟨rfl, rfl⟩

theorem ss_resolveArgs : ∀ (a : List Arg) (st : St), SS st (resolveArgs st a).1
  | [], st => SS.refl st
  | .ref _ :: r, st => by simp only [resolveArgs]; exact ss_resolveArgs r st
  | .none :: r, st => by simp only [resolveArgs]; exact ss_resolveArgs r st
  | .lit l :: r, st => by
    simp only [resolveArgs]
    exact SS.trans (ss_promote st l) (ss_resolveArgs r (promote st l).1)

theorem ss_core {st st' : St} (h : SameCore st st') : SS st st' := by
  obtain ⟨_, _, _, _, c5, c6, _⟩ := h
  exact ⟨by rw [c5], c6⟩

theorem ss_foldl {β : Type} (l : List β) (g : St → β → St) (hg : ∀ s x, SS s (g s x)) :
    ∀ st : St, SS st (l.foldl g st) := by
  induction l with
  | nil => intro st; exact SS.refl st
  | cons x r ih => intro st; exact SS.trans (hg st x) (ih (g st x))

theorem ss_cloneNodes (np : String) : ∀ (nodes : List FNode) (st : St) (m : VMap),
    SS st (cloneNodes st m np nodes).1
  | [], st, _ => SS.refl st
  | n :: r, st, m => by
    simp only [cloneNodes]
    refine SS.trans ?_ (ss_cloneNodes np r _ _)
    simp only [cloneNode, newValues]
    exact ss_newValuesK _ st

theorem ss_addInlined (finals : List Nat) : ∀ (nodes : List Node) (st : St), SS st (addInlined st finals nodes)
  | [], st => SS.refl st
  | n :: r, st => by
    simp only [addInlined]
    have h1 : SS st (n.outs.foldl (fun s o =>
        if nameOf s o ≠ "" ∧ o ∉ finals then renameValue s o (qualifyValue s.cur) else s) st) := by
      apply ss_foldl
      intro s o
      split
      · exact ⟨rfl, rfl⟩
      · exact SS.refl s
    exact SS.trans (SS.trans h1 ⟨rfl, rfl⟩) (ss_addInlined finals r _)

theorem ss_inlineRun (total : Bool) (st0 : St) (f : Fn) (actuals : List (Option Nat))
    (desired : Option (List String)) : SS st0 (inlineRun total st0 f actuals desired).1 := by
  unfold inlineRun inlineClones
  simp only []
  exact SS.trans (ss_cloneNodes _ _ _ _) (SS.trans (ss_addInlined _ _ _) (ss_core (renameFinals_core _ _ _ _)))

/-- `push_module(p)` followed — after anything that leaves the scopes alone — by `pop_module()` restores the stack. -/
theorem ss_push_pop (st s : St) (p : String) (h : SS (pushScope st p) s) : SS st (popScope s) := by
  obtain ⟨h1, h2⟩ := h
  have hs : s.cur.scope = st.cur.scope ++ [p] := by rw [h1]; rfl
  unfold popScope
  have hne : s.cur.scope.isEmpty = false := by rw [hs]; simp
  simp only [hne, Bool.false_eq_true, if_false]
  exact ⟨by simp [hs], by rw [h2]; rfl⟩

theorem ss_doOp (st : St) (t : String) (a : List Arg) (o : Outs) (nn : Option String) (g : List Nat)
    (as : List (String × AVal)) : SS st (doOp true st t a o nn g as) := by
  unfold doOp
  simp only []
  have h1 := ss_resolveArgs a st
  have h2 := ss_newValuesK (outKeys (resolveArgs st a).1.cur (nodeCount true (resolveArgs st a).1) t o)
    (resolveArgs st a).1
  exact ⟨by simp only [addNode]; rw [h2.1, h1.1], by simp only [addNode]; rw [h2.2, h1.2]⟩

theorem ss_doCall (fns : List Fn) (st : St) (fi : Nat) (a : List Arg) (o : Option Outs)
    (as : List (String × AVal)) : SS st (doCall true fns st fi a o as) := by
  unfold doCall
  split
  · exact ss_fail st _
  · rename_i f _
    simp only []
    have h1 := ss_newValuesK (outKeys st.cur (nodeCount true st) f.name (o.getD (.auto f.outputs.length))) st
    have h2 := ss_resolveArgs a (newValuesK st (outKeys st.cur (nodeCount true st) f.name
      (o.getD (.auto f.outputs.length)))).1
    exact ⟨by simp only [addNode]; rw [h2.1, h1.1], by simp only [addNode]; rw [h2.2, h1.2]⟩

/-- `call_inline`: the scopes are as before on every path **except** when a prefix was pushed and
    `_inliner.instantiate` then raised (`leak = true`, the pinned code). -/
theorem ss_doInline (leak : Bool) (fns : List Fn) (st : St) (fi : Nat) (a : List Arg) (o : Option (List String))
    (p : String) (as : List (String × AVal))
    (h : leak = false ∨ p = "" ∨ ∀ f, fns[fi]? = some f → ¬ a.length > f.formals.length ∨ outsMismatch o f = true) :
    SS st (doInlineWith leak true fns st fi a o p as) := by
  unfold doInlineWith
  split
  · exact ss_fail st _
  · rename_i f hf
    split
    · exact ss_fail st _
    · split
      · exact ss_fail st _
      · rename_i hm
        simp only []
        by_cases hp : p = ""
        · subst hp
          simp only [if_true, Bool.or_true, decide_true]
          split
          · exact SS.trans (ss_resolveArgs a st) (ss_fail _ _)
          · have hh := SS.trans (ss_resolveArgs a st) (ss_inlineRun true (resolveArgs st a).1
              (resolveFn (effectiveAttrs true f as) f) (resolveArgs st a).2
              (o.map (fun o => o.map (qualifyValue st.cur))))
            exact ⟨hh.1, hh.2⟩
        · simp only [hp, if_false, decide_false, Bool.or_false]
          have hr : SS (pushScope st p) (resolveArgs (pushScope st p) a).1 := ss_resolveArgs a _
          split
          · rename_i htm
            rcases h with h | h | h
            · subst h
              simp only [Bool.false_eq_true, if_false]
              exact SS.trans (ss_push_pop st _ p hr) (ss_fail _ _)
            · exact absurd h hp
            · rcases h f hf with x | x
              · exact absurd htm x
              · rw [x] at hm; exact absurd rfl hm
          · have hh := ss_push_pop st _ p (SS.trans hr (ss_inlineRun true (resolveArgs (pushScope st p) a).1
              (resolveFn (effectiveAttrs true f as) f) (resolveArgs (pushScope st p) a).2
              (o.map (fun o => o.map (qualifyValue st.cur)))))
            exact ⟨hh.1, hh.2⟩

theorem stack_popScope (s : St) : (popScope s).stack = s.stack := by
  unfold popScope
  split
  · exact (ss_fail s _).2
  · rfl

/-- `call_inline` never touches an enclosing builder — on any path, the leaking one included. -/
theorem stack_doInline (leak : Bool) (fns : List Fn) (st : St) (fi : Nat) (a : List Arg) (o : Option (List String))
    (p : String) (as : List (String × AVal)) : (doInlineWith leak true fns st fi a o p as).stack = st.stack := by
  unfold doInlineWith
  split
  · exact (ss_fail st _).2
  · rename_i f _
    split
    · exact (ss_fail st _).2
    · split
      · exact (ss_fail st _).2
      · simp only []
        have h0 : (if p = "" then st else pushScope st p).stack = st.stack := by split <;> rfl
        generalize (if p = "" then st else pushScope st p) = st0 at h0
        have hr := (ss_resolveArgs a st0).2
        split
        · rw [(ss_fail _ _).2]
          split
          · rw [hr, h0]
          · rw [stack_popScope, hr, h0]
        · have hi := (ss_inlineRun true (resolveArgs st0 a).1 (resolveFn (effectiveAttrs true f as) f)
            (resolveArgs st0 a).2 (o.map (fun o => o.map (qualifyValue st.cur)))).2
          by_cases hp : p = ""
          · simp only [hp, if_true]
            rw [hi, hr, h0]
          · simp only [hp, if_false]
            rw [stack_popScope, hi, hr, h0]

/-! ### a whole subgraph body: the enclosing frames stay at the bottom of the stack -/

/-- nesting depth of a trace-function body relative to its own start: `none` as soon as the body would leave the
    subgraph it runs in. -/
def relDepth : Nat → List Item → Option Nat
  | d, [] => some d
  | d, .beginSub _ _ :: r => relDepth (d + 1) r
  | 0, .endSub _ _ :: _ => none
  | 0, .abortSub :: _ => none
  | d + 1, .endSub _ _ :: r => relDepth d r
  | d + 1, .abortSub :: r => relDepth d r
  | d, _ :: r => relDepth d r

theorem fail_stack_cur (s : St) (e : String) : (fail s e).stack = s.stack ∧ (fail s e).cur = s.cur := by
  unfold fail; split <;> exact ⟨rfl, rfl⟩

/-- items that neither open nor leave a subgraph never touch the enclosing frames. -/
theorem stack_plain (fns : List Fn) (st : St) (it : Item) (h : isSub it = false) :
    (step true fns st it).stack = st.stack := by
  cases it with
  | input n => rfl
  | op t a o nn g as => exact (ss_doOp st t a o nn g as).2
  | push n => rfl
  | pop => exact stack_popScope st
  | call f a o as => exact (ss_doCall fns st f a o as).2
  | inline fi a o p as => exact stack_doInline prefixLeaks fns st fi a o p as
  | beginSub g i => simp [isSub] at h
  | endSub r d => simp [isSub] at h
  | abortSub => simp [isSub] at h
  | output hd n =>
    simp only [step, doOutput]
    split
    · exact (fail_stack_cur st _).1
    · split
      · split <;> rfl
      · rfl

theorem stack_begin (fns : List Fn) (st : St) (g : String) (i : List String) :
    (step true fns st (.beginSub g i)).stack = st.cur :: st.stack := by
  simp only [step, doBeginSub]

/-- leaving a subgraph — finished, refused, or by an exception — makes the head of the enclosing frames current. -/
theorem stack_leave (fns : List Fn) (st : St) (it : Item) (p : Frame) (rest : List Frame)
    (hit : it = .abortSub ∨ ∃ r d, it = .endSub r d) (hst : st.stack = p :: rest) :
    (step true fns st it).stack = rest ∧ (step true fns st it).cur = p := by
  rcases hit with rfl | ⟨r, d, rfl⟩
  · simp [step, doAbortSub, abandon, hst]
  · simp only [step, doEndSub, hst]
    split
    · rw [(fail_stack_cur _ _).1, (fail_stack_cur _ _).2]
      simp [abandon, hst]
    · exact ⟨rfl, rfl⟩

/-- a body that stays inside its subgraph only ever stacks frames *on top of* the enclosing ones. -/
theorem body_keeps_base (fns : List Fn) : ∀ (body : List Item) (s : St) (k : Nat) (pre base : List Frame) (k' : Nat),
    s.stack = pre ++ base → pre.length = k → relDepth k body = some k' →
    ∃ pre', pre'.length = k' ∧ (body.foldl (step true fns) s).stack = pre' ++ base
  | [], s, k, pre, base, k', hs, hl, hd => by
    simp only [relDepth, Option.some.injEq] at hd
    exact ⟨pre, hd ▸ hl, hs⟩
  | it :: r, s, k, pre, base, k', hs, hl, hd => by
    simp only [List.foldl_cons]
    cases it with
    | beginSub g i =>
      simp only [relDepth] at hd
      exact body_keeps_base fns r _ (k + 1) (s.cur :: pre) base k'
        (by rw [stack_begin, hs]; rfl) (by simp [hl]) hd
    | endSub rr d =>
      cases k with
      | zero => simp [relDepth] at hd
      | succ k0 =>
        simp only [relDepth] at hd
        cases pre with
        | nil => simp at hl
        | cons p pre0 =>
          have := (stack_leave fns s (.endSub rr d) p (pre0 ++ base) (Or.inr ⟨rr, d, rfl⟩) (by simpa using hs)).1
          exact body_keeps_base fns r _ k0 pre0 base k' this (by simpa using hl) hd
    | abortSub =>
      cases k with
      | zero => simp [relDepth] at hd
      | succ k0 =>
        simp only [relDepth] at hd
        cases pre with
        | nil => simp at hl
        | cons p pre0 =>
          have := (stack_leave fns s .abortSub p (pre0 ++ base) (Or.inl rfl) (by simpa using hs)).1
          exact body_keeps_base fns r _ k0 pre0 base k' this (by simpa using hl) hd
    | input n =>
      exact body_keeps_base fns r _ k pre base k' (by rw [stack_plain fns s _ rfl, hs]) hl (by simpa [relDepth] using hd)
    | op t a o nn g as =>
      exact body_keeps_base fns r _ k pre base k' (by rw [stack_plain fns s _ rfl, hs]) hl (by simpa [relDepth] using hd)
    | push n =>
      exact body_keeps_base fns r _ k pre base k' (by rw [stack_plain fns s _ rfl, hs]) hl (by simpa [relDepth] using hd)
    | pop =>
      exact body_keeps_base fns r _ k pre base k' (by rw [stack_plain fns s _ rfl, hs]) hl (by simpa [relDepth] using hd)
    | call f a o as =>
      exact body_keeps_base fns r _ k pre base k' (by rw [stack_plain fns s _ rfl, hs]) hl (by simpa [relDepth] using hd)
    | inline fi a o p as =>
      exact body_keeps_base fns r _ k pre base k' (by rw [stack_plain fns s _ rfl, hs]) hl (by simpa [relDepth] using hd)
    | output hd' n =>
      exact body_keeps_base fns r _ k pre base k' (by rw [stack_plain fns s _ rfl, hs]) hl (by simpa [relDepth] using hd)

/-! ### Part B: a forward that raises part-way, then is called again -/

/-- an attempt to realise a parameter object that was already realised is a no-op, wherever it sits. -/
theorem dedupPid_drop_seen (n : String) (p : Nat) : ∀ (a b : List (String × Nat)) (s : List Nat), p ∈ s →
    dedupPid (a ++ (n, p) :: b) s = dedupPid (a ++ b) s
  | [], b, s, hp => by simp [dedupPid, hp]
  | (m, q) :: a, b, s, hp => by
    simp only [List.cons_append, dedupPid]
    split
    · exact dedupPid_drop_seen n p a b s hp
    · rw [dedupPid_drop_seen n p a b (q :: s) (List.mem_cons_of_mem _ hp)]

/-- the realisation attempts of an aborted call (any prefix of the full sequence) followed by a complete call give
    the same realised parameters, in the same order, as one complete call. -/
theorem dedupPid_take_append : ∀ (l : List (String × Nat)) (k : Nat) (s : List Nat),
    dedupPid (l.take k ++ l) s = dedupPid l s
  | l, 0, s => by simp
  | [], k + 1, s => by simp
  | (n, p) :: r, k + 1, s => by
    simp only [List.take_succ_cons, List.cons_append, dedupPid]
    split
    · rename_i hp
      rw [dedupPid_drop_seen n p _ _ s hp]
      exact dedupPid_take_append r k s
    · rw [dedupPid_drop_seen n p _ _ (p :: s) (by simp)]
      rw [dedupPid_take_append r k (p :: s)]

end OV.C18
