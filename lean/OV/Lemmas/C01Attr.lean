import OV.Lemmas.C01Sim
/-! Translation only ever adds value bindings: the attribute bindings in scope after a statement are among those
before it (`AttrMono`).  Used to carry "the assigned variables are not attribute parameters" (`FreeOf`) along. -/
namespace OV.C01

theorem lookup_push' (L : Locals) (x : Name) : lookup ([] :: L) x = lookup L x := by
  simp [lookup, Frame.find]

theorem AttrMono.push (L : Locals) : AttrMono L ([] :: L) := fun x p ty h => by
  rw [lookup_push'] at h; exact h

theorem loopFinish_attrMono {L L2 : Locals} {state : List Name} {bound cond : Option Name}
    {condIn iv : Name} {ps : List Name} {whileVar : Option Name} {bn : List Node}
    {brkCond : Option Name} {L' : Locals} {nl : List Node} {s s' : St}
    (h : loopFinish L L2 state bound cond condIn iv ps whileVar bn brkCond s = .ok ((L', nl), s')) :
    AttrMono L L' := by
  unfold loopFinish at h
  cases hc : loopCondName L2 whileVar condIn with
  | none => simp only [hc] at h; exact (failM_ok h).elim
  | some oc =>
    simp only [hc] at h
    mbind h with p s1 h1
    obtain ⟨condOut, cns⟩ := p
    try dsimp only at h
    mbind h with p s2 h2
    obtain ⟨os, ns3⟩ := p
    try dsimp only at h
    mbind h with p s3 h3
    obtain ⟨inits, ns4⟩ := p
    try dsimp only at h
    mbind h with outs s4 h4
    obtain ⟨e1, _⟩ := pure_ok h
    cases e1
    exact AttrMono.bindVals _ _ _

theorem convStmt_attrMono (L : Locals) : ∀ (st : Stmt) (lo : VSet) {L' : Locals} {ns : List Node} {s s' : St},
    convStmt L st lo s = .ok ((L', ns), s') → AttrMono L L'
  | .assign x e, lo, L', ns, s, s', h => by
    unfold convStmt at h
    mbind h with p s1 h1
    obtain ⟨t, ns1⟩ := p
    try dsimp only at h
    obtain ⟨e1, _⟩ := pure_ok h
    cases e1
    exact AttrMono.bindVal _ _ _
  | .par xs es, lo, L', ns, s, s', h => by
    unfold convStmt at h
    by_cases hl : xs.length ≠ es.length
    · rw [if_pos hl] at h; exact (failM_ok h).elim
    · rw [if_neg hl] at h
      unfold convPar at h
      mbind h with p s1 h1
      obtain ⟨ts, ns1⟩ := p
      try dsimp only at h
      obtain ⟨e1, _⟩ := pure_ok h
      cases e1
      exact AttrMono.bindVals _ _ _
  | .tuple xs e, lo, L', ns, s, s', h => by
    unfold convStmt at h
    cases e with
    | call dom op sig args attrs =>
      simp only at h
      mbind h with p s1 h1
      obtain ⟨as, ns1⟩ := p
      try dsimp only at h
      mbind h with attrs' s2 h2
      mbind h with p s3 h3
      obtain ⟨as', ns2⟩ := p
      try dsimp only at h
      mbind h with outs s4 h4
      obtain ⟨e1, _⟩ := pure_ok h
      cases e1
      exact AttrMono.bindVals _ _ _
    | _ => exact (failM_ok h).elim
  | .badAssign _ _, lo, L', ns, s, s', h => by unfold convStmt at h; exact (failM_ok h).elim
  | .ite c t e, lo, L', ns, s, s', h => by
    unfold convStmt at h
    cases ha : assignedStmt (.ite c t e) with
    | none => simp only [ha] at h; exact (failM_ok h).elim
    | some defs =>
      simp only [ha] at h
      mbind h with p s1 h1
      obtain ⟨test, ns0⟩ := p
      try dsimp only at h
      mbind h with p s2 h2
      obtain ⟨Lt, tn⟩ := p
      try dsimp only at h
      mbind h with p s3 h3
      obtain ⟨to, tn2⟩ := p
      try dsimp only at h
      mbind h with p s4 h4
      obtain ⟨Le, en⟩ := p
      try dsimp only at h
      mbind h with p s5 h5
      obtain ⟨eo, en2⟩ := p
      try dsimp only at h
      mbind h with renamed s6 h6
      by_cases hre : renamed.isEmpty = true
      · rw [if_pos hre] at h; exact (failM_ok h).elim
      · rw [if_neg hre] at h
        by_cases hrt : (renamed == [test]) = true
        · rw [if_pos hrt] at h; exact (failM_ok h).elim
        · rw [if_neg hrt] at h
          obtain ⟨e1, _⟩ := pure_ok h
          cases e1
          exact AttrMono.bindVals _ _ _
  | .for_ i okIter bound body, lo, L', ns, s, s', h => by
    unfold convStmt at h
    by_cases hok : okIter = true
    · simp only [hok, Bool.not_true, Bool.false_eq_true, if_false] at h
      cases hs : loopState body lo with
      | none => simp only [hs] at h; exact (failM_ok h).elim
      | some state =>
        simp only [hs] at h
        mbind h with p s1 h1
        obtain ⟨ob, ns0⟩ := p
        try dsimp only at h
        mbind h with condIn s2 h2
        mbind h with p s3 h3
        obtain ⟨L1, iv, ps⟩ := p
        try dsimp only at h
        mbind h with p s4 h4
        obtain ⟨L2, bn, bc⟩ := p
        try dsimp only at h
        mbind h with p s5 h5
        obtain ⟨L'', nl⟩ := p
        try dsimp only at h
        obtain ⟨e1, _⟩ := pure_ok h
        cases e1
        exact loopFinish_attrMono h5
    · simp only [hok, Bool.not_false, if_true] at h; exact (failM_ok h).elim
  | .while_ c body, lo, L', ns, s, s', h => by
    cases c with
    | var t =>
      unfold convStmt at h
      simp only at h
      cases hs : loopState body lo with
      | none => simp only [hs] at h; exact (failM_ok h).elim
      | some state =>
        simp only [hs] at h
        mbind h with condIn s2 h2
        mbind h with p s1 h1
        obtain ⟨oc, ns0⟩ := p
        try dsimp only at h
        mbind h with p s3 h3
        obtain ⟨L1, iv, ps⟩ := p
        try dsimp only at h
        mbind h with p s4 h4
        obtain ⟨L2, bn, bc⟩ := p
        try dsimp only at h
        mbind h with p s5 h5
        obtain ⟨L'', nl⟩ := p
        try dsimp only at h
        obtain ⟨e1, _⟩ := pure_ok h
        cases e1
        exact loopFinish_attrMono h5
    | _ => unfold convStmt at h; exact (failM_ok h).elim
  | .brk c, lo, L', ns, s, s', h => by unfold convStmt at h; exact (failM_ok h).elim
  | .ret es b, lo, L', ns, s, s', h => by unfold convStmt at h; exact (failM_ok h).elim
  | .skip, lo, L', ns, s, s', h => by
    unfold convStmt at h
    obtain ⟨e1, _⟩ := pure_ok h
    cases e1
    exact AttrMono.refl _
  | .unsupported, lo, L', ns, s, s', h => by unfold convStmt at h; exact (failM_ok h).elim

theorem convStmts_attrMono : ∀ (ss : List Stmt) (L : Locals) (lo : VSet) {L' : Locals} {ns : List Node} {s s' : St},
    convStmts L ss lo s = .ok ((L', ns), s') → AttrMono L L' := by
  intro ss
  induction ss with
  | nil =>
    intro L lo L' ns s s' h
    unfold convStmts at h
    obtain ⟨e1, _⟩ := pure_ok h
    cases e1
    exact AttrMono.refl _
  | cons st ss ih =>
    intro L lo L' ns s s' h
    unfold convStmts at h
    mbind h with p s1 h1
    obtain ⟨L1, ns1⟩ := p
    try dsimp only at h
    mbind h with p s2 h2
    obtain ⟨L2, ns2⟩ := p
    try dsimp only at h
    obtain ⟨e1, _⟩ := pure_ok h
    cases e1
    exact (convStmt_attrMono L st _ h1).trans (ih _ _ h2)

mutual
/-- What the analyser reports as assigned is among the names the statement may bind. -/
theorem assigned_sub_targets : ∀ (st : Stmt) {d : VSet}, assignedStmt st = some d → ∀ x, x ∈ d → x ∈ targetsStmt st
  | .assign y e, d, h, x, hx => by
    simp only [assignedStmt] at h; cases h
    simp only [targetsStmt, List.mem_cons]
    exact Or.inl (by simpa using hx)
  | .par ys es, d, h, x, hx => by
    simp only [assignedStmt] at h; cases h
    simp only [targetsStmt, List.mem_append]
    exact Or.inl (mem_vofList.mp hx)
  | .tuple ys e, d, h, x, hx => by
    simp only [assignedStmt] at h; cases h; simpa [targetsStmt] using mem_vofList.mp hx
  | .badAssign ys e, d, h, x, hx => by
    simp only [assignedStmt] at h; cases h; simpa [targetsStmt] using mem_vofList.mp hx
  | .ite c t e, d, h, x, hx => by
    simp only [assignedStmt] at h
    cases hta : assignedBlock t with
    | none => simp [hta] at h
    | some a =>
      cases hea : assignedBlock e with
      | none => simp [hta, hea] at h
      | some b =>
        simp only [hta, hea] at h
        cases h
        simp only [targetsStmt, List.mem_append]
        rcases mem_vunion.mp hx with h' | h'
        · exact Or.inl (assignedBlock_sub_targets t hta x h')
        · exact Or.inr (assignedBlock_sub_targets e hea x h')
  | .for_ i ok b body, d, h, x, hx => by
    simp only [assignedStmt] at h
    cases hb : assignedBlock body with
    | none => simp [hb] at h
    | some a =>
      simp only [hb] at h
      cases h
      simp only [targetsStmt, List.mem_cons]
      rcases mem_vunion.mp hx with h' | h'
      · exact Or.inr (assignedBlock_sub_targets body hb x h')
      · simp only [List.mem_singleton] at h'; exact Or.inl h'
  | .while_ c body, d, h, x, hx => by
    simp only [assignedStmt] at h
    simp only [targetsStmt, List.mem_append]
    exact Or.inr (assignedBlock_sub_targets body h x hx)
  | .brk c, d, h, x, hx => by simp only [assignedStmt] at h; cases h; cases hx
  | .ret es b, d, h, x, hx => by simp only [assignedStmt] at h; cases h; cases hx
  | .skip, d, h, x, hx => by simp only [assignedStmt] at h; cases h; cases hx
  | .unsupported, d, h, x, hx => by simp [assignedStmt] at h
theorem assignedBlock_sub_targets : ∀ (ss : List Stmt) {d : VSet}, assignedBlock ss = some d →
    ∀ x, x ∈ d → x ∈ targetsBlock ss
  | [], d, h, x, hx => by simp only [assignedBlock] at h; cases h; cases hx
  | st :: ss, d, h, x, hx => by
    simp only [assignedBlock] at h
    cases ha : assignedStmt st with
    | none => simp [ha] at h
    | some a =>
      cases hb : assignedBlock ss with
      | none => simp [ha, hb] at h
      | some b =>
        simp only [ha, hb] at h
        cases h
        simp only [targetsBlock, List.mem_append]
        rcases mem_vunion.mp hx with h' | h'
        · exact Or.inl (assigned_sub_targets st ha x h')
        · exact Or.inr (assignedBlock_sub_targets ss hb x h')
end

theorem FreeOf.head {V : Type} {S : Sem V} {L : Locals} {st : Stmt} {ss : List Stmt} (h : FreeOf S L (targetsBlock (st :: ss))) :
    FreeOf S L (targetsStmt st) ∧ FreeOf S L (targetsBlock ss) :=
  ⟨h.sub (fun x hx => by simp [targetsBlock, hx]), h.sub (fun x hx => by simp [targetsBlock, hx])⟩

end OV.C01
