import OV.Model.C14Globals
/-! Lemmas for the memo and entry-object state machines of C14. -/
namespace OV.C14

theorem memoGet_sound {K E V : Type} [BEq K] [LawfulBEq K] (f : K → E → V)
    (hf : ∀ k e e', f k e = f k e') (cache : List (K × V)) (h : MemoSound f cache) (k : K) (e : E) :
    (memoGet f cache k e).2 = f k e ∧ MemoSound f (memoGet f cache k e).1 := by
  unfold memoGet
  cases hl : cache.lookup k with
  | some v => exact ⟨h k v hl e, h⟩
  | none =>
    refine ⟨rfl, ?_⟩
    intro k' v' hk' e'
    simp only [List.lookup_cons] at hk'
    by_cases hkk : (k' == k) = true
    · simp only [hkk] at hk'
      have : k' = k := by simpa using hkk
      subst this
      cases hk'
      exact hf _ _ _
    · simp only [hkk] at hk'
      exact h k' v' hk' e'

theorem memoRun_sound {K E V : Type} [BEq K] [LawfulBEq K] (f : K → E → V)
    (hf : ∀ k e e', f k e = f k e') (cache : List (K × V)) (h : MemoSound f cache) (qs : List (K × E)) :
    MemoSound f (memoRun f cache qs) := by
  induction qs generalizing cache with
  | nil => exact h
  | cons q qs ih => exact ih _ (memoGet_sound f hf cache h q.1 q.2).2

theorem oApply_keeps (fs : List OField) (ws : List (OField × Int)) (s : OState)
    (h : ∀ p, p ∈ ws → p.1 ∉ fs) : OAgree fs s (oApply ws s) := by
  induction ws generalizing s with
  | nil => intro f _; rfl
  | cons p ws ih =>
    obtain ⟨g, v⟩ := p
    intro f hf
    have hne : f ≠ g := fun e => h (g, v) (by simp) (e ▸ hf)
    have := ih (fun x => if x = g then some v else s x) (fun q hq => h q (List.mem_cons_of_mem _ hq)) f hf
    simp only [oApply]
    rw [← this]
    simp only [hne, if_false]

theorem objRun_consts {I O : Type} {e : EntryRow} {b : ObjBeh I O} (hr : ObjRespects e b)
    (s : OState) (H : List I) : OAgree e.consts s (objRun b s H) := by
  induction H generalizing s with
  | nil => intro f _; rfl
  | cons i is ih =>
    intro f hf
    have h1 := oApply_keeps e.consts (b.call s i).2 s (hr.consts_kept s i) f hf
    have h2 := ih (oApply (b.call s i).2 s) f hf
    simp only [objRun]
    rw [h1, h2]

/-! ## Small-step calls -/

theorem oAgree_oSet {fs : List OField} {s s' : OState} (h : OAgree fs s s') (f : OField) (v : Int) :
    OAgree fs (oSet s f v) (oSet s' f v) := by
  intro g hg
  simp only [OV.C14.oSet]
  split
  · rfl
  · exact h g hg

theorem oAgree_oSet_cons {fs : List OField} {s s' : OState} (h : OAgree fs s s') (f : OField) (v : Int) :
    OAgree (f :: fs) (oSet s f v) (oSet s' f v) := by
  intro g hg
  simp only [OV.C14.oSet]
  split
  · rfl
  · rename_i hne
    rcases List.mem_cons.1 hg with e | hm
    · exact absurd e hne
    · exact h g hm

/-- a disciplined call never changes an `__init__`-only field, wherever it stops -/
theorem Prog.run_consts {O : Type} (consts : List OField) (p : Prog O) :
    ∀ (wr : List OField), p.Disc consts wr → ∀ s, OAgree consts s (p.run s).1 := by
  induction p with
  | ret o => intro _ _ s f _; rfl
  | raise e => intro _ _ s f _; rfl
  | read f k ih => intro wr hd s; exact ih (s f) wr (hd.2 (s f)) s
  | write f v k ih =>
    intro wr hd s g hg
    have h := ih (f :: wr) hd.2 (oSet s f v) g hg
    simp only [Prog.run]
    rw [← h]
    have hne : g ≠ f := fun e => hd.1 (e ▸ hg)
    simp only [OV.C14.oSet, hne, if_false]

/-- **Key lemma**: the outcome of a disciplined call is the same from any two object states that agree
on the `__init__`-only fields and on the fields this call has assigned so far. -/
theorem Prog.run_indep {O : Type} (consts : List OField) (p : Prog O) :
    ∀ (wr : List OField), p.Disc consts wr → ∀ s s', OAgree consts s s' → OAgree wr s s' →
      (p.run s).2 = (p.run s').2 := by
  induction p with
  | ret o => intro _ _ _ _ _ _; rfl
  | raise e => intro _ _ _ _ _ _; rfl
  | read f k ih =>
    intro wr hd s s' hc hw
    have hf : s f = s' f := by
      rcases hd.1 with h | h
      · exact hc f h
      · exact hw f h
    simp only [Prog.run]
    rw [← hf]
    exact ih (s f) wr (hd.2 (s f)) s s' hc hw
  | write f v k ih =>
    intro wr hd s s' hc hw
    exact ih (f :: wr) hd.2 _ _ (oAgree_oSet hc f v) (oAgree_oSet_cons hw f v)

/-- an exception at any point of a disciplined call leaves a disciplined (shorter) call -/
theorem Prog.cut_disc {O : Type} (consts : List OField) (e : Int) (n : Nat) :
    ∀ (p : Prog O) (wr : List OField), p.Disc consts wr → (p.cut e n).Disc consts wr := by
  induction n with
  | zero => intro p wr _; cases p <;> exact True.intro
  | succ n ih =>
    intro p wr hd
    cases p with
    | ret o => exact True.intro
    | raise x => exact True.intro
    | read f k => exact ⟨hd.1, fun v => ih (k v) wr (hd.2 v)⟩
    | write f v k => exact ⟨hd.1, ih k (f :: wr) hd.2⟩

theorem faultRun_consts {I O : Type} (consts : List OField) (body : I → Prog O)
    (hd : ∀ i, (body i).Disc consts []) (s : OState) (H : List (I × Option Nat)) :
    OAgree consts s (faultRun body s H) := by
  induction H generalizing s with
  | nil => intro f _; rfl
  | cons c H ih =>
    obtain ⟨i, n⟩ := c
    intro f hf
    cases n with
    | none =>
      simp only [faultRun]
      rw [← ih _ f hf]
      exact Prog.run_consts consts (body i) [] (hd i) s f hf
    | some n =>
      simp only [faultRun]
      rw [← ih _ f hf]
      exact Prog.run_consts consts _ [] (Prog.cut_disc consts (-1) n (body i) [] (hd i)) s f hf

/-- every trace of a disciplined call passes the monitor's check -/
theorem Prog.trace_ok {O : Type} (consts : List OField) (p : Prog O) :
    ∀ (wr : List OField), p.Disc consts wr → ∀ s, traceOk consts wr (p.trace s) = true := by
  induction p with
  | ret o => intro _ _ _; rfl
  | raise e => intro _ _ _; rfl
  | read f k ih =>
    intro wr hd s
    simp only [Prog.trace, traceOk, Bool.and_eq_true, Bool.or_eq_true, List.contains_iff_mem]
    exact ⟨hd.1, ih (s f) wr (hd.2 (s f)) s⟩
  | write f v k ih =>
    intro wr hd s
    simp only [Prog.trace, traceOk, Bool.and_eq_true, Bool.not_eq_true', List.contains_eq_mem,
      decide_eq_false_iff_not]
    exact ⟨hd.1, ih (f :: wr) hd.2 _⟩

theorem Prog.writes_not_const {O : Type} (consts : List OField) (p : Prog O) :
    ∀ (wr : List OField), p.Disc consts wr → ∀ s q, q ∈ p.writes s → q.1 ∉ consts := by
  induction p with
  | ret o => intro _ _ _ q hq; simp [Prog.writes] at hq
  | raise e => intro _ _ _ q hq; simp [Prog.writes] at hq
  | read f k ih => intro wr hd s q hq; exact ih (s f) wr (hd.2 (s f)) s q hq
  | write f v k ih =>
    intro wr hd s q hq
    simp only [Prog.writes, List.mem_cons] at hq
    rcases hq with e | hq
    · subst e; exact hd.1
    · exact ih (f :: wr) hd.2 _ q hq

/-- the big-step view is the small-step one: applying the recorded assignments gives the final state -/
theorem Prog.oApply_writes {O : Type} (p : Prog O) : ∀ s, oApply (p.writes s) s = (p.run s).1 := by
  induction p with
  | ret o => intro s; rfl
  | raise e => intro s; rfl
  | read f k ih => intro s; exact ih (s f) s
  | write f v k ih => intro s; exact ih (oSet s f v)

end OV.C14
