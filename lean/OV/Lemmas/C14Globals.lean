import OV.Model.C14Globals
/-! Lemmas for the memo and entry-object state machines of C14. -/
namespace OV.C14

theorem memoGet_sound {K E V : Type} [BEq K] [LawfulBEq K] (f : K → E → V)
    (hf : ∀ k e e', f k e = f k e') (cache : List (K × V)) (h : MemoSound f cache) (k : K) (e : E) :
    (memoGet f cache k e).2 = f k e ∧ MemoSound f (memoGet f cache k e).1 := by
  unfold memoGet
  cases hl : cache.lookup k with
  | some v => exact ⟨h k v hl e, h⟩
  | none =>
    refine ⟨rfl, ?_⟩
    intro k' v' hk' e'
    simp only [List.lookup_cons] at hk'
    by_cases hkk : (k' == k) = true
    · simp only [hkk] at hk'
      have : k' = k := by simpa using hkk
      subst this
      cases hk'
      exact hf _ _ _
    · simp only [hkk] at hk'
      exact h k' v' hk' e'

theorem memoRun_sound {K E V : Type} [BEq K] [LawfulBEq K] (f : K → E → V)
    (hf : ∀ k e e', f k e = f k e') (cache : List (K × V)) (h : MemoSound f cache) (qs : List (K × E)) :
    MemoSound f (memoRun f cache qs) := by
  induction qs generalizing cache with
  | nil => exact h
  | cons q qs ih => exact ih _ (memoGet_sound f hf cache h q.1 q.2).2

theorem oApply_keeps (fs : List OField) (ws : List (OField × Int)) (s : OState)
    (h : ∀ p, p ∈ ws → p.1 ∉ fs) : OAgree fs s (oApply ws s) := by
  induction ws generalizing s with
  | nil => intro f _; rfl
  | cons p ws ih =>
    obtain ⟨g, v⟩ := p
    intro f hf
    have hne : f ≠ g := fun e => h (g, v) (by simp) (e ▸ hf)
    have := ih (fun x => if x = g then some v else s x) (fun q hq => h q (List.mem_cons_of_mem _ hq)) f hf
    simp only [oApply]
    rw [← this]
    simp only [hne, if_false]

theorem objRun_consts {I O : Type} {e : EntryRow} {b : ObjBeh I O} (hr : ObjRespects e b)
    (s : OState) (H : List I) : OAgree e.consts s (objRun b s H) := by
  induction H generalizing s with
  | nil => intro f _; rfl
  | cons i is ih =>
    intro f hf
    have h1 := oApply_keeps e.consts (b.call s i).2 s (hr.consts_kept s i) f hf
    have h2 := ih (oApply (b.call s i).2 s) f hf
    simp only [objRun]
    rw [h1, h2]

end OV.C14
