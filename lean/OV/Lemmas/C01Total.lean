import Std.Data.String.ToNat
import OV.Lemmas.C01Names
/-!
# `_generate_unique_name` terminates: the fuel `used.length + 1` of the model always suffices
-/
namespace OV.C01

def candName (cand : Name) (k : Nat) : Name := cand ++ "_" ++ toString k

theorem candName_inj {cand : Name} {j k : Nat} (h : candName cand j = candName cand k) : j = k := by
  unfold candName at h
  have h2 := (String.append_right_inj (cand ++ "_")).mp h
  exact Nat.repr_injective h2

/-- A duplicate-free list contained in `u` is no longer than `u`. -/
theorem nodup_subset_length : ∀ (l u : List Name), l.Nodup → (∀ x, x ∈ l → x ∈ u) → l.length ≤ u.length := by
  intro l
  induction l with
  | nil => intro u _ _; simp
  | cons x xs ih =>
    intro u hn hs
    simp only [List.nodup_cons] at hn
    have hx : x ∈ u := hs x List.mem_cons_self
    have := ih (u.erase x) hn.2 (by
      intro y hy
      have hne : y ≠ x := fun he => hn.1 (he ▸ hy)
      exact (List.mem_erase_of_ne hne).mpr (hs y (List.mem_cons_of_mem _ hy)))
    rw [List.length_erase_of_mem hx] at this
    have hpos : 0 < u.length := List.length_pos_of_mem hx
    simp only [List.length_cons]
    omega

theorem genLoop_none {used : List Name} {cand : Name} :
    ∀ (fuel k : Nat), genLoop used cand fuel k = none →
      ∀ j, k ≤ j → j < k + fuel → candName cand j ∈ used := by
  intro fuel
  induction fuel with
  | zero => intro k _ j h1 h2; omega
  | succ n ih =>
    intro k h j h1 h2
    unfold genLoop at h
    simp only at h
    by_cases hc : used.contains (cand ++ "_" ++ toString k) = true
    · rw [if_pos hc] at h
      by_cases hjk : j = k
      · subst hjk; exact List.contains_iff_mem.mp hc
      · exact ih (k + 1) h j (by omega) (by omega)
    · rw [if_neg hc] at h; cases h

/-- **`_generate_unique_name` always returns** (the `while r in used` loop runs at most `|used| + 1`
times): the model's fuel is never the reason for an error. -/
theorem genUnique_total (cand : Name) (s : St) : ∃ r s', genUnique cand s = .ok (r, s') := by
  unfold genUnique
  by_cases hc : s.used.contains cand = true
  · rw [if_pos hc]
    cases hg : genLoop s.used cand (s.used.length + 1) s.next with
    | some p => obtain ⟨r, k⟩ := p; exact ⟨r, _, rfl⟩
    | none =>
      exfalso
      have hall := genLoop_none _ _ hg
      let l := (List.range (s.used.length + 1)).map (fun i => candName cand (s.next + i))
      have hnd : l.Nodup := by
        refine List.Pairwise.map _ ?_ List.nodup_range
        intro a b hab h
        have := candName_inj h
        omega
      have hsub : ∀ x, x ∈ l → x ∈ s.used := by
        intro x hx
        obtain ⟨i, hi, rfl⟩ := List.mem_map.mp hx
        have := List.mem_range.mp hi
        exact hall _ (by omega) (by omega)
      have := nodup_subset_length l s.used hnd hsub
      simp [l] at this
      omega
  · rw [if_neg hc]; exact ⟨cand, _, rfl⟩

end OV.C01
