import OV.Lemmas.C03BkA
/-!
# Scope well-formedness is preserved on fragment A

`ClosedL S nodes`: every input of every node is in the scope `S` or is an output of an earlier
node.  Through the node loop the invariant is: the emitted nodes followed by the pending ones are
closed over the scope extended by the initializers registered so far; every recorded alias target
is in that scope or defined by an emitted node; every name the original graph defined is still
defined.
-/
namespace OV.C03

/-- every node input is in scope: `S`, or an output of an earlier node -/
def ClosedL (S : List Name) : List Node → Prop
  | [] => True
  | n :: rest => (∀ x, some x ∈ n.inputs → x ∈ S) ∧ ClosedL (n.outputs ++ S) rest

theorem ClosedL_mono : ∀ (l : List Node) {S S' : List Name}, (∀ x, x ∈ S → x ∈ S') → ClosedL S l → ClosedL S' l
  | [], _, _, _, _ => trivial
  | n :: rest, S, S', h, hc => by
    refine ⟨fun x hx => h x (hc.1 x hx), ?_⟩
    apply ClosedL_mono rest (S := n.outputs ++ S) _ hc.2
    intro x hx
    rcases List.mem_append.mp hx with h1 | h1
    · exact List.mem_append_left _ h1
    · exact List.mem_append_right _ (h x h1)

theorem ClosedL_mid_inputs : ∀ (a : List Node) {S : List Name} {n : Node} {b : List Node},
    ClosedL S (a ++ n :: b) → ∀ x, some x ∈ n.inputs → x ∈ S ∨ ∃ m ∈ a, x ∈ m.outputs
  | [], _, _, _, hc, x, hx => Or.inl (hc.1 x hx)
  | m :: a', S, n, b, hc, x, hx => by
    have hc' : ClosedL (m.outputs ++ S) (a' ++ n :: b) := hc.2
    rcases ClosedL_mid_inputs a' hc' x hx with h | ⟨m', hm', h⟩
    · rcases List.mem_append.mp h with h1 | h1
      · exact Or.inr ⟨m, List.mem_cons_self, h1⟩
      · exact Or.inl h1
    · exact Or.inr ⟨m', List.mem_cons_of_mem _ hm', h⟩

theorem ClosedL_replace_mid : ∀ (a : List Node) {S : List Name} {n n' : Node} {b : List Node},
    ClosedL S (a ++ n :: b) → n'.outputs = n.outputs →
    (∀ x, some x ∈ n'.inputs → x ∈ S ∨ ∃ m ∈ a, x ∈ m.outputs) → ClosedL S (a ++ n' :: b)
  | [], S, n, n', b, hc, ho, hi => by
    refine ⟨?_, ?_⟩
    · intro x hx
      rcases hi x hx with h | ⟨m, hm, _⟩
      · exact h
      · exact absurd hm (by simp)
    · rw [ho]; exact hc.2
  | m :: a', S, n, n', b, hc, ho, hi => by
    refine ⟨hc.1, ?_⟩
    apply ClosedL_replace_mid a' (S := m.outputs ++ S) hc.2 ho
    intro x hx
    rcases hi x hx with h | ⟨m', hm', h⟩
    · exact Or.inl (List.mem_append_right _ h)
    · rcases List.mem_cons.mp hm' with rfl | hm''
      · exact Or.inl (List.mem_append_left _ h)
      · exact Or.inr ⟨m', hm'', h⟩

theorem ClosedL_remove_mid : ∀ (a : List Node) {S S' : List Name} {n : Node} {b : List Node},
    ClosedL S (a ++ n :: b) → (∀ x, x ∈ S → x ∈ S') → (∀ x, x ∈ n.outputs → x ∈ S') → ClosedL S' (a ++ b)
  | [], S, S', n, b, hc, h1, h2 => by
    apply ClosedL_mono b _ hc.2
    intro x hx
    rcases List.mem_append.mp hx with h | h
    · exact h2 x h
    · exact h1 x h
  | m :: a', S, S', n, b, hc, h1, h2 => by
    refine ⟨fun x hx => h1 x (hc.1 x hx), ?_⟩
    apply ClosedL_remove_mid a' (S := m.outputs ++ S) (S' := m.outputs ++ S') hc.2
    · intro x hx
      rcases List.mem_append.mp hx with h | h
      · exact List.mem_append_left _ h
      · exact List.mem_append_right _ (h1 x h)
    · intro x hx
      exact List.mem_append_right _ (h2 x hx)

/-- names nobody reads may leave the scope -/
theorem ClosedL_restrict : ∀ (l : List Node) {S S' : List Name},
    ClosedL S l → (∀ x, x ∈ S → (∃ n ∈ l, some x ∈ n.inputs) → x ∈ S') → ClosedL S' l
  | [], _, _, _, _ => trivial
  | n :: rest, S, S', hc, h => by
    refine ⟨fun x hx => h x (hc.1 x hx) ⟨n, List.mem_cons_self, hx⟩, ?_⟩
    apply ClosedL_restrict rest hc.2
    intro x hx hr
    rcases List.mem_append.mp hx with h1 | h1
    · exact List.mem_append_left _ h1
    · obtain ⟨m, hm, hmx⟩ := hr
      exact List.mem_append_right _ (h x h1 ⟨m, List.mem_cons_of_mem _ hm, hmx⟩)

/-! ### the invariant of the node loop -/

def outsOf (l : List Node) : List Name := l.flatMap (·.outputs)

theorem outsOf_append (a b : List Node) : outsOf (a ++ b) = outsOf a ++ outsOf b := by simp [outsOf]
theorem outsOf_cons (n : Node) (b : List Node) : outsOf (n :: b) = n.outputs ++ outsOf b := by simp [outsOf]

theorem outsOf_mid_eq (a b : List Node) (n n' : Node) (h : n'.outputs = n.outputs) :
    outsOf (a ++ n' :: b) = outsOf (a ++ n :: b) := by
  simp [outsOf_append, outsOf_cons, h]

theorem perm_fold (A : List Name) (a b : List Node) (n : Node) (o : Name) (ho : n.outputs = [o]) :
    List.Perm ((A ++ [o]) ++ outsOf (a ++ b)) (A ++ outsOf (a ++ n :: b)) := by
  rw [outsOf_append, outsOf_append, outsOf_cons, ho, List.append_assoc]
  apply List.Perm.append_left
  simp only [List.singleton_append]
  exact (List.perm_middle).symm

structure ClA (S0 : List Name) (D : Name → Prop) (P0 : List Name) (st : St) (acc todo : List Node) (ai : List (Name × String)) : Prop where
  closed : ClosedL (ai.map (·.1) ++ S0) (acc.reverse ++ todo)
  defs : ∀ x, D x → x ∈ ai.map (·.1) ++ S0 ∨ ∃ m, (m ∈ acc ∨ m ∈ todo) ∧ x ∈ m.outputs
  alias : ∀ x y, lookupA st.sym x = some (.alias y) → y ∈ ai.map (·.1) ++ S0 ∨ ∃ m ∈ acc, y ∈ m.outputs
  innf : ∀ m ∈ todo, ∀ x, some x ∈ m.inputs → NF x
  aliasNF : ∀ x y, lookupA st.sym x = some (.alias y) → NF y
  perm : List.Perm (ai.map (·.1) ++ outsOf (acc.reverse ++ todo)) P0

/-- what holds of the result of the node loop -/
def FinalCl (S0 : List Name) (D : Name → Prop) (P0 : List Name) (r : St × List Node × List (Name × String)) : Prop :=
  List.Perm (r.2.2.map (·.1) ++ outsOf r.2.1) P0 ∧
  ClosedL (r.2.2.map (·.1) ++ S0) r.2.1 ∧
  (∀ x, D x → x ∈ r.2.2.map (·.1) ++ S0 ∨ ∃ m ∈ r.2.1, x ∈ m.outputs) ∧
  (r.1.err.isSome = true ∨
    ∀ x y, lookupA r.1.sym x = some (.alias y) → y ∈ r.2.2.map (·.1) ++ S0 ∨ ∃ m ∈ r.2.1, y ∈ m.outputs)

theorem ClA.final {S0 : List Name} {D : Name → Prop} {P0 : List Name} {st st' : St} {acc todo : List Node} {ai : List (Name × String)}
    (h : ClA S0 D P0 st acc todo ai) (hs : st'.err.isSome = true ∨ st'.sym = st.sym) :
    FinalCl S0 D P0 (st', acc.reverse ++ todo, ai) := by
  refine ⟨h.perm, h.closed, ?_, ?_⟩
  · intro x hx
    rcases h.defs x hx with h1 | ⟨m, hm, hmx⟩
    · exact Or.inl h1
    · refine Or.inr ⟨m, ?_, hmx⟩
      rcases hm with hm | hm
      · exact List.mem_append_left _ (List.mem_reverse.mpr hm)
      · exact List.mem_append_right _ hm
  · rcases hs with hs | hs
    · exact Or.inl hs
    · right
      intro x y hx
      show _ ∨ ∃ m ∈ acc.reverse ++ todo, y ∈ m.outputs
      rw [hs] at hx
      rcases h.alias x y hx with h1 | ⟨m, hm, hmy⟩
      · exact Or.inl h1
      · exact Or.inr ⟨m, List.mem_append_left _ (List.mem_reverse.mpr hm), hmy⟩

theorem mem_acc_scope {S : List Name} {acc : List Node} {x : Name}
    (h : x ∈ S ∨ ∃ m ∈ acc.reverse, x ∈ m.outputs) : x ∈ S ∨ ∃ m ∈ acc, x ∈ m.outputs := by
  rcases h with h | ⟨m, hm, hx⟩
  · exact Or.inl h
  · exact Or.inr ⟨m, List.mem_reverse.mp hm, hx⟩

/-- after the alias substitution on the node at the head of `todo` -/
theorem ClA.subst {S0 : List Name} {D : Name → Prop} {P0 : List Name} {st st0 : St} {acc rest : List Node} {n0 : Node}
    {ai : List (Name × String)} (h : ClA S0 D P0 st acc (n0 :: rest) ai) (hs : SameIS st st0) :
    ClA S0 D P0 st0 acc (n0.setInputs (n0.inputs.map (substOne st)) :: rest) ai := by
  refine ⟨?_, ?_, ?_, ?_, ?_,
    (by rw [outsOf_mid_eq acc.reverse rest n0 _ (setInputs_outputs _ _)]; exact h.perm)⟩
  · apply ClosedL_replace_mid acc.reverse h.closed (setInputs_outputs _ _)
    intro x hx
    rw [setInputs_inputs] at hx
    obtain ⟨z, hz, hzx⟩ := List.mem_map.mp hx
    cases z with
    | none => simp [substOne] at hzx
    | some z' =>
      simp only [substOne, St.getSym, Option.bind] at hzx
      split at hzx
      · rename_i y hy
        have hyx : y = x := by simpa using hzx
        subst hyx
        rcases h.alias z' y hy with h1 | ⟨m, hm, hmy⟩
        · exact Or.inl h1
        · exact Or.inr ⟨m, List.mem_reverse.mpr hm, hmy⟩
      · have hzx' : z' = x := by simpa using hzx
        subst hzx'
        exact ClosedL_mid_inputs acc.reverse h.closed z' hz
  · intro x hx
    rcases h.defs x hx with h1 | ⟨m, hm, hmx⟩
    · exact Or.inl h1
    · rcases hm with hm | hm
      · exact Or.inr ⟨m, Or.inl hm, hmx⟩
      · rcases List.mem_cons.mp hm with rfl | hm'
        · exact Or.inr ⟨_, Or.inr List.mem_cons_self, by rw [setInputs_outputs]; exact hmx⟩
        · exact Or.inr ⟨m, Or.inr (List.mem_cons_of_mem _ hm'), hmx⟩
  · intro x y hx
    rw [hs.2] at hx
    exact h.alias x y hx
  · intro m hm x hx
    rcases List.mem_cons.mp hm with rfl | hm'
    · rw [setInputs_inputs] at hx
      obtain ⟨z, hz, hzx⟩ := List.mem_map.mp hx
      cases z with
      | none => simp [substOne] at hzx
      | some z' =>
        simp only [substOne, St.getSym, Option.bind] at hzx
        split at hzx
        · rename_i y hy
          have hyx : y = x := by simpa using hzx
          subst hyx
          exact h.aliasNF z' y hy
        · have hzx' : z' = x := by simpa using hzx
          subst hzx'
          exact h.innf n0 List.mem_cons_self z' hz
    · exact h.innf m (List.mem_cons_of_mem _ hm') x hx
  · intro x y hx
    rw [hs.2] at hx
    exact h.aliasNF x y hx

/-- the node at the head of `todo` is kept -/
theorem ClA.keep {S0 : List Name} {D : Name → Prop} {P0 : List Name} {st st' : St} {acc rest : List Node} {n : Node}
    {ai : List (Name × String)} (h : ClA S0 D P0 st acc (n :: rest) ai)
    (hsym : ∀ x y, lookupA st'.sym x = some (.alias y) → lookupA st.sym x = some (.alias y) ∨ n.inputs.contains (some y) = true) :
    ClA S0 D P0 st' (n :: acc) rest ai := by
  have hl : (n :: acc).reverse ++ rest = acc.reverse ++ n :: rest := by simp
  refine ⟨by rw [hl]; exact h.closed, ?_, ?_, fun m hm => h.innf m (List.mem_cons_of_mem _ hm), ?_,
    (by rw [hl]; exact h.perm)⟩
  · intro x hx
    rcases h.defs x hx with h1 | ⟨m, hm, hmx⟩
    · exact Or.inl h1
    · rcases hm with hm | hm
      · exact Or.inr ⟨m, Or.inl (List.mem_cons_of_mem _ hm), hmx⟩
      · rcases List.mem_cons.mp hm with rfl | hm'
        · exact Or.inr ⟨_, Or.inl List.mem_cons_self, hmx⟩
        · exact Or.inr ⟨m, Or.inr hm', hmx⟩
  · intro x y hx
    rcases hsym x y hx with h1 | h1
    · rcases h.alias x y h1 with h2 | ⟨m, hm, hmy⟩
      · exact Or.inl h2
      · exact Or.inr ⟨m, List.mem_cons_of_mem _ hm, hmy⟩
    · rcases mem_acc_scope (ClosedL_mid_inputs acc.reverse h.closed y (by simpa using h1)) with h2 | ⟨m, hm, hmy⟩
      · exact Or.inl h2
      · exact Or.inr ⟨m, List.mem_cons_of_mem _ hm, hmy⟩
  · intro x y hx
    rcases hsym x y hx with h1 | h1
    · exact h.aliasNF x y h1
    · exact h.innf n List.mem_cons_self y (by simpa using h1)

/-- the node at the head of `todo` is folded into the initializer `o` -/
theorem ClA.fold {S0 : List Name} {D : Name → Prop} {P0 : List Name} {st st' : St} {acc rest : List Node} {n : Node}
    {ai : List (Name × String)} (h : ClA S0 D P0 st acc (n :: rest) ai) (o : Name) (tok : String) (ho : n.outputs = [o])
    (hsym : ∀ x y, lookupA st'.sym x = some (.alias y) → lookupA st.sym x = some (.alias y)) :
    ClA S0 D P0 st' acc rest (ai ++ [(o, tok)]) := by
  have hsub : ∀ x, x ∈ ai.map (·.1) ++ S0 → x ∈ (ai ++ [(o, tok)]).map (·.1) ++ S0 := by
    intro x hx
    rcases List.mem_append.mp hx with h1 | h1
    · exact List.mem_append_left _ (by rw [List.map_append]; exact List.mem_append_left _ h1)
    · exact List.mem_append_right _ h1
  have ho' : o ∈ (ai ++ [(o, tok)]).map (·.1) ++ S0 := by
    apply List.mem_append_left
    rw [List.map_append]
    exact List.mem_append_right _ (by simp)
  refine ⟨?_, ?_, ?_, fun m hm => h.innf m (List.mem_cons_of_mem _ hm), fun x y hx => h.aliasNF x y (hsym x y hx),
    (by
      have : (ai ++ [(o, tok)]).map (·.1) = ai.map (·.1) ++ [o] := by simp
      rw [this]
      exact (perm_fold (ai.map (·.1)) acc.reverse rest n o ho).trans h.perm)⟩
  · apply ClosedL_remove_mid acc.reverse h.closed hsub
    intro x hx
    rw [ho] at hx
    have : x = o := by simpa using hx
    rw [this]; exact ho'
  · intro x hx
    rcases h.defs x hx with h1 | ⟨m, hm, hmx⟩
    · exact Or.inl (hsub x h1)
    · rcases hm with hm | hm
      · exact Or.inr ⟨m, Or.inl hm, hmx⟩
      · rcases List.mem_cons.mp hm with rfl | hm'
        · rw [ho] at hmx
          have : x = o := by simpa using hmx
          rw [this]; exact Or.inl ho'
        · exact Or.inr ⟨m, Or.inr hm', hmx⟩
  · intro x y hx
    rcases h.alias x y (hsym x y hx) with h1 | h1
    · exact Or.inl (hsub y h1)
    · exact Or.inr h1

/-- the node at the head of `todo` is replaced by a node reading some of its inputs, with its outputs -/
theorem ClA.repl {S0 : List Name} {D : Name → Prop} {P0 : List Name} {st st' : St} {acc rest : List Node} {n m : Node}
    {ai : List (Name × String)} (h : ClA S0 D P0 st acc (n :: rest) ai) (hout : m.outputs = n.outputs)
    (hin : ∀ x, some x ∈ m.inputs → some x ∈ n.inputs)
    (hsym : ∀ x y, lookupA st'.sym x = some (.alias y) → lookupA st.sym x = some (.alias y)) :
    ClA S0 D P0 st' acc (m :: rest) ai := by
  refine ⟨?_, ?_, ?_, ?_, fun x y hx => h.aliasNF x y (hsym x y hx),
    (by rw [outsOf_mid_eq acc.reverse rest n m hout]; exact h.perm)⟩
  · apply ClosedL_replace_mid acc.reverse h.closed hout
    intro x hx
    exact ClosedL_mid_inputs acc.reverse h.closed x (hin x hx)
  · intro x hx
    rcases h.defs x hx with h1 | ⟨k, hk, hkx⟩
    · exact Or.inl h1
    · rcases hk with hk | hk
      · exact Or.inr ⟨k, Or.inl hk, hkx⟩
      · rcases List.mem_cons.mp hk with rfl | hk'
        · exact Or.inr ⟨m, Or.inr List.mem_cons_self, by rw [hout]; exact hkx⟩
        · exact Or.inr ⟨k, Or.inr (List.mem_cons_of_mem _ hk'), hkx⟩
  · intro x y hx
    exact h.alias x y (hsym x y hx)
  · intro k hk x hx
    rcases List.mem_cons.mp hk with rfl | hk'
    · exact h.innf n List.mem_cons_self x (hin x hx)
    · exact h.innf k (List.mem_cons_of_mem _ hk') x hx

/-- **The scope invariant holds through the node loop on fragment A.** -/
theorem visitNodes_clA (ctx : Ctx) (hnf : ctx.isFunction = false) (vg : St → Graph → St × Graph) (S0 : List Name) (D : Name → Prop) (P0 : List Name) :
    ∀ (f : Nat) (todo : List Node) (st : St) (acc : List Node) (ai : List (Name × String)),
      (∀ n ∈ todo, FragBk n) → ClA S0 D P0 st acc todo ai →
      FinalCl S0 D P0 (visitNodes ctx vg f st todo acc ai) := by
  intro f
  induction f with
  | zero =>
    intro todo st acc ai _ hb
    simp only [visitNodes]
    exact hb.final (Or.inl rfl)
  | succ f ih =>
    intro todo st acc ai hfr hb
    cases todo with
    | nil =>
      simp only [visitNodes]
      have := hb.final (st' := st) (Or.inr rfl)
      simpa using this
    | cons n0 rest =>
      have hfr0 := hfr n0 List.mem_cons_self
      have hfrrest : ∀ m ∈ rest, FragBk m := fun m hm => hfr m (List.mem_cons_of_mem _ hm)
      have stuck : ∀ (s : St), s.err.isSome = true → FinalCl S0 D P0 (s, acc.reverse ++ n0 :: rest, ai) :=
        fun s h2 => hb.final (Or.inl h2)
      obtain ⟨hspec1, hspec2⟩ := substInputs_spec st n0
      have hb0 := hb.subst hspec2
      generalize hnn : (substInputs st n0).1 = n at hspec1
      generalize hst0 : (substInputs st n0).2 = st0 at hspec2 hb0
      rw [← hspec1] at hb0
      have hnsubs : n.subs = [] := by rw [hspec1, setInputs_subs]; exact hfr0.1
      have hnout : n.outputs = n0.outputs := by rw [hspec1, setInputs_outputs]
      have keepCase : ∀ (st' : St),
          (∀ x y, lookupA st'.sym x = some (.alias y) → lookupA st0.sym x = some (.alias y) ∨ n.inputs.contains (some y) = true) →
          FinalCl S0 D P0 (visitNodes ctx vg f st' rest (n :: acc) ai) :=
        fun st' hsym => ih rest st' (n :: acc) ai hfrrest (hb0.keep hsym)
      have cascade : ∀ (stG : St) (v : Nat),
          (∀ x y, lookupA stG.sym x = some (.alias y) → lookupA st0.sym x = some (.alias y) ∨
            (n.outputs.contains x = true ∧ n.inputs.contains (some y) = true)) →
          FinalCl S0 D P0
            (match gateCascade ctx stG n v with
              | (PRes.error m, st) => ({ st with err := some m }, acc.reverse ++ n0 :: rest, ai)
              | (PRes.keep n', st) => visitNodes ctx vg f (visitSubs vg st n'.subs).1 rest (n'.setSubs (visitSubs vg st n'.subs).2 :: acc) ai
              | (PRes.repl n' r, st) =>
                match applyRepl ctx st n' r with
                | .error m => ({ st with err := some m }, acc.reverse ++ n0 :: rest, ai)
                | .ok (newNodes, inits, st) => visitNodes ctx vg f st (newNodes ++ rest) acc (ai ++ inits)) := by
        intro stG v hsymG
        rcases gateCascade_cases ctx hnf stG n v with ⟨st', hg, hs'⟩ | ⟨m, st', hg⟩ | ⟨c, st2, st3, o, hs2, hora, ho, hsubs, hnc, hins, hg, hsym3, hinfo3⟩
        · rw [hg]
          simp only [hnsubs, visitSubs, setSubs_nil n hnsubs]
          exact keepCase st' (fun x y hx => by
            rw [hs'.2] at hx
            rcases hsymG x y hx with h | h
            · exact Or.inl h
            · exact Or.inr h.2)
        · rw [hg]
          exact stuck { st' with err := some m } rfl
        · rw [hg]
          obtain ⟨st4, happ, hs4, l, hst4⟩ := applyRepl_fold ctx hnf st3 n o (freshOf st2) c.tok ho
          simp only [happ, List.nil_append]
          have hfold := inheritInfo_fold st2 st3 o (freshOf st2) c hinfo3
          apply ih rest _ acc (ai ++ [(o, c.tok)]) hfrrest
          apply hb0.fold o c.tok ho
          intro x y hx
          rw [hs4.2, hfold.1, hsym3, hs2.2, lookupA_erase] at hx
          by_cases hxo : x = o
          · simp [hxo] at hx
          · simp only [hxo, if_false] at hx
            rcases hsymG x y hx with h | h
            · exact h
            · exfalso
              rw [ho] at h
              simp at h
              exact hxo h.1
      simp only [visitNodes]
      split
      · rename_i herr
        exact stuck st herr
      · rw [processNode_noref ctx st n0 hfr0.2.1, hnn, hst0]
        have hdom : n.domain = n0.domain := by rw [hspec1, setInputs_domain]
        rcases hfr0.2.2 with hP | hK | hIcls | hR
        · have hev : ∀ v, lookupEvaluator n v = none := fun v => by rw [hspec1, lookupEvaluator_setInputs]; exact hP.2 v
          simp only [hP.1, Bool.false_eq_true, if_false]
          cases himp : lookupA ctx.imports n0.domain with
          | none =>
            simp only [hnsubs, visitSubs, setSubs_nil n hnsubs]
            exact keepCase _ (fun x y hx => Or.inl hx)
          | some v =>
            simp only [evalPartial, hev, finishNode]
            exact cascade st0 v (fun x y hx => Or.inl hx)
        · have hev : ∀ v, lookupEvaluator n v = none := by
            intro v
            rw [hspec1, lookupEvaluator_setInputs]
            have hk := hK.1
            simp only [Node.isOp, Bool.and_eq_true, beq_iff_eq] at hk
            unfold lookupEvaluator
            split
            · rfl
            · simp [hk.1]
          have hisop : n.isOp "Constant" = true := by rw [hspec1, isOp_setInputs]; exact hK.1
          have hpsym := (processConstant_facts ctx st0 n).1
          simp only [hK.1, if_true]
          cases himp : lookupA ctx.imports n0.domain with
          | none =>
            simp only [hnsubs, visitSubs, setSubs_nil n hnsubs]
            exact keepCase _ (fun x y hx => Or.inl (by
              have : ((processConstant ctx st0 n).note "gate:noimport").sym = st0.sym := hpsym
              rw [this] at hx; exact hx))
          | some v =>
            simp only [evalPartial, hev, finishNode, gateCascade, hisop, if_true]
            simp only [hnsubs, visitSubs, setSubs_nil n hnsubs]
            exact keepCase _ (fun x y hx => Or.inl (by
              have : ((processConstant ctx st0 n).note "gate:constant").sym = st0.sym := hpsym
              rw [this] at hx; exact hx))
        · obtain ⟨hiop, hidom, x0, o, hin0, hout0⟩ := hIcls
          have hnc : n0.isOp "Constant" = false := by simp [Node.isOp, hiop]
          simp only [hnc, Bool.false_eq_true, if_false]
          cases himp : lookupA ctx.imports n0.domain with
          | none =>
            simp only [hnsubs, visitSubs, setSubs_nil n hnsubs]
            exact keepCase _ (fun x y hx => Or.inl hx)
          | some v =>
            have hxin : ∃ x, n.inputs = [some x] := by
              rw [hspec1, setInputs_inputs, hin0]
              simp only [List.map_cons, List.map_nil, substOne]
              split
              · exact ⟨_, rfl⟩
              · exact ⟨_, rfl⟩
            obtain ⟨x, hxin⟩ := hxin
            have hno : n.outputs = [o] := by rw [hnout, hout0]
            obtain ⟨st2, hep, hsym2, _, _, _, _⟩ := evalPartial_identity st0 n v x o
              (by rw [hspec1, setInputs_op]; exact hiop) (by rw [hdom]; exact hidom) hxin hno
            simp only [hep, finishNode]
            exact cascade st2 v (fun x' y hx => by
              rw [hsym2, lookupA_insert] at hx
              by_cases hxo : x' = o
              · simp only [hxo, if_true, Option.some.injEq, SymVal.alias.injEq] at hx
                right
                exact ⟨by rw [hxo, hno]; simp, by rw [hxin, ← hx]; simp⟩
              · simp only [hxo, if_false] at hx
                exact Or.inl hx)
        · obtain ⟨hnc, ⟨o, hout0⟩, hshape⟩ := hR
          simp only [hnc, Bool.false_eq_true, if_false]
          cases himp : lookupA ctx.imports n0.domain with
          | none =>
            simp only [hnsubs, visitSubs, setSubs_nil n hnsubs]
            exact keepCase _ (fun x y hx => Or.inl hx)
          | some v =>
            have hno : n.outputs = [o] := by rw [hnout, hout0]
            have hes : EvShape n := by
              rw [hspec1]; exact hshape _ (substOne_shape st n0.inputs)
            simp only []
            generalize hE : evalPartial n v st0 = e
            obtain ⟨r1, st2⟩ := e
            rcases (hes st0 v).2 with ⟨hr, hsym⟩ | ⟨x, opn, attrs, hr, hxin, hsym, hkind⟩
            · rw [hE] at hr hsym
              simp only [] at hr hsym
              subst hr
              simp only [finishNode]
              exact cascade st2 v (fun x y hx => Or.inl (by rw [hsym] at hx; exact hx))
            · rw [hE] at hr hsym
              simp only [] at hr hsym
              subst hr
              simp only [finishNode]
              have hxfv : x ≠ freshOf st0 := hb0.innf n List.mem_cons_self x hxin st0.fresh
              obtain ⟨l, happ⟩ := applyRepl_one ctx hnf st2 n o (freshOf st0) x opn attrs hno hxfv
              have happ' : applyRepl ctx st2 n (oneRepl st0 opn x attrs) = .ok ([mkNode opn [some x] [o] attrs], [],
                  replState st2 n o (freshOf st0) (mkNode opn [some x] [o] attrs) l) := happ
              simp only [happ', List.cons_append, List.nil_append, List.append_nil]
              have hfr' : ∀ k ∈ mkNode opn [some x] [o] attrs :: rest, FragBk k := by
                intro k hk
                rcases List.mem_cons.mp hk with rfl | hk'
                · rcases hkind with ⟨rfl, rfl, _⟩ | ⟨rfl, ⟨t, rfl⟩, _, _⟩
                  · exact ⟨rfl, rfl, Or.inr (Or.inr (Or.inl ⟨rfl, rfl, x, o, rfl, rfl⟩))⟩
                  · exact ⟨rfl, rfl, Or.inr (Or.inr (Or.inr (clsX_cast _ x o rfl rfl rfl)))⟩
                · exact hfrrest k hk'
              apply ih (mkNode opn [some x] [o] attrs :: rest) _ acc ai hfr'
              apply hb0.repl (by rw [hno]; rfl)
              · intro z hz
                have : z = x := by simpa [mkNode, Node.inputs] using hz
                rw [this]; exact hxin
              · intro x' y hx
                rw [(sameIS_replState st2 n o _ _ l).2, inheritInfo_sym, lookupA_erase] at hx
                by_cases hxo : x' = o
                · simp [hxo] at hx
                · simp only [hxo, if_false] at hx
                  rw [hsym] at hx
                  exact hx

/-! ### graph level -/

/-- scope well-formedness of a graph (one level): every node input is an initializer, a formal input, a name of the
enclosing scope `sc`, or an output of an earlier node; every graph output is defined -/
def GraphClosed (sc : List Name) (g : Graph) : Prop :=
  ClosedL (g.inits.map (·.1) ++ (g.inputs ++ sc)) g.nodes ∧
  ∀ o, o ∈ g.outputs → o ∈ g.inits.map (·.1) ++ (g.inputs ++ sc) ∨ ∃ m ∈ g.nodes, o ∈ m.outputs

theorem ClosedL_map_io (f : Node → Node) (hi : ∀ n, (f n).inputs = n.inputs) (ho : ∀ n, (f n).outputs = n.outputs) :
    ∀ (l : List Node) (S : List Name), ClosedL S l → ClosedL S (l.map f)
  | [], _, _ => trivial
  | n :: rest, S, hc => by
    refine ⟨by rw [hi]; exact hc.1, ?_⟩
    rw [ho]
    exact ClosedL_map_io f hi ho rest _ hc.2

theorem setSubs_inputs (n : Node) (l : List (String × Graph)) : (n.setSubs l).inputs = n.inputs := by cases n; rfl
theorem setSubs_outputs (n : Node) (l : List (String × Graph)) : (n.setSubs l).outputs = n.outputs := by cases n; rfl

theorem innf_of_cnt (nodes : List Node) (h : ∀ k : Nat, cnt ("%" ++ toString k) nodes = 0) :
    ∀ m ∈ nodes, ∀ x, some x ∈ m.inputs → NF x := by
  intro m hm x hx k e
  have h0 := h k
  unfold cnt at h0
  have : some ("%" ++ toString k) ∈ nodes.flatMap fun n => n.inputs :=
    List.mem_flatMap.mpr ⟨m, hm, by rw [← e]; exact hx⟩
  have := List.count_pos_iff.mpr this
  omega

/-- single assignment (one level): initializer names and node outputs are pairwise distinct, and no node output is a formal input -/
def SSA (g : Graph) : Prop :=
  (g.inits.map (·.1) ++ outsOf g.nodes).Nodup ∧ ∀ o, o ∈ outsOf g.nodes → o ∉ g.inputs

theorem outsOf_map_io (f : Node → Node) (ho : ∀ n, (f n).outputs = n.outputs) : ∀ (l : List Node), outsOf (l.map f) = outsOf l
  | [] => rfl
  | n :: r => by
    rw [List.map_cons, outsOf_cons, outsOf_cons, ho, outsOf_map_io f ho r]

theorem closedA_aux (k : Nat) (ctx : Ctx) (hnf : ctx.isFunction = false) (info : List (Name × VInfo)) (g : Graph)
    (hfr : ∀ n ∈ g.nodes, FragBk n) (hnofresh : ∀ k : Nat, cnt ("%" ++ toString k) g.nodes = 0)
    (sc : List Name) (hcl : GraphClosed sc g) :
    GraphClosed sc (pruneInits (visitGraph ctx (k + 1) (initialState g info) g).1.removed (k + 1)
      (visitGraph ctx (k + 1) (initialState g info) g).2) ∧
    (SSA g → SSA (pruneInits (visitGraph ctx (k + 1) (initialState g info) g).1.removed (k + 1)
      (visitGraph ctx (k + 1) (initialState g info) g).2)) := by
  have hprune := prune_ok_fragmentA k ctx hnf info g hfr hnofresh
  generalize hR : (visitGraph ctx (k + 1) (initialState g info) g).1.removed = R at hprune ⊢
  let S0 := g.inits.map (·.1) ++ (g.inputs ++ sc)
  let D : Name → Prop := fun x => x ∈ S0 ∨ ∃ m ∈ g.nodes, x ∈ m.outputs
  have hinit : ClA S0 D (outsOf g.nodes) (initialState g info) [] g.nodes [] := by
    refine ⟨by simpa using hcl.1, ?_, ?_, innf_of_cnt g.nodes hnofresh, ?_, by simp⟩
    · intro x hx
      rcases hx with h | ⟨m, hm, hmx⟩
      · exact Or.inl (by simpa using h)
      · exact Or.inr ⟨m, Or.inr hm, hmx⟩
    · intro x y hx
      rw [(initialState_sym g info).1] at hx
      simp [lookupA] at hx
    · intro x y hx
      rw [(initialState_sym g info).1] at hx
      simp [lookupA] at hx
  have hfin := visitNodes_clA ctx hnf (visitGraph ctx k) S0 D (outsOf g.nodes)
    (stepFuel g + 16 * (initialState g info).uses.length) g.nodes (initialState g info) [] [] hfr hinit
  generalize hvn : visitNodes ctx (visitGraph ctx k) (stepFuel g + 16 * (initialState g info).uses.length)
    (initialState g info) g.nodes [] [] = r at hfin
  obtain ⟨stN, L, added⟩ := r
  obtain ⟨hperm, hc, hdefs, halias⟩ := hfin
  simp only [] at hperm hc hdefs halias
  have hres : ∃ outs, (visitGraph ctx (k + 1) (initialState g info) g).2 = Graph.mk g.inputs (g.inits ++ added) L outs ∧
      (∀ o', o' ∈ outs → o' ∈ g.outputs ∨ (stN.err.isSome = false ∧ ∃ o, lookupA stN.sym o = some (.alias o'))) := by
    simp only [visitGraph, hvn]
    split
    · exact ⟨_, rfl, fun o' ho' => Or.inl ho'⟩
    · rename_i herr
      refine ⟨_, rfl, ?_⟩
      intro o' ho'
      rcases replaceOutputs_mem L g.outputs stN o' ho' with h | h
      · exact Or.inl h
      · exact Or.inr ⟨by simpa using herr, h⟩
  obtain ⟨outs, hshape, houts⟩ := hres
  -- nothing popped is read by a node or is an output of the result
  have hrm : ∀ x, R.contains x = true →
      outs.contains x = false ∧ ∀ n ∈ L, n.inputs.contains (some x) = false := by
    intro x hx
    have h := hprune x hx
    rw [hshape] at h
    exact ⟨h.2.1, h.2.2⟩
  -- the result
  have hfg : pruneInits R (k + 1) (visitGraph ctx (k + 1) (initialState g info) g).2 =
      Graph.mk g.inputs ((g.inits ++ added).filter fun p => !R.contains p.1)
        (L.map fun n => n.setSubs (n.subs.map fun (p : String × Graph) => (p.1, pruneInits R k p.2))) outs := by
    simp only [hshape, pruneInits, Graph.inputs, Graph.inits, Graph.nodes, Graph.outputs]
  -- names of the scope that survive
  have hkeep : ∀ x, x ∈ added.map (·.1) ++ S0 → R.contains x = false →
      x ∈ ((g.inits ++ added).filter fun p => !R.contains p.1).map (·.1) ++ (g.inputs ++ sc) := by
    intro x hx hnr
    have hmemf : ∀ (l : List (Name × String)), x ∈ l.map (·.1) → l ⊆ g.inits ++ added →
        x ∈ ((g.inits ++ added).filter fun p => !R.contains p.1).map (·.1) := by
      intro l hl hsub
      obtain ⟨p, hp, hpx⟩ := List.mem_map.mp hl
      exact List.mem_map.mpr ⟨p, List.mem_filter.mpr ⟨hsub hp, by rw [hpx, hnr]; rfl⟩, hpx⟩
    rcases List.mem_append.mp hx with h | h
    · exact List.mem_append_left _ (hmemf added h (fun p hp => List.mem_append_right _ hp))
    · rcases List.mem_append.mp h with h' | h'
      · exact List.mem_append_left _ (hmemf g.inits h' (fun p hp => List.mem_append_left _ hp))
      · exact List.mem_append_right _ h'
  rw [hfg]
  refine ⟨⟨?_, ?_⟩, ?_⟩
  · show ClosedL _ (L.map _)
    apply ClosedL_map_io _ (fun n => setSubs_inputs n _) (fun n => setSubs_outputs n _)
    apply ClosedL_restrict L hc
    intro x hx ⟨n, hn, hnx⟩
    apply hkeep x hx
    cases hcx : R.contains x with
    | false => rfl
    | true =>
      have := (hrm x hcx).2 n hn
      rw [List.contains_iff_mem.mpr hnx] at this
      exact absurd this (by decide)
  · intro o' ho'
    have ho'' : o' ∈ outs := ho'
    have hnr : R.contains o' = false := by
      cases hcx : R.contains o' with
      | false => rfl
      | true =>
        have := (hrm o' hcx).1
        rw [List.contains_iff_mem.mpr ho''] at this
        exact absurd this (by decide)
    have hscope : o' ∈ added.map (·.1) ++ S0 ∨ ∃ m ∈ L, o' ∈ m.outputs := by
      rcases houts o' ho'' with h | ⟨herr, o, ho⟩
      · exact hdefs o' (by
          rcases hcl.2 o' h with h1 | h1
          · exact Or.inl h1
          · exact Or.inr h1)
      · rcases halias with he | ha
        · rw [herr] at he; exact absurd he (by decide)
        · exact ha o o' ho
    rcases hscope with h | ⟨m, hm, hmo⟩
    · exact Or.inl (hkeep o' h hnr)
    · exact Or.inr ⟨m.setSubs _, List.mem_map.mpr ⟨m, hm, rfl⟩, by rw [setSubs_outputs]; exact hmo⟩

  · intro hssa
    have hout : outsOf (L.map fun n => n.setSubs (n.subs.map fun (p : String × Graph) => (p.1, pruneInits R k p.2))) = outsOf L :=
      outsOf_map_io _ (fun n => setSubs_outputs n _) L
    refine ⟨?_, ?_⟩
    · show (List.map (·.1) ((g.inits ++ added).filter fun p => !R.contains p.1) ++ outsOf (L.map _)).Nodup
      rw [hout]
      have h1 : (g.inits.map (·.1) ++ (added.map (·.1) ++ outsOf L)).Nodup :=
        (List.Perm.nodup_iff (List.Perm.append_left _ hperm)).mpr hssa.1
      have h2 : ((g.inits ++ added).map (·.1) ++ outsOf L).Nodup := by
        rw [List.map_append, List.append_assoc]; exact h1
      exact List.Nodup.sublist (List.Sublist.append (List.Sublist.map _ List.filter_sublist) (List.Sublist.refl _)) h2
    · intro o ho
      have ho' : o ∈ outsOf L := by
        have : o ∈ outsOf (L.map fun n => n.setSubs (n.subs.map fun (p : String × Graph) => (p.1, pruneInits R k p.2))) := ho
        rw [hout] at this; exact this
      exact hssa.2 o ((List.Perm.mem_iff hperm).mp (List.mem_append_right _ ho'))

/-- **Scope well-formedness is preserved on fragment A** (`fold_wf`, one level, `_clear_unused_initializers` included). -/
theorem foldGraph_closedA (ctx : Ctx) (hnf : ctx.isFunction = false) (info : List (Name × VInfo)) (g : Graph)
    (hfr : ∀ n ∈ g.nodes, FragBk n) (hnofresh : ∀ k : Nat, cnt ("%" ++ toString k) g.nodes = 0)
    (sc : List Name) (hcl : GraphClosed sc g) : GraphClosed sc (foldGraph ctx info g).2 :=
  (closedA_aux 7 ctx hnf info g hfr hnofresh sc hcl).1

theorem ClosedL_of_all : ∀ (l : List Node) (S : List Name), (∀ n ∈ l, ∀ x, some x ∈ n.inputs → x ∈ S) → ClosedL S l
  | [], _, _ => trivial
  | n :: rest, S, h => by
    refine ⟨h n List.mem_cons_self, ?_⟩
    apply ClosedL_of_all rest
    intro m hm x hx
    exact List.mem_append_right _ (h m (List.mem_cons_of_mem _ hm) x hx)

/-- every graph is scope-well-formed relative to an enclosing scope that has all the names it reads -/
theorem graphClosed_self (g : Graph) :
    GraphClosed ((g.nodes.flatMap fun n => n.inputs.filterMap id) ++ g.outputs) g := by
  refine ⟨?_, ?_⟩
  · apply ClosedL_of_all
    intro n hn x hx
    apply List.mem_append_right
    apply List.mem_append_right
    apply List.mem_append_left
    exact List.mem_flatMap.mpr ⟨n, hn, List.mem_filterMap.mpr ⟨some x, hx, rfl⟩⟩
  · intro o ho
    left
    exact List.mem_append_right _ (List.mem_append_right _ (List.mem_append_right _ ho))

/-- **Single assignment is preserved on fragment A.** -/
theorem foldGraph_ssaA (ctx : Ctx) (hnf : ctx.isFunction = false) (info : List (Name × VInfo)) (g : Graph)
    (hfr : ∀ n ∈ g.nodes, FragBk n) (hnofresh : ∀ k : Nat, cnt ("%" ++ toString k) g.nodes = 0)
    (hssa : SSA g) : SSA (foldGraph ctx info g).2 :=
  (closedA_aux 7 ctx hnf info g hfr hnofresh _ (graphClosed_self g)).2 hssa

end OV.C03
