import OV.Model.C01Export
import OV.Lemmas.C01Scope
/-! Lemmas about `exportModel` (C02): structure, well-formedness and attribute references. -/
namespace OV.C01

mutual
theorem exportNode_outs (ds : List (Name × Option String)) : ∀ n : Node, (exportNode ds n).outs = n.outs
  | .op _ _ _ _ _ => rfl
  | .ifN _ _ _ _ _ _ => rfl
  | .loop _ _ _ _ _ _ _ => rfl
end

theorem exportNodes_topDefs (ds : List (Name × Option String)) : ∀ ns : List Node,
    topDefs (exportNodes ds ns) = topDefs ns
  | [] => rfl
  | n :: ns => by
    simp only [exportNodes, topDefs_cons, exportNode_outs, exportNodes_topDefs ds ns]

mutual
theorem exportNode_allDefs (ds : List (Name × Option String)) : ∀ n : Node, (exportNode ds n).allDefs = n.allDefs
  | .op _ _ _ _ _ => rfl
  | .ifN c outs tn to en eo => by
    simp only [exportNode, Node.allDefs, exportNodes_allDefs ds tn, exportNodes_allDefs ds en]
  | .loop b c inits outs bi bn bo => by
    simp only [exportNode, Node.allDefs, exportNodes_allDefs ds bn]
theorem exportNodes_allDefs (ds : List (Name × Option String)) : ∀ ns : List Node,
    allDefsL (exportNodes ds ns) = allDefsL ns
  | [] => rfl
  | n :: ns => by
    simp only [exportNodes, allDefsL, exportNode_allDefs ds n, exportNodes_allDefs ds ns]
end

mutual
theorem exportNode_wf (ds : List (Name × Option String)) : ∀ (n : Node) (vis : List Name),
    wfNode vis (exportNode ds n) = wfNode vis n
  | .op _ _ _ _ _, vis => rfl
  | .ifN c outs tn to en eo, vis => by
    simp only [exportNode, wfNode, exportNodes_wf ds tn vis, exportNodes_wf ds en vis, exportNodes_topDefs]
  | .loop b c inits outs bi bn bo, vis => by
    simp only [exportNode, wfNode, exportNodes_wf ds bn (bi ++ vis), exportNodes_topDefs]
theorem exportNodes_wf (ds : List (Name × Option String)) : ∀ (ns : List Node) (vis : List Name),
    wfNodes vis (exportNodes ds ns) = wfNodes vis ns
  | [], vis => rfl
  | n :: ns, vis => by
    simp only [exportNodes, wfNodes, exportNode_wf ds n vis, exportNode_outs, exportNodes_wf ds ns (n.outs ++ vis)]
end

theorem exportModel_ok {ds : List (Name × Option String)} {g g' : Graph} (h : exportModel ds g = .ok g') :
    ds.any (fun d => d.2.isNone) = false ∧ g' = { g with attrs := [], nodes := exportNodes ds g.nodes } := by
  unfold exportModel at h
  cases hb : ds.any (fun d => d.2.isNone) with
  | true => simp [hb] at h
  | false =>
    simp only [hb, Bool.false_eq_true, if_false] at h
    cases h
    exact ⟨rfl, rfl⟩

theorem exportModel_wf {ds : List (Name × Option String)} {g g' : Graph} (h : exportModel ds g = .ok g')
    (hw : wfGraph g = true) : wfGraph g' = true := by
  obtain ⟨_, rfl⟩ := exportModel_ok h
  unfold wfGraph Graph.allDefs at hw ⊢
  simpa only [exportNodes_allDefs, exportNodes_wf, exportNodes_topDefs] using hw

theorem defaultOf_some_of_all {ds : List (Name × Option String)} (hall : ds.any (fun d => d.2.isNone) = false) :
    ∀ {p : Name} {v : Option String}, defaultOf ds p = some v → ∃ r, v = some r := by
  induction ds with
  | nil => intro p v h; simp [defaultOf] at h
  | cons d rest ih =>
    obtain ⟨k, dv⟩ := d
    simp only [List.any_cons, Bool.or_eq_false_iff] at hall
    intro p v h
    unfold defaultOf at h
    by_cases hk : k = p
    · simp only [hk, if_true] at h
      cases h
      cases dv with
      | none => simp at hall
      | some r => exact ⟨r, rfl⟩
    · simp only [hk, if_false] at h
      exact ih hall.2 h

mutual
theorem exportNode_refs (ds : List (Name × Option String)) (hall : ds.any (fun d => d.2.isNone) = false) :
    ∀ (n : Node), (∀ p, p ∈ attrRefsNode n → defaultOf ds p ≠ none) → attrRefsNode (exportNode ds n) = []
  | .op dom name ins outs attrs, h => by
    simp only [exportNode, attrRefsNode]
    rw [List.filterMap_eq_nil_iff]
    intro kv hkv
    obtain ⟨kv0, hm, rfl⟩ := List.mem_map.mp hkv
    obtain ⟨k, a⟩ := kv0
    cases a with
    | const r => simp [exportAttr]
    | ref p =>
      have hp : defaultOf ds p ≠ none := h p (by
        simp only [attrRefsNode, List.mem_filterMap]
        exact ⟨(k, .ref p), hm, rfl⟩)
      cases hd : defaultOf ds p with
      | none => exact absurd hd hp
      | some v =>
        obtain ⟨r, rfl⟩ := defaultOf_some_of_all hall hd
        simp [exportAttr, hd]
  | .ifN c outs tn to en eo, h => by
    simp only [exportNode, attrRefsNode]
    rw [exportNodes_refs ds hall tn (fun p hp => h p (by simp [attrRefsNode, hp])),
        exportNodes_refs ds hall en (fun p hp => h p (by simp [attrRefsNode, hp]))]
    rfl
  | .loop b c inits outs bi bn bo, h => by
    simp only [exportNode, attrRefsNode]
    exact exportNodes_refs ds hall bn (fun p hp => h p (by simp [attrRefsNode, hp]))
theorem exportNodes_refs (ds : List (Name × Option String)) (hall : ds.any (fun d => d.2.isNone) = false) :
    ∀ (ns : List Node), (∀ p, p ∈ attrRefs ns → defaultOf ds p ≠ none) → attrRefs (exportNodes ds ns) = []
  | [], _ => rfl
  | n :: ns, h => by
    simp only [exportNodes, attrRefs]
    rw [exportNode_refs ds hall n (fun p hp => h p (by simp [attrRefs, hp])),
        exportNodes_refs ds hall ns (fun p hp => h p (by simp [attrRefs, hp]))]
    rfl
end

end OV.C01
