import OV.Model.C03Pass
/-!
# Helper lemmas for C04: the formal inputs are never popped

`gins` (formal inputs of all graphs) is written once by `initialState`; `removed` grows only in
`applyRepl` (`_clear_unused_initializers`) and only by names that are not graph inputs.
-/
namespace OV.C03

/-- `G` is the set of graph inputs and nothing in it was popped. -/
def Kept (G : List Name) (st : St) : Prop := st.gins = G ∧ ∀ y, y ∈ st.removed → G.contains y = false

theorem Kept.of_frame {G : List Name} {st st' : St} (h : Kept G st) (h1 : st'.gins = st.gins)
    (h2 : st'.removed = st.removed) : Kept G st' := by
  refine ⟨h1.trans h.1, ?_⟩
  rw [h2]
  exact h.2

/-- same `gins` and `removed` -/
def SameFrame (st st' : St) : Prop := st'.gins = st.gins ∧ st'.removed = st.removed

theorem SameFrame.refl (st : St) : SameFrame st st := ⟨rfl, rfl⟩
theorem SameFrame.trans {a b c : St} (h1 : SameFrame a b) (h2 : SameFrame b c) : SameFrame a c :=
  ⟨h2.1.trans h1.1, h2.2.trans h1.2⟩
theorem Kept.same {G : List Name} {st st' : St} (h : Kept G st) (hs : SameFrame st st') : Kept G st' :=
  h.of_frame hs.1 hs.2

theorem sameFrame_incUses (xs : List (Option Name)) : ∀ (st : St), SameFrame st (st.incUses xs) := by
  induction xs with
  | nil => intro st; exact SameFrame.refl st
  | cons x xs ih =>
    intro st
    simp only [St.incUses, List.foldl_cons] at ih ⊢
    cases x with
    | none => exact ih st
    | some y => exact SameFrame.trans ⟨rfl, rfl⟩ (ih (st.incUse y))

theorem sameFrame_decUses (xs : List (Option Name)) : ∀ (st : St), SameFrame st (st.decUses xs) := by
  induction xs with
  | nil => intro st; exact SameFrame.refl st
  | cons x xs ih =>
    intro st
    simp only [St.decUses, List.foldl_cons] at ih ⊢
    cases x with
    | none => exact ih st
    | some y => exact SameFrame.trans ⟨rfl, rfl⟩ (ih (st.decUse y))

theorem sameFrame_substInputs (st : St) (n : Node) : SameFrame st (substInputs st n).2 := by
  unfold substInputs
  simp only []
  suffices h : ∀ (l : List (Option Name)) (acc : List (Option Name) × St), SameFrame st acc.2 →
      SameFrame st (l.foldl substStep acc).2 from h _ _ (SameFrame.refl st)
  intro l
  induction l with
  | nil => intro acc h; exact h
  | cons x xs ih =>
    intro acc h
    simp only [List.foldl_cons]
    apply ih
    unfold substStep
    cases x with
    | none => exact h
    | some y =>
      simp only []
      split
      · exact SameFrame.trans h ⟨rfl, rfl⟩
      · exact h

theorem sameFrame_optSet (st : St) (o : Name) (c? : Option CInfo) :
    SameFrame st (match c? with
      | none => st
      | some c => st.setInfo o { dtype := some c.dtype, shape := some (c.shape.map fun (d : Nat) => Dim.known (Int.ofNat d)), const := some c }) := by
  cases c? <;> exact ⟨rfl, rfl⟩

theorem sameFrame_processConstant (ctx : Ctx) (st : St) (n : Node) : SameFrame st (processConstant ctx st n) := by
  unfold processConstant
  split
  · exact SameFrame.refl st
  · split
    · exact SameFrame.refl st
    · split
      · exact sameFrame_optSet st _ _
      · exact SameFrame.refl st

theorem sameFrame_runEvaluator (f : St → Node → EvRes × St) (st : St) (n : Node) :
    SameFrame st (runEvaluator f st n).2 := ⟨rfl, rfl⟩

theorem sameFrame_gateProceed (ctx : Ctx) (st : St) (n : Node) : SameFrame st (gateProceed ctx st n).2 := by
  unfold gateProceed
  split
  · exact ⟨rfl, rfl⟩
  · exact ⟨rfl, rfl⟩
  · split
    · exact ⟨rfl, rfl⟩
    · simp only []
      split
      · split
        · exact ⟨rfl, rfl⟩
        · exact ⟨rfl, rfl⟩
      · exact SameFrame.refl st

theorem sameFrame_emitFold (ctx : Ctx) (st : St) (n : Node) (c : CInfo) : SameFrame st (emitFold ctx st n c).2 := by
  unfold emitFold
  simp only []
  split
  · exact ⟨rfl, rfl⟩
  · split
    · exact ⟨rfl, rfl⟩
    · split
      · split <;> exact ⟨rfl, rfl⟩
      · split <;> exact ⟨rfl, rfl⟩

theorem sameFrame_gateCascade (ctx : Ctx) (st : St) (n : Node) (v : Nat) : SameFrame st (gateCascade ctx st n v).2 := by
  unfold gateCascade
  split
  · exact ⟨rfl, rfl⟩
  · split
    · exact ⟨rfl, rfl⟩
    · split
      · exact ⟨rfl, rfl⟩
      · split
        · exact ⟨rfl, rfl⟩
        · split
          · exact ⟨rfl, rfl⟩
          · have hp := sameFrame_gateProceed ctx st n
            split
            · rename_i st2 heq
              rw [heq] at hp
              exact hp
            · rename_i st2 heq
              rw [heq] at hp
              split
              · exact SameFrame.trans hp ⟨rfl, rfl⟩
              · exact SameFrame.trans hp ⟨rfl, rfl⟩
              · exact SameFrame.trans hp (sameFrame_emitFold ctx st2 n _)

theorem sameFrame_evalPartial (n : Node) (v : Nat) (st : St) : SameFrame st (evalPartial n v st).2 := by
  unfold evalPartial
  split
  · exact sameFrame_runEvaluator _ st n
  · exact SameFrame.refl st

theorem sameFrame_finishNode (ctx : Ctx) (n : Node) (v : Nat) (ev : EvRes × St) :
    SameFrame ev.2 (finishNode ctx n v ev).2 := by
  obtain ⟨res, st⟩ := ev
  cases res with
  | none => exact sameFrame_gateCascade ctx st n v
  | repl r => exact SameFrame.refl st
  | error m => exact SameFrame.refl st

theorem sameFrame_processNode (ctx : Ctx) (st : St) (n : Node) : SameFrame st (processNode ctx st n).2 := by
  unfold processNode
  simp only []
  have h1 := sameFrame_substInputs st n
  split
  · exact SameFrame.trans h1 ⟨rfl, rfl⟩
  have h2 : SameFrame st (if (substInputs st n).1.isOp "Constant" then processConstant ctx (substInputs st n).2 (substInputs st n).1
      else (substInputs st n).2) := by
    split
    · exact SameFrame.trans h1 (sameFrame_processConstant ctx _ _)
    · exact h1
  split
  · exact SameFrame.trans h2 ⟨rfl, rfl⟩
  · exact SameFrame.trans h2 (SameFrame.trans (sameFrame_evalPartial _ _ _) (sameFrame_finishNode ctx _ _ _))

theorem sameFrame_inheritInfo (pairs : List (Name × Name)) : ∀ (st : St), SameFrame st (inheritInfo st pairs) := by
  induction pairs with
  | nil => intro st; exact SameFrame.refl st
  | cons p ps ih =>
    intro st
    simp only [inheritInfo, List.foldl_cons] at ih ⊢
    exact SameFrame.trans ⟨rfl, rfl⟩ (ih _)

theorem sameFrame_countNewUses (ns : List Node) : ∀ (st : St), SameFrame st (countNewUses st ns) := by
  induction ns with
  | nil => intro st; exact SameFrame.refl st
  | cons m ms ih =>
    intro st
    simp only [countNewUses, List.foldl_cons] at ih ⊢
    exact SameFrame.trans (sameFrame_incUses m.inputs st) (ih _)

theorem kept_clearUnused {G : List Name} (ins : List Name) : ∀ (st : St), Kept G st → Kept G (clearUnused st ins) := by
  induction ins with
  | nil => intro st h; exact h
  | cons x xs ih =>
    intro st h
    simp only [clearUnused, List.foldl_cons] at ih ⊢
    apply ih
    split
    · rename_i hc
      simp only [Bool.and_eq_true, Bool.not_eq_true', St.isGraphInput] at hc
      refine ⟨h.1, ?_⟩
      intro y hy
      simp only [St.note, List.mem_cons] at hy
      rcases hy with rfl | hy
      · rw [← h.1]; exact hc.2
      · exact h.2 y hy
    · exact h

theorem kept_applyRepl {G : List Name} (ctx : Ctx) (st st' : St) (n : Node) (r : Repl) (ns : List Node)
    (is : List (Name × String)) (h : Kept G st) (hr : applyRepl ctx st n r = .ok (ns, is, st')) : Kept G st' := by
  unfold applyRepl at hr
  split at hr
  · simp at hr
  · simp only [Except.ok.injEq, Prod.mk.injEq] at hr
    obtain ⟨_, _, hst⟩ := hr
    subst hst
    have k1 : Kept G (inheritInfo st (List.zip n.outputs r.newOuts)) := h.same (sameFrame_inheritInfo _ st)
    have k2 := k1.same (sameFrame_decUses n.inputs _)
    generalize (inheritInfo st (List.zip n.outputs r.newOuts)).decUses n.inputs = s2 at k2 ⊢
    have k3 : Kept G (if r.inlinedIf then
        { s2 with gouts := s2.gouts.filter (fun x => !(r.newOuts.contains x) || n.outputs.contains x) }
      else countNewUses s2 (r.newNodes.map (renNode maxDepth ((List.zip n.outputs r.newOuts).map fun (o, v) => (v, o))))) := by
      split
      · exact k2.of_frame rfl rfl
      · exact k2.same (sameFrame_countNewUses _ s2)
    generalize (if r.inlinedIf then
        { s2 with gouts := s2.gouts.filter (fun x => !(r.newOuts.contains x) || n.outputs.contains x) }
      else countNewUses s2 (r.newNodes.map (renNode maxDepth ((List.zip n.outputs r.newOuts).map fun (o, v) => (v, o))))) = s3 at k3 ⊢
    split
    · exact ⟨k3.1, k3.2⟩
    · have key : ∀ Y : St, Kept G Y → Kept G { (clearUnused Y (List.filterMap id n.inputs)) with modified := true } :=
        fun Y hY => ⟨(kept_clearUnused _ Y hY).1, (kept_clearUnused _ Y hY).2⟩
      exact key _ ⟨k3.1, k3.2⟩

theorem kept_visitSubs {G : List Name} (vg : St → Graph → St × Graph) (hvg : ∀ st g, Kept G st → Kept G (vg st g).1) :
    ∀ (subs : List (String × Graph)) (st : St), Kept G st → Kept G (visitSubs vg st subs).1
  | [], _, h => h
  | (k, g) :: rest, st, h => by
    simp only [visitSubs]
    exact kept_visitSubs vg hvg rest _ (hvg st g h)

theorem kept_visitNodes {G : List Name} (ctx : Ctx) (vg : St → Graph → St × Graph)
    (hvg : ∀ st g, Kept G st → Kept G (vg st g).1) :
    ∀ (f : Nat) (st : St) (todo acc : List Node) (ai : List (Name × String)), Kept G st →
      Kept G (visitNodes ctx vg f st todo acc ai).1
  | 0, st, _, _, _, h => h.of_frame rfl rfl
  | _ + 1, _, [], _, _, h => h
  | f + 1, st, n :: rest, acc, ai, h => by
    simp only [visitNodes]
    split
    · exact h
    · have hp := h.same (sameFrame_processNode ctx st n)
      split
      · rename_i m st1 heq
        rw [heq] at hp
        exact hp.of_frame rfl rfl
      · rename_i n' st1 heq
        rw [heq] at hp
        exact kept_visitNodes ctx vg hvg f _ _ _ _ (kept_visitSubs vg hvg _ _ hp)
      · rename_i n' r st1 heq
        rw [heq] at hp
        split
        · exact hp.of_frame rfl rfl
        · rename_i ns is st2 hr
          exact kept_visitNodes ctx vg hvg f _ _ _ _ (kept_applyRepl ctx st1 st2 n' r ns is hp hr)

theorem sameFrame_replaceOutputs (nodes : List Node) : ∀ (outs : List Name) (st : St),
    SameFrame st (replaceOutputs st nodes outs).1
  | [], st => SameFrame.refl st
  | o :: rest, st => by
    simp only [replaceOutputs]
    split
    · split
      · exact SameFrame.trans ⟨rfl, rfl⟩ (sameFrame_replaceOutputs nodes rest _)
      · split
        · exact SameFrame.trans ⟨rfl, rfl⟩ (sameFrame_replaceOutputs nodes rest _)
        · exact SameFrame.trans ⟨rfl, rfl⟩ (sameFrame_replaceOutputs nodes rest _)
    · exact sameFrame_replaceOutputs nodes rest st

theorem kept_visitGraph {G : List Name} (ctx : Ctx) : ∀ (d : Nat) (st : St) (g : Graph), Kept G st →
    Kept G (visitGraph ctx d st g).1
  | 0, _, _, h => h.of_frame rfl rfl
  | d + 1, st, g, h => by
    simp only [visitGraph]
    have hv := kept_visitNodes ctx (visitGraph ctx d) (fun st g h => kept_visitGraph ctx d st g h)
      (stepFuel g + 16 * st.uses.length) st g.nodes [] [] h
    split
    · exact hv
    · exact hv.same (sameFrame_replaceOutputs _ _ _)

theorem initialState_kept (g : Graph) (info : List (Name × VInfo)) :
    Kept (collect Graph.inputs maxDepth g) (initialState g info) := by
  unfold initialState
  simp only []
  suffices h : ∀ (l : List Name) (st : St), SameFrame st (l.foldl (fun st x => st.incUse x) st) by
    have := h (collect (fun g => g.nodes.flatMap fun n => n.inputs.filterMap id) maxDepth g)
      { info := info, gins := collect Graph.inputs maxDepth g, gouts := collect Graph.outputs maxDepth g,
        initNames := collect (fun g => g.inits.map (·.1)) maxDepth g,
        initDisplay := collect (fun g => g.inits.map (·.1)) maxDepth g }
    refine ⟨this.1, ?_⟩
    intro y hy
    rw [this.2] at hy
    simp at hy
  intro l
  induction l with
  | nil => intro st; exact SameFrame.refl st
  | cons x xs ih => intro st; simp only [List.foldl_cons]; exact SameFrame.trans ⟨rfl, rfl⟩ (ih _)

theorem visitGraph_inits (ctx : Ctx) (d : Nat) (st : St) (g : Graph) :
    ∃ added, (visitGraph ctx (d + 1) st g).2.inits = g.inits ++ added := by
  simp only [visitGraph]
  split
  · exact ⟨_, rfl⟩
  · exact ⟨_, rfl⟩

end OV.C03
