import OV.Model.Index
import OV.Lemmas.Index
import OV.Lemmas.IndexPlan
/-! C11 helper lemmas: the trailing Gather chain of an index plan acts axis by axis.

The chain runs from the highest source axis to the lowest; a Gather for source axis `j` is emitted
with the axis attribute "number of axes below `j` that are still there".  `gather_chain_axiswise`
shows that such a chain, run on the view left by the Slice(+Squeeze) prefix, changes exactly the
positions it names, each into NumPy's per-axis result. -/
namespace OV.Index

/-! ### Small facts about plans and `axiswise` -/

theorem runPlan_nil (v : View) : runPlan [] v = .ok v := rfl

theorem runPlan_append (p q : Plan) (v : View) :
    runPlan (p ++ q) v = (match runPlan p v with
                          | .ok v' => runPlan q v'
                          | .error e => .error e) := by
  unfold runPlan
  rw [List.foldlM_append]
  cases List.foldlM (fun v op => runOp op v) v p <;> rfl

theorem runPlan_singleton (op : PlanOp) (v : View) : runPlan [op] v = runOp op v := by
  unfold runPlan
  simp only [List.foldlM, bind, Except.bind, pure, Except.pure]
  cases runOp op v <;> rfl

theorem axiswise_cons_ok (f : Comp → List Nat → Except Err AxisMap) (c : Comp) (cs : List Comp)
    (d : Nat) (ds : List Nat) (mid : View) (h : axiswise f (c :: cs) (d :: ds) = .ok mid) :
    ∃ a mid0, f c (List.range d) = .ok a ∧ axiswise f cs ds = .ok mid0 ∧ mid = a :: mid0 := by
  simp only [axiswise] at h
  cases ha : f c (List.range d) with
  | error e => simp [ha, bind, Except.bind] at h
  | ok a =>
    cases hr : axiswise f cs ds with
    | error e => simp [ha, hr, bind, Except.bind] at h
    | ok m =>
      simp only [ha, hr, bind, Except.bind, pure, Except.pure] at h
      refine ⟨a, m, rfl, rfl, ?_⟩
      cases h; rfl

theorem axiswise_cons_of_ok (f : Comp → List Nat → Except Err AxisMap) (c : Comp) (cs : List Comp)
    (d : Nat) (ds : List Nat) (a : AxisMap) (m : View)
    (ha : f c (List.range d) = .ok a) (hm : axiswise f cs ds = .ok m) :
    axiswise f (c :: cs) (d :: ds) = .ok (a :: m) := by
  simp only [axiswise, ha, hm, bind, Except.bind, pure, Except.pure]

/-- Every component mapped to "keep the axis as it is" gives the initial view. -/
def pickF (_ : Comp) (srcs : List Nat) : Except Err AxisMap := .ok (.pick srcs)

theorem axiswise_pickF (comps : List Comp) (ds : List Nat) (hlen : comps.length ≤ ds.length) :
    axiswise pickF comps ds = .ok (View.init ds) := by
  induction comps generalizing ds with
  | nil => rfl
  | cons c cs ih =>
    cases ds with
    | nil => simp at hlen
    | cons d ds =>
      rw [axiswise_cons_of_ok pickF c cs d ds _ _ rfl (ih ds (by simpa using hlen))]
      rfl

/-! ### `modifyPick` by position -/

/-- The `k`-th kept axis is the element after a prefix with `k` kept axes. -/
theorem modifyPick_at (f : List Nat → Except Err AxisMap) (srcs : List Nat) (post : View) :
    ∀ (pre : View),
      modifyPick (pre.filter AxisMap.isPick).length f (pre ++ AxisMap.pick srcs :: post)
        = (match f srcs with
           | .ok a => .ok (pre ++ a :: post)
           | .error e => .error e) := by
  intro pre
  induction pre with
  | nil =>
    simp only [List.filter_nil, List.length_nil, List.nil_append, modifyPick, bind, Except.bind, pure,
      Except.pure]
    cases f srcs <;> rfl
  | cons x pre ih =>
    cases x with
    | drop s =>
      simp only [List.filter_cons, AxisMap.isPick, Bool.false_eq_true, if_false, List.cons_append,
        modifyPick, ih, bind, Except.bind, pure, Except.pure]
      cases f srcs <;> rfl
    | pick s' =>
      simp only [List.filter_cons, AxisMap.isPick, if_true, List.length_cons, List.cons_append,
        modifyPick, ih, bind, Except.bind, pure, Except.pure]
      cases f srcs <;> rfl

/-- A Gather operator emitted for a component acts on its axis exactly as NumPy's per-axis rule for
that component (rank-0 index: the axis disappears; 1-D index: the axis is re-picked). -/
theorem gatherOp_run (a : Nat) (c : Comp) (op : PlanOp) (h : gatherOp a c = some op) (v : View) :
    runOp op v = modifyPick a (numpyAxis c) v := by
  cases c with
  | full => simp [gatherOp] at h
  | slice lo hi st => simp [gatherOp] at h
  | int i => simp only [gatherOp, Option.some.injEq] at h; subst h; rfl
  | tScalar i => simp only [gatherOp, Option.some.injEq] at h; subst h; rfl
  | tVec is => simp only [gatherOp, Option.some.injEq] at h; subst h; rfl

/-! ### The Gather chain -/

/-- Per-axis result after the Gather chain: the components selected by `G` get NumPy's result, the
others keep what the prefix of the plan (`preF`) made of them. -/
def withGather (G : Comp → Bool) (preF : Comp → List Nat → Except Err AxisMap)
    (c : Comp) (srcs : List Nat) : Except Err AxisMap :=
  if G c then numpyAxis c srcs else preF c srcs

/-- **Gather chain, axis by axis.**  `preF` describes the view `mid` the chain starts from (one
`AxisMap` per component, trailing axes untouched), `pre` is an arbitrary prefix of already-settled
axes, `G` selects the components that are gathered, `D c` says that the prefix of the plan removed
the axis of `c`.  If every Gather for the component at position `n + i` carries the axis attribute
"kept axes of `pre`, plus components before `i` whose axis was not removed", and the chain runs
from the last selected component to the first, then the chain changes exactly the selected
positions, into `numpyAxis`. -/
theorem gather_chain_axiswise (G D : Comp → Bool)
    (preF : Comp → List Nat → Except Err AxisMap) (axisOf : Nat → Nat)
    (hG : ∀ c srcs, G c = true → preF c srcs = .ok (.pick srcs))
    (hGop : ∀ c a, G c = true → (gatherOp a c).isSome = true)
    (hD : ∀ c srcs a, preF c srcs = .ok a → a.isPick = !D c) :
    ∀ (cs : List Comp) (ds : List Nat) (n : Nat) (pre mid r : View),
      (∀ i c, cs[i]? = some c → G c = true →
          axisOf (n + i) = (pre.filter AxisMap.isPick).length
                            + ((cs.take i).filter (fun c => !D c)).length) →
      axiswise preF cs ds = .ok mid →
      runPlan ((((cs.zipIdx n).filter (fun p => G p.1)).reverse).filterMap
          (fun p => gatherOp (axisOf p.2) p.1)) (pre ++ mid) = .ok r →
      ∃ mid', r = pre ++ mid' ∧ axiswise (withGather G preF) cs ds = .ok mid' := by
  intro cs
  induction cs with
  | nil =>
    intro ds n pre mid r _ hax hrun
    simp only [List.zipIdx_nil, List.filter_nil, List.reverse_nil, List.filterMap_nil, runPlan_nil,
      Except.ok.injEq] at hrun
    refine ⟨mid, hrun.symm, ?_⟩
    simpa [axiswise] using hax
  | cons c cs ih =>
    intro ds n pre mid r hA hax hrun
    cases ds with
    | nil => simp [axiswise] at hax
    | cons d ds =>
      obtain ⟨a, mid0, ha, hmid0, rfl⟩ := axiswise_cons_ok preF c cs d ds mid hax
      have hpick : a.isPick = !D c := hD c _ a ha
      have hA' : ∀ i c', cs[i]? = some c' → G c' = true →
          axisOf (n + 1 + i) = ((pre ++ [a]).filter AxisMap.isPick).length
                                + ((cs.take i).filter (fun c => !D c)).length := by
        intro i c' hi hg
        have := hA (i + 1) c' (by simpa using hi) hg
        rw [show n + (i + 1) = n + 1 + i by omega] at this
        rw [this]
        simp only [List.take_succ_cons, List.filter_cons, List.filter_append, List.length_append,
          List.filter_nil, hpick]
        cases D c <;> simp <;> omega
      have hsplit : pre ++ a :: mid0 = (pre ++ [a]) ++ mid0 := by simp
      simp only [List.zipIdx_cons] at hrun
      by_cases hg : G c = true
      · have hfil : ((c, n) :: cs.zipIdx (n + 1)).filter (fun p => G p.1)
            = (c, n) :: (cs.zipIdx (n + 1)).filter (fun p => G p.1) := by
          simp [hg]
        rw [hfil, List.reverse_cons, List.filterMap_append, runPlan_append, hsplit] at hrun
        obtain ⟨op, hop⟩ := Option.isSome_iff_exists.mp (hGop c (axisOf n) hg)
        have ha' : a = .pick (List.range d) := by
          have := hG c (List.range d) hg
          rw [this] at ha; cases ha; rfl
        subst ha'
        cases h1 : runPlan ((((cs.zipIdx (n + 1)).filter (fun p => G p.1)).reverse).filterMap
            (fun p => gatherOp (axisOf p.2) p.1)) ((pre ++ [AxisMap.pick (List.range d)]) ++ mid0) with
        | error e => rw [h1] at hrun; cases hrun
        | ok r1 =>
          obtain ⟨mid0', hr1, hfull⟩ :=
            ih ds (n + 1) (pre ++ [AxisMap.pick (List.range d)]) mid0 r1 hA' hmid0 h1
          rw [h1] at hrun
          simp only [List.filterMap_cons, hop, List.filterMap_nil, runPlan_singleton] at hrun
          rw [gatherOp_run _ _ _ hop] at hrun
          have hax0 : axisOf n = (pre.filter AxisMap.isPick).length := by
            have := hA 0 c (by simp) hg
            simpa using this
          subst hr1
          rw [hax0, List.append_assoc, List.singleton_append, modifyPick_at] at hrun
          cases hn : numpyAxis c (List.range d) with
          | error e => rw [hn] at hrun; cases hrun
          | ok a' =>
            rw [hn] at hrun
            refine ⟨a' :: mid0', ?_, ?_⟩
            · cases hrun; rfl
            · exact axiswise_cons_of_ok _ c cs d ds a' mid0' (by simp [withGather, hg, hn]) hfull
      · have hg' : G c = false := by simpa using hg
        have hfil : ((c, n) :: cs.zipIdx (n + 1)).filter (fun p => G p.1)
            = (cs.zipIdx (n + 1)).filter (fun p => G p.1) := by
          simp [hg']
        rw [hfil, hsplit] at hrun
        obtain ⟨mid0', hr1, hfull⟩ := ih ds (n + 1) (pre ++ [a]) mid0 r hA' hmid0 hrun
        refine ⟨a :: mid0', by rw [hr1]; simp, ?_⟩
        exact axiswise_cons_of_ok _ c cs d ds a mid0' (by simp [withGather, hg', ha]) hfull

/-- **Gather chain run in ascending order** (eager mode's 1-D Gathers): when every gathered
component keeps its axis (`numpyAxis` answers with a `pick`: 1-D indices), the order does not matter —
a chain run from the first selected component to the last also changes exactly the selected
positions into `numpyAxis`. -/
theorem gather_chain_axiswise_fwd (G D : Comp → Bool)
    (preF : Comp → List Nat → Except Err AxisMap) (axisOf : Nat → Nat)
    (hG : ∀ c srcs, G c = true → preF c srcs = .ok (.pick srcs))
    (hGop : ∀ c a, G c = true → (gatherOp a c).isSome = true)
    (hGpick : ∀ c srcs a, G c = true → numpyAxis c srcs = .ok a → a.isPick = true)
    (hD : ∀ c srcs a, preF c srcs = .ok a → a.isPick = !D c) :
    ∀ (cs : List Comp) (ds : List Nat) (n : Nat) (pre mid r : View),
      (∀ i c, cs[i]? = some c → G c = true →
          axisOf (n + i) = (pre.filter AxisMap.isPick).length
                            + ((cs.take i).filter (fun c => !D c)).length) →
      axiswise preF cs ds = .ok mid →
      runPlan (((cs.zipIdx n).filter (fun p => G p.1)).filterMap
          (fun p => gatherOp (axisOf p.2) p.1)) (pre ++ mid) = .ok r →
      ∃ mid', r = pre ++ mid' ∧ axiswise (withGather G preF) cs ds = .ok mid' := by
  intro cs
  induction cs with
  | nil =>
    intro ds n pre mid r _ hax hrun
    simp only [List.zipIdx_nil, List.filter_nil, List.filterMap_nil, runPlan_nil,
      Except.ok.injEq] at hrun
    refine ⟨mid, hrun.symm, ?_⟩
    simpa [axiswise] using hax
  | cons c cs ih =>
    intro ds n pre mid r hA hax hrun
    cases ds with
    | nil => simp [axiswise] at hax
    | cons d ds =>
      obtain ⟨a, mid0, ha, hmid0, rfl⟩ := axiswise_cons_ok preF c cs d ds mid hax
      have hpick : a.isPick = !D c := hD c _ a ha
      -- the axis condition for the tail, for any settled axis `b` of the same kind as `a`
      have hA' : ∀ (b : AxisMap), b.isPick = a.isPick → ∀ i c', cs[i]? = some c' → G c' = true →
          axisOf (n + 1 + i) = ((pre ++ [b]).filter AxisMap.isPick).length
                                + ((cs.take i).filter (fun c => !D c)).length := by
        intro b hb i c' hi hg
        have := hA (i + 1) c' (by simpa using hi) hg
        rw [show n + (i + 1) = n + 1 + i by omega] at this
        rw [this]
        simp only [List.take_succ_cons, List.filter_cons, List.filter_append, List.length_append,
          List.filter_nil, hb, hpick]
        cases D c <;> simp <;> omega
      simp only [List.zipIdx_cons] at hrun
      by_cases hg : G c = true
      · have hfil : ((c, n) :: cs.zipIdx (n + 1)).filter (fun p => G p.1)
            = (c, n) :: (cs.zipIdx (n + 1)).filter (fun p => G p.1) := by
          simp [hg]
        obtain ⟨op, hop⟩ := Option.isSome_iff_exists.mp (hGop c (axisOf n) hg)
        have ha' : a = .pick (List.range d) := by
          have := hG c (List.range d) hg
          rw [this] at ha; cases ha; rfl
        subst ha'
        rw [hfil, List.filterMap_cons, hop] at hrun
        simp only at hrun
        rw [show ∀ (l : Plan), op :: l = [op] ++ l from fun _ => rfl, runPlan_append,
          runPlan_singleton, gatherOp_run _ _ _ hop] at hrun
        have hax0 : axisOf n = (pre.filter AxisMap.isPick).length := by
          have := hA 0 c (by simp) hg
          simpa using this
        rw [hax0, modifyPick_at] at hrun
        cases hn : numpyAxis c (List.range d) with
        | error e => rw [hn] at hrun; cases hrun
        | ok a' =>
          rw [hn] at hrun
          simp only at hrun
          have hp' : a'.isPick = true := hGpick c _ a' hg hn
          have hsplit : pre ++ a' :: mid0 = (pre ++ [a']) ++ mid0 := by simp
          rw [hsplit] at hrun
          obtain ⟨mid0', hr1, hfull⟩ :=
            ih ds (n + 1) (pre ++ [a']) mid0 r (hA' a' (by rw [hp']; rfl)) hmid0 hrun
          refine ⟨a' :: mid0', by rw [hr1]; simp, ?_⟩
          exact axiswise_cons_of_ok _ c cs d ds a' mid0' (by simp [withGather, hg, hn]) hfull
      · have hg' : G c = false := by simpa using hg
        have hfil : ((c, n) :: cs.zipIdx (n + 1)).filter (fun p => G p.1)
            = (cs.zipIdx (n + 1)).filter (fun p => G p.1) := by
          simp [hg']
        have hsplit : pre ++ a :: mid0 = (pre ++ [a]) ++ mid0 := by simp
        rw [hfil, hsplit] at hrun
        obtain ⟨mid0', hr1, hfull⟩ := ih ds (n + 1) (pre ++ [a]) mid0 r (hA' a rfl) hmid0 hrun
        refine ⟨a :: mid0', by rw [hr1]; simp, ?_⟩
        exact axiswise_cons_of_ok _ c cs d ds a mid0' (by simp [withGather, hg', ha]) hfull

/-! ### Counting: the axis attribute is the number of kept axes below -/

theorem filter_length_add {α} (F : α → Bool) (l : List α) :
    (l.filter F).length + (l.filter (fun c => !F c)).length = l.length := by
  induction l with
  | nil => rfl
  | cons a l ih =>
    cases h : F a <;> simp [h] <;> omega

theorem zipIdx_filter_below_nil (F : Comp → Bool) :
    ∀ (l : List Comp) (n m : Nat), m ≤ n →
      ((((l.zipIdx n).filter (fun p => F p.1)).map (fun p => p.2)).filter (fun a => decide (a < m))) = [] := by
  intro l
  induction l with
  | nil => intro n m _; rfl
  | cons c l ih =>
    intro n m hmn
    simp only [List.zipIdx_cons]
    have hn : decide (n < m) = false := by simp; omega
    cases hF : F c
    · simpa [List.filter_cons, hF] using ih (n + 1) m (by omega)
    · simpa [List.filter_cons, hF, hn] using ih (n + 1) m (by omega)

/-- Among the positions selected by `F`, those below `n + i` are the selected ones among the first
`i` components. -/
theorem count_below_zipIdx (F : Comp → Bool) :
    ∀ (l : List Comp) (n i : Nat),
      ((((l.zipIdx n).filter (fun p => F p.1)).map (fun p => p.2)).filter
          (fun a => decide (a < n + i))).length = ((l.take i).filter F).length := by
  intro l
  induction l with
  | nil => intro n i; simp
  | cons c l ih =>
    intro n i
    cases i with
    | zero =>
      rw [zipIdx_filter_below_nil F (c :: l) n (n + 0) (by omega)]
      rfl
    | succ i =>
      have hrec := ih (n + 1) i
      rw [show n + 1 + i = n + (i + 1) by omega] at hrec
      have hn : decide (n < n + (i + 1)) = true := by simp
      simp only [List.zipIdx_cons, List.take_succ_cons]
      cases hF : F c
      · simpa [List.filter_cons, hF] using hrec
      · simpa [List.filter_cons, hF, hn] using hrec

/-- `gatherAxis` of the positions selected by `F` (the removed axes): the number of components
before `i` that are *not* selected. -/
theorem gatherAxis_zipIdx (F : Comp → Bool) (l : List Comp) (i : Nat) (hi : i ≤ l.length) :
    gatherAxis ((l.zipIdx.filter (fun p => F p.1)).map (fun p => p.2)) i
      = ((l.take i).filter (fun c => !F c)).length := by
  unfold gatherAxis
  have h1 := count_below_zipIdx F l 0 i
  rw [Nat.zero_add] at h1
  rw [h1]
  have h2 := filter_length_add F (l.take i)
  rw [List.length_take, Nat.min_eq_left hi] at h2
  omega

theorem gatherAxis_nil (j : Nat) : gatherAxis [] j = j := by
  simp [gatherAxis]

/-! ### Lookups in the converter's Slice inputs (all components, no side condition) -/

theorem find_sliceEntriesOf (comps : List Comp) (j : Nat) :
    ((sliceEntriesOf comps).filterMap id).find? (fun e => e.axis == j)
      = (match comps[j]? with | some c => entryOf c j | none => none) := by
  simp only [sliceEntriesOf, List.filterMap_map, List.filterMap_append, List.find?_append, slicedOf,
    scalarsOf]
  have e1 := find_entries_zipIdx (fun c => c.kind == Kind.sliced) comps 0 j
  have e2 := find_entries_zipIdx (fun c => c.kind == Kind.scalar) comps 0 j
  simp only [Nat.zero_le, if_true, Nat.sub_zero] at e1 e2
  have e1' : (List.filterMap (id ∘ fun p => entryOf p.1 p.2)
      (List.filter (fun p => p.1.kind == Kind.sliced) comps.zipIdx)).find? (fun e => e.axis == j)
      = (match comps[j]? with
         | some c => if (c.kind == Kind.sliced) = true then entryOf c j else none
         | none => none) := e1
  have e2' : (List.filterMap (id ∘ fun p => entryOf p.1 p.2)
      (List.filter (fun p => p.1.kind == Kind.scalar) comps.zipIdx)).find? (fun e => e.axis == j)
      = (match comps[j]? with
         | some c => if (c.kind == Kind.scalar) = true then entryOf c j else none
         | none => none) := e2
  rw [e1', e2']
  cases hc : comps[j]? with
  | none => rfl
  | some c =>
    cases c with
    | full => rfl
    | int i => rfl
    | tScalar v => rfl
    | tVec v => rfl
    | slice lo hi st =>
      by_cases hskip : lo = .none ∧ hi = .none ∧ st = .none
      · obtain ⟨rfl, rfl, rfl⟩ := hskip
        rfl
      · have hk : (Comp.slice lo hi st).kind = Kind.sliced := by
          cases lo <;> cases hi <;> cases st <;> first | rfl | (exfalso; exact hskip ⟨rfl, rfl, rfl⟩)
        simp only [hk]
        cases hent : entryOf (Comp.slice lo hi st) j <;> rfl

theorem kind_scalar_eq_isInt (c : Comp) : (c.kind == Kind.scalar) = c.isInt := by
  cases c with
  | full => rfl
  | int i => rfl
  | tScalar v => rfl
  | tVec v => rfl
  | slice lo hi st => cases lo <;> cases hi <;> cases st <;> rfl

theorem contains_scalarsOf (comps : List Comp) (j : Nat) :
    ((scalarsOf comps).map (fun p => p.2)).contains j
      = (match comps[j]? with | some c => c.isInt | none => false) := by
  have := contains_zipIdx (fun c => c.kind == Kind.scalar) comps 0 j
  simp only [Nat.zero_le, if_true, Nat.sub_zero] at this
  simp only [scalarsOf]
  rw [this]
  cases comps[j]? with
  | none => rfl
  | some c => exact kind_scalar_eq_isInt c

/-! ### The converter's Slice(+Squeeze) prefix with tensor-valued components present -/

/-- What the converter's Slice(+Squeeze) prefix makes of an axis: tensor-valued indices are not
touched by it (they are gathered afterwards). -/
def graphPre (c : Comp) (srcs : List Nat) : Except Err AxisMap :=
  match c with
  | .tScalar _ => .ok (.pick srcs)
  | .tVec _ => .ok (.pick srcs)
  | c => graphAxisSlicePath c srcs

theorem graphPre_basic (c : Comp) (srcs : List Nat) (h : c.basic = true) :
    graphPre c srcs = graphAxisSlicePath c srcs := by
  cases c <;> first | rfl | simp [Comp.basic] at h

theorem graphPre_not_nonScalar (c : Comp) (srcs : List Nat) (h : (c.kind == Kind.nonScalar) = false) :
    graphPre c srcs = graphAxisSlicePath c srcs := by
  cases c <;> first | rfl | (exact absurd h (by simp only [Comp.kind]; decide))

theorem graphPre_isPick (c : Comp) (srcs : List Nat) (a : AxisMap) (h : graphPre c srcs = .ok a) :
    a.isPick = !(c.kind == Kind.scalar) := by
  rw [kind_scalar_eq_isInt]
  cases c with
  | full => simp only [graphPre, graphAxisSlicePath, Except.ok.injEq] at h; subst h; rfl
  | tScalar v => simp only [graphPre, Except.ok.injEq] at h; subst h; rfl
  | tVec v => simp only [graphPre, Except.ok.injEq] at h; subst h; rfl
  | int i =>
    simp only [graphPre, graphAxisSlicePath] at h
    cases hs : single? (onnxSliceList srcs i (scalarStop i maxint) 1) with
    | error e => simp [hs, bind, Except.bind] at h
    | ok s => simp [hs, bind, Except.bind, pure, Except.pure] at h; subst h; rfl
  | slice lo hi st =>
    simp only [graphPre, graphAxisSlicePath] at h
    by_cases hskip : lo = .none ∧ hi = .none ∧ st = .none
    · simp only [hskip, and_self, if_true, Except.ok.injEq] at h; subst h; rfl
    · simp only [hskip, if_false] at h
      cases st with
      | dyn v =>
        cases hl : lo.val? <;> cases hh : hi.val? <;> simp only [hl, hh] at h <;> try (cases h)
        by_cases h0 : (v == 0) = true
        · simp [h0] at h
        · simp [h0] at h; subst h; rfl
      | none =>
        by_cases h0 : ((Bnd.none.val?).getD 1 == 0) = true
        · simp [h0] at h
        · simp [h0] at h; subst h; rfl
      | const v =>
        by_cases h0 : (((Bnd.const v).val?).getD 1 == 0) = true
        · simp [h0] at h
        · simp [h0] at h; subst h; rfl

/-- Running `Slice` and then (if there is anything to squeeze) `Squeeze`, reduced to the two `go`
walks. -/
theorem slice_squeeze_run (mk : List Nat → PlanOp) (hmk : ∀ S v, runOp (mk S) v = opSqueeze S v)
    (E : List SliceEntry) (S : List Nat) (v0 v1 : View)
    (h : runPlan ([PlanOp.slice E] ++ (if S.isEmpty then [] else [mk S])) v0 = .ok v1) :
    (∀ e ∈ E, e.step ≠ 0) ∧ opSqueeze.go S 0 (opSlice.go E 0 v0) = .ok v1 := by
  rw [runPlan_append, runPlan_singleton] at h
  cases hsl : opSlice E v0 with
  | error e => simp [runOp, hsl] at h
  | ok w =>
    obtain ⟨hz, hw⟩ := opSlice_ok _ _ _ hsl
    refine ⟨hz, ?_⟩
    simp only [runOp, hsl] at h
    by_cases hS : S.isEmpty = true
    · have hSnil : S = [] := by simpa using hS
      subst hSnil
      simp only [List.isEmpty_nil, if_true, runPlan_nil, Except.ok.injEq] at h
      rw [squeeze_go_nil, ← hw, h]
    · rw [if_neg hS, runPlan_singleton, hmk] at h
      have := opSqueeze_ok _ _ _ h
      rwa [hw] at this

/-- What the converter's own refusals and a non-failing `Slice` tell about a registered slice:
the step is not 0, and with a tensor-valued step both bounds are written out. -/
def sliceOk (c : Comp) : Prop :=
  ∀ lo hi st, c = .slice lo hi st → ¬ (lo = .none ∧ hi = .none ∧ st = .none) →
    ((st.val?).getD 1 ≠ 0 ∧ ∀ s, st = .dyn s → ∃ l h, lo.val? = some l ∧ hi.val? = some h)

theorem graphPre_axisAfter (c : Comp) (j d : Nat) (hP : sliceOk c) :
    graphPre c (List.range d) = axisAfter (entryOf c j) c.isInt (List.range d) := by
  cases c with
  | tScalar v => simp [graphPre, axisAfter, entryOf, applyEntry, Comp.isInt]
  | tVec v => simp [graphPre, axisAfter, entryOf, applyEntry, Comp.isInt]
  | full => simp [graphPre, graphAxisSlicePath, axisAfter, entryOf, applyEntry, Comp.isInt]
  | int i => simp [graphPre, graphAxisSlicePath, axisAfter, entryOf, applyEntry, Comp.isInt]
  | slice lo hi st =>
    by_cases hsk : lo = .none ∧ hi = .none ∧ st = .none
    · simp [graphPre, graphAxisSlicePath, axisAfter, entryOf, applyEntry, Comp.isInt, hsk]
    · obtain ⟨h0, hdyn⟩ := hP lo hi st rfl hsk
      have hb0 : ((st.val?).getD 1 == 0) = false := by simpa using h0
      cases st with
      | dyn v =>
        obtain ⟨l, h, hl, hh⟩ := hdyn v rfl
        have hv : (v == 0) = false := by simpa [Bnd.val?] using hb0
        simp [graphPre, graphAxisSlicePath, axisAfter, entryOf, convSliceEntry, applyEntry,
          Comp.isInt, hl, hh, hv]
      | none =>
        have hsk' : ¬ (lo = Bnd.none ∧ hi = Bnd.none) := fun hh => hsk ⟨hh.1, hh.2, rfl⟩
        simp [graphPre, graphAxisSlicePath, axisAfter, entryOf, convSliceEntry, applyEntry,
          Comp.isInt, hsk', Bnd.val?]
      | const v =>
        have hv : (v == 0) = false := by simpa [Bnd.val?] using hb0
        simp [graphPre, graphAxisSlicePath, axisAfter, entryOf, convSliceEntry, applyEntry,
          Comp.isInt, Bnd.val?, hv]

theorem entryOf_step (lo hi st : Bnd) (j : Nat) (e : SliceEntry)
    (h : entryOf (.slice lo hi st) j = some e) : e.step = (st.val?).getD 1 := by
  have h' : (if lo = .none ∧ hi = .none ∧ st = .none then none else convSliceEntry j lo hi st) = some e := h
  by_cases hsk : lo = .none ∧ hi = .none ∧ st = .none
  · rw [if_pos hsk] at h'; cases h'
  · rw [if_neg hsk] at h'
    cases st with
    | dyn s =>
      simp only [convSliceEntry] at h'
      cases hl : lo.val? <;> cases hh : hi.val? <;> simp [hl, hh] at h'
      rw [← h']; rfl
    | none => simp [convSliceEntry] at h'; rw [← h']
    | const v => simp [convSliceEntry] at h'; rw [← h']

theorem entryOf_dyn_some (lo hi : Bnd) (s : Int) (j : Nat) (e : SliceEntry)
    (h : entryOf (.slice lo hi (.dyn s)) j = some e) : ∃ l h, lo.val? = some l ∧ hi.val? = some h := by
  have h' : (if lo = .none ∧ hi = .none ∧ Bnd.dyn s = .none then none
      else convSliceEntry j lo hi (.dyn s)) = some e := h
  rw [if_neg (by intro hh; cases hh.2.2)] at h'
  simp only [convSliceEntry] at h'
  cases hl : lo.val? <;> cases hh : hi.val? <;> simp [hl, hh] at h'
  exact ⟨_, _, rfl, rfl⟩

theorem graph_slice_stage (comps : List Comp) (shape : List Nat) (v1 : View)
    (hlen : comps.length ≤ shape.length)
    (hnone : (sliceEntriesOf comps).any Option.isNone = false)
    (h : runPlan ([PlanOp.slice ((sliceEntriesOf comps).filterMap id)]
            ++ (if ((scalarsOf comps).map (fun p => p.2)).isEmpty then []
                else [PlanOp.squeeze ((scalarsOf comps).map (fun p => p.2))])) (View.init shape) = .ok v1) :
    axiswise graphPre comps shape = .ok v1 := by
  obtain ⟨hz, hgo⟩ := slice_squeeze_run PlanOp.squeeze (fun _ _ => rfl) _ _ _ _ h
  have hE : ∀ (j : Nat) (c : Comp) (d : Nat), comps[j]? = some c → shape[j]? = some d →
      ((sliceEntriesOf comps).filterMap id).find? (fun e => e.axis == 0 + j) = entryOf c (0 + j) := by
    intro j c d hj _
    rw [Nat.zero_add, find_sliceEntriesOf, hj]
  have hE' : ∀ j, comps.length ≤ j →
      ((sliceEntriesOf comps).filterMap id).find? (fun e => e.axis == 0 + j) = none := by
    intro j hj
    rw [Nat.zero_add, find_sliceEntriesOf, List.getElem?_eq_none hj]
  have hS : ∀ (j : Nat) (c : Comp), comps[j]? = some c →
      ((scalarsOf comps).map (fun p => p.2)).contains (0 + j) = c.isInt := by
    intro j c hj
    rw [Nat.zero_add, contains_scalarsOf, hj]
  have hS' : ∀ j, comps.length ≤ j → ((scalarsOf comps).map (fun p => p.2)).contains (0 + j) = false := by
    intro j hj
    rw [Nat.zero_add, contains_scalarsOf, List.getElem?_eq_none hj]
  -- every registered slice has an entry (else the converter would have refused) with a non-zero
  -- step (else Slice itself would have failed)
  have hP : ∀ c ∈ comps, sliceOk c := by
    intro c hc lo hi st hcs hsk
    subst hcs
    obtain ⟨j, hj⟩ := List.getElem?_of_mem hc
    have hjl : j < shape.length := by
      have := (List.getElem?_eq_some_iff.mp hj).1
      omega
    have hfd := hE j _ (shape[j]) hj (by simp [hjl])
    rw [Nat.zero_add] at hfd
    have hk : (Comp.slice lo hi st).kind = Kind.sliced := by
      cases lo <;> cases hi <;> cases st <;> first | rfl | (exfalso; exact hsk ⟨rfl, rfl, rfl⟩)
    have hmem : entryOf (.slice lo hi st) j ∈ sliceEntriesOf comps := by
      refine List.mem_map.mpr ⟨(.slice lo hi st, j), List.mem_append_left _ ?_, rfl⟩
      exact List.mem_filter.mpr ⟨List.mk_mem_zipIdx_iff_getElem?.mpr hj, by rw [hk]; rfl⟩
    cases hent : entryOf (.slice lo hi st) j with
    | none =>
      exfalso
      rw [hent] at hmem
      have : (sliceEntriesOf comps).any Option.isNone = true :=
        List.any_eq_true.mpr ⟨none, hmem, rfl⟩
      rw [hnone] at this; cases this
    | some e =>
      rw [hent] at hfd
      have hstep := hz _ (List.mem_of_find?_eq_some hfd)
      rw [entryOf_step lo hi st j e hent] at hstep
      refine ⟨hstep, ?_⟩
      intro s hs
      subst hs
      exact entryOf_dyn_some lo hi s j e hent
  exact slice_squeeze_axiswise_gen ((sliceEntriesOf comps).filterMap id)
    ((scalarsOf comps).map (fun p => p.2)) (fun c j _ => entryOf c j) Comp.isInt graphPre
    sliceOk (fun c j d hPc => graphPre_axisAfter c j d hPc)
    comps shape 0 v1 hlen hP hE hE' hS hS' hgo

/-! ### The converter, whole plans -/

theorem slice_kind_cases (lo hi st : Bnd) :
    (Comp.slice lo hi st).kind = Kind.skip ∨ (Comp.slice lo hi st).kind = Kind.sliced := by
  cases lo <;> cases hi <;> cases st <;> simp [Comp.kind]

theorem gatherOp_isSome_of_kind (c : Comp) (a : Nat)
    (h : (c.kind == Kind.nonScalar || c.kind == Kind.scalar) = true) : (gatherOp a c).isSome = true := by
  cases c with
  | full => exact absurd h (by decide)
  | int i => rfl
  | tScalar v => rfl
  | tVec v => rfl
  | slice lo hi st =>
    rcases slice_kind_cases lo hi st with hk | hk <;> rw [hk] at h <;> exact absurd h (by decide)

/-- Slice path of the converter: Slice, Squeeze, then the Gather chain over the tensor-valued
components, highest axis first, each with the axis of the intermediate result. -/
theorem graph_slicepath_axiswise (comps : List Comp) (shape : List Nat) (r : View)
    (hlen : comps.length ≤ shape.length)
    (huse : useSlice comps = true)
    (h : graphIndex comps shape = .ok r) :
    axiswise (withGather (fun c => c.kind == Kind.nonScalar) graphPre) comps shape = .ok r := by
  unfold graphIndex planGraph at h
  by_cases hempty : ((slicedOf comps).isEmpty && (scalarsOf comps).isEmpty && (nonScalarsOf comps).isEmpty) = true
  · exfalso
    simp only [Bool.and_eq_true, List.isEmpty_iff] at hempty
    have : useSlice comps = false := by simp [useSlice, hempty.1.1, hempty.1.2]
    rw [this] at huse; cases huse
  rw [if_neg hempty, huse] at h
  simp only [if_true] at h
  by_cases hnone : ((sliceEntriesOf comps).any Option.isNone) = true
  · rw [if_pos hnone] at h; simp [bind, Except.bind] at h
  rw [if_neg hnone] at h
  simp only [bind, Except.bind] at h
  rw [runPlan_append] at h
  cases hv1 : runPlan ([PlanOp.slice ((sliceEntriesOf comps).filterMap id)]
            ++ (if ((scalarsOf comps).map (fun p => p.2)).isEmpty then []
                else [PlanOp.squeeze ((scalarsOf comps).map (fun p => p.2))])) (View.init shape) with
  | error e => rw [hv1] at h; cases h
  | ok v1 =>
    rw [hv1] at h
    have hpre := graph_slice_stage comps shape v1 hlen (Bool.eq_false_iff.mpr hnone) hv1
    obtain ⟨mid', hr, hfull⟩ := gather_chain_axiswise (fun c => c.kind == Kind.nonScalar)
      (fun c => c.kind == Kind.scalar) graphPre
      (gatherAxis ((scalarsOf comps).map (fun p => p.2)))
      (by
        intro c srcs hg
        cases c with
        | tScalar v => rfl
        | tVec v => rfl
        | full => exact absurd hg (by decide)
        | int i => exact absurd hg (by simp only [Comp.kind]; decide)
        | slice lo hi st =>
          rcases slice_kind_cases lo hi st with hk | hk <;> rw [hk] at hg <;> exact absurd hg (by decide))
      (by
        intro c a hg
        exact gatherOp_isSome_of_kind c a (by simp [hg]))
      graphPre_isPick
      comps shape 0 [] v1 r
      (by
        intro i c hi _
        have hil : i ≤ comps.length := by
          have := (List.getElem?_eq_some_iff.mp hi).1
          omega
        have := gatherAxis_zipIdx (fun c => c.kind == Kind.scalar) comps i hil
        simp only [Nat.zero_add, List.filter_nil, List.length_nil]
        exact this)
      hpre (by simpa [gatherChain, nonScalarsOf] using h)
    simp only [List.nil_append] at hr
    subst hr
    exact hfull

/-- Gather path of the converter (no Slice): every tensor-valued component and the lone Python
int, highest axis first, with the original axis numbers.  No side condition on the components. -/
theorem graph_gatherpath_axiswise (comps : List Comp) (shape : List Nat) (r : View)
    (hlen : comps.length ≤ shape.length)
    (huse : useSlice comps = false)
    (h : graphIndex comps shape = .ok r) :
    axiswise numpyAxis comps shape = .ok r := by
  have huse' := huse
  simp only [useSlice, Bool.or_eq_false_iff, Bool.not_eq_false', decide_eq_false_iff_not] at huse'
  have hsl' : slicedOf comps = [] := by simpa using huse'.1
  have hnotsliced : ∀ (j : Nat) (c : Comp), comps[j]? = some c → (c.kind == Kind.sliced) = false :=
    filter_zipIdx_nil_forall (fun c => c.kind == Kind.sliced) comps 0 hsl'
  unfold graphIndex planGraph at h
  by_cases hempty : ((slicedOf comps).isEmpty && (scalarsOf comps).isEmpty && (nonScalarsOf comps).isEmpty) = true
  · rw [if_pos hempty] at h
    simp only [Bool.and_eq_true, List.isEmpty_iff] at hempty
    have hr : r = View.init shape := by
      simpa [runPlan, List.foldlM, runOp, bind, Except.bind, pure, Except.pure] using h.symm
    subst hr
    refine axiswise_all_skip comps shape hlen ?_
    intro c hc
    obtain ⟨j, hj⟩ := List.getElem?_of_mem hc
    have h1 := filter_zipIdx_nil_forall (fun c => c.kind == Kind.scalar) comps 0 hempty.1.2 j c hj
    have h2 := hnotsliced j c hj
    have h3 := filter_zipIdx_nil_forall (fun c => c.kind == Kind.nonScalar) comps 0 hempty.2 j c hj
    cases hk : c.kind <;> rw [hk] at h1 h2 h3 <;>
      first | rfl | (exact absurd h1 (by decide)) | (exact absurd h2 (by decide)) | (exact absurd h3 (by decide))
  rw [if_neg hempty, huse] at h
  simp only [Bool.false_eq_true, if_false, bind, Except.bind] at h
  obtain ⟨mid', hr, hfull⟩ := gather_chain_axiswise
    (fun c => c.kind == Kind.nonScalar || c.kind == Kind.scalar) (fun _ => false) pickF (gatherAxis [])
    (fun _ _ _ => rfl)
    (fun c a hg => gatherOp_isSome_of_kind c a hg)
    (by intro c srcs a ha; simp only [pickF, Except.ok.injEq] at ha; subst ha; rfl)
    comps shape 0 [] (View.init shape) r
    (by
      intro i c hi _
      have hil : i ≤ comps.length := by
        have := (List.getElem?_eq_some_iff.mp hi).1
        omega
      have hall : List.filter (fun _ : Comp => true) (List.take i comps) = List.take i comps :=
        List.filter_eq_self.mpr (by simp)
      simp [gatherAxis_nil, hall, List.length_take, Nat.min_eq_left hil])
    (axiswise_pickF comps shape hlen) (by simpa [gatherChain, gatheredOf] using h)
  simp only [List.nil_append] at hr
  subst hr
  refine axiswise_mono _ numpyAxis comps shape r ?_ hfull
  intro j c d a hc _ ha
  simp only [withGather] at ha
  by_cases hg : (c.kind == Kind.nonScalar || c.kind == Kind.scalar) = true
  · simpa [hg] using ha
  · simp only [hg, Bool.false_eq_true, if_false, pickF, Except.ok.injEq] at ha
    subst ha
    refine numpyAxis_skip c _ ?_
    have h2 := hnotsliced j c hc
    cases hk : c.kind <;> rw [hk] at hg h2 <;>
      first | rfl | (exact absurd h2 (by decide)) | (exact absurd hg (by decide))

/-! ### Eager mode -/

/-- What eager mode's Slice(+squeeze) prefix makes of an axis: a 1-D index is not touched by it. -/
def eagerPre (c : Comp) (srcs : List Nat) : Except Err AxisMap :=
  match c with
  | .tVec _ => .ok (.pick srcs)
  | c => eagerAxisSlicePath c srcs

theorem eagerPre_not_vec (c : Comp) (srcs : List Nat) (h : c.isVec = false) :
    eagerPre c srcs = eagerAxisSlicePath c srcs := by
  cases c <;> first | rfl | simp [Comp.isVec] at h

theorem eagerPre_isPick (c : Comp) (srcs : List Nat) (a : AxisMap) (h : eagerPre c srcs = .ok a) :
    a.isPick = !c.isEagerScalar := by
  cases c with
  | full => simp only [eagerPre, eagerAxisSlicePath, Except.ok.injEq] at h; subst h; rfl
  | tVec v => simp only [eagerPre, Except.ok.injEq] at h; subst h; rfl
  | int i =>
    simp only [eagerPre, eagerAxisSlicePath] at h
    cases hs : single? (onnxSliceList srcs i (scalarStop i srcs.length) 1) with
    | error e => simp [hs, bind, Except.bind] at h
    | ok s => simp [hs, bind, Except.bind, pure, Except.pure] at h; subst h; rfl
  | tScalar i =>
    simp only [eagerPre, eagerAxisSlicePath] at h
    cases hs : single? (onnxSliceList srcs i (scalarStop i srcs.length) 1) with
    | error e => simp [hs, bind, Except.bind] at h
    | ok s => simp [hs, bind, Except.bind, pure, Except.pure] at h; subst h; rfl
  | slice lo hi st =>
    simp only [eagerPre, eagerAxisSlicePath] at h
    by_cases hskip : lo = .none ∧ hi = .none ∧ st = .none
    · simp only [hskip, and_self, if_true, Except.ok.injEq] at h; subst h; rfl
    · simp only [hskip, if_false] at h
      by_cases h0 : ((st.val?).getD 1 == 0) = true
      · simp [h0] at h
      · simp [h0] at h; subst h; rfl

theorem entryOfEager_axis (shape : List Nat) (c : Comp) (j : Nat) (e : SliceEntry)
    (he : entryOfEager c j (shape.getD j 0) = some e) : e.axis = j := by
  cases c with
  | full => simp [entryOfEager] at he
  | tVec v => simp [entryOfEager] at he
  | int i => simp [entryOfEager] at he; rw [← he]
  | tScalar i => simp [entryOfEager] at he; rw [← he]
  | slice lo hi st =>
    have he' : (if lo = .none ∧ hi = .none ∧ st = .none then none else
        some (⟨j, (eagerBounds (shape.getD j 0) lo.val? hi.val? ((st.val?).getD 1)).1,
          (eagerBounds (shape.getD j 0) lo.val? hi.val? ((st.val?).getD 1)).2,
          (st.val?).getD 1⟩ : SliceEntry)) = some e := he
    by_cases hsk : lo = .none ∧ hi = .none ∧ st = .none
    · rw [if_pos hsk] at he'; simp at he'
    · rw [if_neg hsk] at he'; simp at he'; rw [← he']

theorem find_eagerEntriesOf (comps : List Comp) (shape : List Nat) (j : Nat) :
    (eagerEntriesOf comps shape).find? (fun e => e.axis == j)
      = (match comps[j]? with
         | some c => entryOfEager c j (shape.getD j 0)
         | none => none) := by
  simp only [eagerEntriesOf, List.filterMap_append, List.find?_append, eSlicedOf, eScalarsOf]
  have e1 := find_entries_zipIdx_gen Comp.isEagerSliced
    (fun c j => entryOfEager c j (shape.getD j 0)) (entryOfEager_axis shape) comps 0 j
  have e2 := find_entries_zipIdx_gen Comp.isEagerScalar
    (fun c j => entryOfEager c j (shape.getD j 0)) (entryOfEager_axis shape) comps 0 j
  simp only [Nat.zero_le, if_true, Nat.sub_zero] at e1 e2
  rw [e1, e2]
  cases hc : comps[j]? with
  | none => rfl
  | some c =>
    cases c with
    | full => rfl
    | int i => rfl
    | tScalar i => rfl
    | tVec v => rfl
    | slice lo hi st =>
      by_cases hsk : lo = .none ∧ hi = .none ∧ st = .none
      · obtain ⟨rfl, rfl, rfl⟩ := hsk; rfl
      · have h1 : (Comp.slice lo hi st).isEagerSliced = true := by simp [Comp.isEagerSliced, hsk]
        have h2 : (Comp.slice lo hi st).isEagerScalar = false := rfl
        simp only [h1, h2, if_true, Bool.false_eq_true, if_false, Option.or_none]

theorem contains_eScalarsOf (comps : List Comp) (j : Nat) :
    ((eScalarsOf comps).map (fun p => p.2)).contains j
      = (match comps[j]? with | some c => c.isEagerScalar | none => false) := by
  have := contains_zipIdx Comp.isEagerScalar comps 0 j
  simp only [Nat.zero_le, if_true, Nat.sub_zero] at this
  simp only [eScalarsOf]
  exact this

theorem eager_slice_stage (comps : List Comp) (shape : List Nat) (v1 : View)
    (hlen : comps.length ≤ shape.length)
    (h : runPlan ([PlanOp.slice (eagerEntriesOf comps shape)]
            ++ (if ((eScalarsOf comps).map (fun p => p.2)).isEmpty then []
                else [PlanOp.npSqueeze ((eScalarsOf comps).map (fun p => p.2))])) (View.init shape) = .ok v1) :
    axiswise eagerPre comps shape = .ok v1 := by
  obtain ⟨hz, hgo⟩ := slice_squeeze_run PlanOp.npSqueeze (fun _ _ => rfl) _ _ _ _ h
  have hE : ∀ (j : Nat) (c : Comp) (d : Nat), comps[j]? = some c → shape[j]? = some d →
      (eagerEntriesOf comps shape).find? (fun e => e.axis == 0 + j) = entryOfEager c (0 + j) d := by
    intro j c d hj hd
    have hd' : shape.getD j 0 = d := by simp [List.getD, hd]
    rw [Nat.zero_add, find_eagerEntriesOf, hj]
    simp only [hd']
  have hE' : ∀ j, comps.length ≤ j →
      (eagerEntriesOf comps shape).find? (fun e => e.axis == 0 + j) = none := by
    intro j hj
    rw [Nat.zero_add, find_eagerEntriesOf, List.getElem?_eq_none hj]
  have hS : ∀ (j : Nat) (c : Comp), comps[j]? = some c →
      ((eScalarsOf comps).map (fun p => p.2)).contains (0 + j) = c.isEagerScalar := by
    intro j c hj
    rw [Nat.zero_add, contains_eScalarsOf, hj]
  have hS' : ∀ j, comps.length ≤ j →
      ((eScalarsOf comps).map (fun p => p.2)).contains (0 + j) = false := by
    intro j hj
    rw [Nat.zero_add, contains_eScalarsOf, List.getElem?_eq_none hj]
  have hP : ∀ c ∈ comps, (∀ lo hi st, c = .slice lo hi st →
      ¬ (lo = .none ∧ hi = .none ∧ st = .none) → (st.val?).getD 1 ≠ 0) := by
    intro c hc lo hi st hcs hsk h0
    subst hcs
    obtain ⟨j, hj⟩ := List.getElem?_of_mem hc
    have hjl : j < shape.length := by
      have := (List.getElem?_eq_some_iff.mp hj).1
      omega
    have hfd := hE j _ (shape[j]) hj (by simp [hjl])
    have hent : entryOfEager (.slice lo hi st) (0 + j) shape[j]
        = some ⟨0 + j, (eagerBounds shape[j] lo.val? hi.val? ((st.val?).getD 1)).1,
            (eagerBounds shape[j] lo.val? hi.val? ((st.val?).getD 1)).2, (st.val?).getD 1⟩ := by
      show (if _ then _ else _) = _
      rw [if_neg hsk]
    rw [hent] at hfd
    exact hz _ (List.mem_of_find?_eq_some hfd) h0
  exact slice_squeeze_axiswise_gen (eagerEntriesOf comps shape)
    ((eScalarsOf comps).map (fun p => p.2)) entryOfEager Comp.isEagerScalar eagerPre
    (fun c => (∀ lo hi st, c = .slice lo hi st →
        ¬ (lo = .none ∧ hi = .none ∧ st = .none) → (st.val?).getD 1 ≠ 0))
    (by
      intro c j d hst
      cases c with
      | tScalar v => simp [eagerPre, eagerAxisSlicePath, axisAfter, entryOfEager, applyEntry, Comp.isEagerScalar]
      | tVec v => simp [eagerPre, axisAfter, entryOfEager, applyEntry, Comp.isEagerScalar]
      | full => simp [eagerPre, eagerAxisSlicePath, axisAfter, entryOfEager, applyEntry, Comp.isEagerScalar]
      | int i => simp [eagerPre, eagerAxisSlicePath, axisAfter, entryOfEager, applyEntry, Comp.isEagerScalar]
      | slice lo hi st =>
        by_cases hsk : lo = .none ∧ hi = .none ∧ st = .none
        · simp [eagerPre, eagerAxisSlicePath, axisAfter, entryOfEager, applyEntry, Comp.isEagerScalar, hsk]
        · have h0 := hst lo hi st rfl hsk
          have hb0 : ((st.val?).getD 1 == 0) = false := by simpa using h0
          simp [eagerPre, eagerAxisSlicePath, axisAfter, entryOfEager, applyEntry, Comp.isEagerScalar, hsk, hb0])
    comps shape 0 v1 hlen hP hE hE' hS hS' hgo

theorem reverse_of_length_le_one {α} (l : List α) (h : l.length ≤ 1) : l.reverse = l := by
  cases l with
  | nil => rfl
  | cons a t =>
    cases t with
    | nil => rfl
    | cons b t' => simp at h

theorem zipIdx_filter_length (F : Comp → Bool) :
    ∀ (l : List Comp) (n : Nat), ((l.zipIdx n).filter (fun p => F p.1)).length = (l.filter F).length := by
  intro l
  induction l with
  | nil => intro n; rfl
  | cons c l ih =>
    intro n
    simp only [List.zipIdx_cons, List.filter_cons]
    cases F c <;> simp [ih (n + 1)]

theorem numpyAxis_vec_isPick (c : Comp) (srcs : List Nat) (a : AxisMap) (hv : c.isVec = true)
    (h : numpyAxis c srcs = .ok a) : a.isPick = true := by
  cases c with
  | tVec vs =>
    simp only [numpyAxis] at h
    split at h
    · simp only [Except.ok.injEq] at h; subst h; rfl
    · cases h
  | full => simp [Comp.isVec] at hv
  | int i => simp [Comp.isVec] at hv
  | tScalar i => simp [Comp.isVec] at hv
  | slice lo hi st => simp [Comp.isVec] at hv

/-- The 1-D Gathers at the end of `Tensor.__getitem__` — any number of them. -/
theorem eager_vec_stage (comps : List Comp) (shape : List Nat) (v1 r : View)
    (preF : Comp → List Nat → Except Err AxisMap)
    (hG : ∀ c srcs, c.isVec = true → preF c srcs = .ok (.pick srcs))
    (hD : ∀ c srcs a, preF c srcs = .ok a → a.isPick = !c.isEagerScalar)
    (hpre : axiswise preF comps shape = .ok v1)
    (hrun : runPlan ((eVecsOf comps).filterMap
        (fun p => gatherOp (gatherAxis ((eScalarsOf comps).map (fun p => p.2)) p.2) p.1)) v1 = .ok r) :
    axiswise (withGather Comp.isVec preF) comps shape = .ok r := by
  obtain ⟨mid', hr, hfull⟩ := gather_chain_axiswise_fwd Comp.isVec Comp.isEagerScalar preF
    (gatherAxis ((eScalarsOf comps).map (fun p => p.2))) hG
    (by intro c a hg; cases c <;> first | rfl | simp [Comp.isVec] at hg)
    (fun c srcs a hg hn => numpyAxis_vec_isPick c srcs a hg hn)
    hD comps shape 0 [] v1 r
    (by
      intro i c hi _
      have hil : i ≤ comps.length := by
        have := (List.getElem?_eq_some_iff.mp hi).1
        omega
      have := gatherAxis_zipIdx Comp.isEagerScalar comps i hil
      simp only [Nat.zero_add, List.filter_nil, List.length_nil]
      exact this)
    hpre (by simpa [eVecsOf] using hrun)
  simp only [List.nil_append] at hr
  subst hr
  exact hfull

theorem kind_skip_of_not_eager (c : Comp) (h1 : c.isEagerSliced = false) (h2 : c.isEagerScalar = false)
    (h3 : c.isVec = false) : c.kind = Kind.skip := by
  cases c with
  | full => rfl
  | int i => simp [Comp.isEagerScalar] at h2
  | tScalar v => simp [Comp.isEagerScalar] at h2
  | tVec v => simp [Comp.isVec] at h3
  | slice lo hi st =>
    have : lo = .none ∧ hi = .none ∧ st = .none := by simpa [Comp.isEagerSliced] using h1
    obtain ⟨rfl, rfl, rfl⟩ := this
    rfl

/-- On rank-0 components `gatherOp` is `gatherScalar`. -/
theorem filterMap_gatherOp_scalars (l : List (Comp × Nat)) (hl : ∀ p ∈ l, p.1.isEagerScalar = true) :
    l.filterMap (fun p => gatherOp (gatherAxis [] p.2) p.1)
      = l.map (fun p => PlanOp.gatherScalar p.2 p.1.scalarVal) := by
  induction l with
  | nil => rfl
  | cons p l ih =>
    have hp := hl p (by simp)
    rw [List.filterMap_cons, List.map_cons, ih (fun q hq => hl q (by simp [hq]))]
    obtain ⟨c, j⟩ := p
    cases c with
    | full => simp [Comp.isEagerScalar] at hp
    | tVec v => simp [Comp.isEagerScalar] at hp
    | slice lo hi st => simp [Comp.isEagerScalar] at hp
    | int i => simp [gatherOp, gatherAxis_nil, Comp.scalarVal]
    | tScalar i => simp [gatherOp, gatherAxis_nil, Comp.scalarVal]

/-- **Eager mode, whole plans.**  If `Tensor.__getitem__` returns a tensor (any number of 1-D indices),
the view is built axis by axis, and every axis is either NumPy's result or the result of the
Slice(+squeeze) treatment of that component. -/
theorem eager_index_axiswise (comps : List Comp) (shape : List Nat) (r : View)
    (h : eagerIndex comps shape = .ok r) :
    comps.length ≤ shape.length ∧
    ∃ F : Comp → List Nat → Except Err AxisMap, axiswise F comps shape = .ok r ∧
      ∀ (j : Nat) (c : Comp) (d : Nat) (a : AxisMap), comps[j]? = some c → shape[j]? = some d →
        F c (List.range d) = .ok a →
        (numpyAxis c (List.range d) = .ok a ∨ eagerAxisSlicePath c (List.range d) = .ok a) := by
  unfold eagerIndex planEager at h
  by_cases hlen : comps.length > shape.length
  · rw [if_pos hlen] at h; simp [bind, Except.bind] at h
  rw [if_neg hlen] at h
  have hlen' : comps.length ≤ shape.length := by omega
  refine ⟨hlen', ?_⟩
  by_cases hz0 : (comps.any (fun c => c.isEagerSliced && c.stepVal == 0)) = true
  · rw [if_pos hz0] at h; simp [bind, Except.bind] at h
  rw [if_neg hz0] at h
  -- the two Gather-only shapes of the plan end in the same per-axis function
  have hgatherF : ∀ v1, axiswise (withGather Comp.isEagerScalar pickF) comps shape = .ok v1 →
      eSlicedOf comps = [] →
      runPlan ((eVecsOf comps).filterMap
        (fun p => gatherOp (gatherAxis ((eScalarsOf comps).map (fun p => p.2)) p.2) p.1)) v1 = .ok r →
      ∃ F : Comp → List Nat → Except Err AxisMap, axiswise F comps shape = .ok r ∧
        ∀ (j : Nat) (c : Comp) (d : Nat) (a : AxisMap), comps[j]? = some c → shape[j]? = some d →
          F c (List.range d) = .ok a →
          (numpyAxis c (List.range d) = .ok a ∨ eagerAxisSlicePath c (List.range d) = .ok a) := by
    intro v1 hv1 hsl hrun
    refine ⟨withGather Comp.isVec (withGather Comp.isEagerScalar pickF), ?_, ?_⟩
    · refine eager_vec_stage comps shape v1 r _ ?_ ?_ hv1 hrun
      · intro c srcs hv
        have : c.isEagerScalar = false := by cases c <;> first | rfl | simp [Comp.isVec] at hv
        simp [withGather, this, pickF]
      · intro c srcs a ha
        simp only [withGather] at ha
        cases hs : c.isEagerScalar with
        | false =>
          simp only [hs, Bool.false_eq_true, if_false, pickF, Except.ok.injEq] at ha
          subst ha; rfl
        | true =>
          simp only [hs, if_true] at ha
          cases c with
          | full => simp [Comp.isEagerScalar] at hs
          | tVec v => simp [Comp.isEagerScalar] at hs
          | slice lo hi st => simp [Comp.isEagerScalar] at hs
          | int i =>
            simp only [numpyAxis] at ha
            cases hn : normIdx srcs.length i with
            | none => simp [hn] at ha
            | some k =>
              cases hk : srcs[k]? with
              | none => simp [hn, hk] at ha
              | some s' => simp [hn, hk] at ha; subst ha; rfl
          | tScalar i =>
            simp only [numpyAxis] at ha
            cases hn : normIdx srcs.length i with
            | none => simp [hn] at ha
            | some k =>
              cases hk : srcs[k]? with
              | none => simp [hn, hk] at ha
              | some s' => simp [hn, hk] at ha; subst ha; rfl
    · intro j c d a hc _ ha
      left
      simp only [withGather] at ha
      by_cases hv : c.isVec = true
      · simpa [hv] using ha
      · by_cases hs : c.isEagerScalar = true
        · simpa [hv, hs] using ha
        · simp only [hv, hs, Bool.false_eq_true, if_false, pickF, Except.ok.injEq] at ha
          subst ha
          refine numpyAxis_skip c _ (kind_skip_of_not_eager c ?_ (by simpa using hs) (by simpa using hv))
          exact filter_zipIdx_nil_forall Comp.isEagerSliced comps 0 hsl j c hc
  by_cases hempty : ((eSlicedOf comps).isEmpty && (eScalarsOf comps).isEmpty && (eVecsOf comps).isEmpty) = true
  · -- Identity
    rw [if_pos hempty] at h
    simp only [Bool.and_eq_true, List.isEmpty_iff] at hempty
    have hr : r = View.init shape := by
      simpa [runPlan, List.foldlM, runOp, bind, Except.bind, pure, Except.pure] using h.symm
    subst hr
    refine ⟨pickF, axiswise_pickF comps shape hlen', ?_⟩
    intro j c d a hc _ ha
    left
    simp only [pickF, Except.ok.injEq] at ha
    subst ha
    exact numpyAxis_skip c _ (kind_skip_of_not_eager c
      (filter_zipIdx_nil_forall Comp.isEagerSliced comps 0 hempty.1.1 j c hc)
      (filter_zipIdx_nil_forall Comp.isEagerScalar comps 0 hempty.1.2 j c hc)
      (filter_zipIdx_nil_forall Comp.isVec comps 0 hempty.2 j c hc))
  rw [if_neg hempty] at h
  simp only [bind, Except.bind] at h
  rw [runPlan_append] at h
  by_cases hg : ((eSlicedOf comps).isEmpty && ((eScalarsOf comps).length == 1)) = true
  · -- single Gather, then the 1-D Gathers
    rw [if_pos hg] at h
    simp only [Bool.and_eq_true, List.isEmpty_iff, beq_iff_eq] at hg
    obtain ⟨hsl, hone⟩ := hg
    cases hv1 : runPlan ((eScalarsOf comps).map (fun p => PlanOp.gatherScalar p.2 p.1.scalarVal))
        (View.init shape) with
    | error e => rw [hv1] at h; cases h
    | ok v1 =>
      rw [hv1] at h
      refine hgatherF v1 ?_ hsl h
      obtain ⟨mid', hr, hfull⟩ := gather_chain_axiswise Comp.isEagerScalar (fun _ => false) pickF
        (gatherAxis []) (fun _ _ _ => rfl)
        (by intro c a hg; cases c <;> first | rfl | simp [Comp.isEagerScalar] at hg)
        (by intro c srcs a ha; simp only [pickF, Except.ok.injEq] at ha; subst ha; rfl)
        comps shape 0 [] (View.init shape) v1
        (by
          intro i c hi _
          have hil : i ≤ comps.length := by
            have := (List.getElem?_eq_some_iff.mp hi).1
            omega
          have hall : List.filter (fun _ : Comp => true) (List.take i comps) = List.take i comps :=
            List.filter_eq_self.mpr (by simp)
          simp [gatherAxis_nil, hall, List.length_take, Nat.min_eq_left hil])
        (axiswise_pickF comps shape hlen')
        (by
          rw [reverse_of_length_le_one _ (by rw [← eScalarsOf]; omega)]
          rw [← hv1]
          congr 1
          rw [← eScalarsOf]
          exact filterMap_gatherOp_scalars _ (fun p hp => by
            simp only [eScalarsOf, List.mem_filter] at hp
            exact hp.2))
      simp only [List.nil_append] at hr
      subst hr
      exact hfull
  · rw [if_neg hg] at h
    by_cases hany : (!(eSlicedOf comps).isEmpty || !(eScalarsOf comps).isEmpty) = true
    · -- Slice (+ np.squeeze), then the 1-D Gathers
      rw [if_pos hany] at h
      cases hv1 : runPlan ([PlanOp.slice (eagerEntriesOf comps shape)] ++
          (if (eScalarsOf comps).isEmpty then []
           else [PlanOp.npSqueeze ((eScalarsOf comps).map (fun p => p.2))])) (View.init shape) with
      | error e => rw [hv1] at h; cases h
      | ok v1 =>
        rw [hv1] at h
        have hpre := eager_slice_stage comps shape v1 hlen' (by simpa using hv1)
        refine ⟨withGather Comp.isVec eagerPre, ?_, ?_⟩
        · exact eager_vec_stage comps shape v1 r eagerPre
            (by intro c srcs hv; cases c <;> first | rfl | simp [Comp.isVec] at hv)
            eagerPre_isPick hpre h
        · intro j c d a _ _ ha
          simp only [withGather] at ha
          by_cases hv : c.isVec = true
          · left; simpa [hv] using ha
          · right
            have hv' : c.isVec = false := by simpa using hv
            simpa [hv', eagerPre_not_vec c _ hv'] using ha
    · -- only 1-D Gathers
      rw [if_neg hany] at h
      have hn : (eSlicedOf comps).isEmpty = true ∧ (eScalarsOf comps).isEmpty = true := by
        cases h1 : (eSlicedOf comps).isEmpty <;> cases h2 : (eScalarsOf comps).isEmpty <;> simp_all
      simp only [List.isEmpty_iff] at hn
      simp only [runPlan_nil] at h
      refine hgatherF (View.init shape) ?_ hn.1 h
      refine axiswise_mono pickF _ comps shape _ ?_ (axiswise_pickF comps shape hlen')
      intro j c d a hc _ ha
      have hs := filter_zipIdx_nil_forall Comp.isEagerScalar comps 0 hn.2 j c hc
      simp [withGather, hs, ha]

/-- NumPy's own guards (`too many indices`, two or more 1-D indices, broadcast axis moved to the
front) do not fire under the hypotheses of the whole-expression theorems. -/
theorem numpyIndex_of_axiswise (comps : List Comp) (shape : List Nat) (r : View)
    (hvec : (comps.filter Comp.isVec).length ≤ 1)
    (hnt : needsTranspose comps = false)
    (hlen : comps.length ≤ shape.length)
    (h : axiswise numpyAxis comps shape = .ok r) : numpyIndex comps shape = .ok r := by
  unfold numpyIndex
  rw [if_neg (by omega), if_neg (by omega), hnt]
  simpa using h

/-! ### Surplus `:` components (finding C11-N1: too many indices) -/

theorem filter_zipIdx_append_none (F : Comp → Bool) (l1 l2 : List Comp) (h : ∀ c ∈ l2, F c = false) :
    (l1 ++ l2).zipIdx.filter (fun p => F p.1) = l1.zipIdx.filter (fun p => F p.1) := by
  rw [List.zipIdx_append, List.filter_append, filter_zipIdx_none F l2 _ h, List.append_nil]

/-- The converter looks only at the components that are not `:`; appending `:`s changes nothing in
the plan — whatever the rank of the tensor is. -/
theorem planGraph_append_skips (comps extra : List Comp) (hextra : ∀ c ∈ extra, c.kind = Kind.skip) :
    planGraph (comps ++ extra) = planGraph comps := by
  have h1 : slicedOf (comps ++ extra) = slicedOf comps :=
    filter_zipIdx_append_none (fun c => c.kind == Kind.sliced) comps extra
      (fun c hc => by rw [hextra c hc]; rfl)
  have h2 : scalarsOf (comps ++ extra) = scalarsOf comps :=
    filter_zipIdx_append_none (fun c => c.kind == Kind.scalar) comps extra
      (fun c hc => by rw [hextra c hc]; rfl)
  have h3 : nonScalarsOf (comps ++ extra) = nonScalarsOf comps :=
    filter_zipIdx_append_none (fun c => c.kind == Kind.nonScalar) comps extra
      (fun c hc => by rw [hextra c hc]; rfl)
  have h4 : gatheredOf (comps ++ extra) = gatheredOf comps :=
    filter_zipIdx_append_none (fun c => c.kind == Kind.nonScalar || c.kind == Kind.scalar) comps extra
      (fun c hc => by rw [hextra c hc]; rfl)
  unfold planGraph useSlice sliceEntriesOf
  rw [h1, h2, h3, h4]

/-! ### Too many indices: a surplus component that is not `:` makes the graph fail -/

theorem View.init_rank (ds : List Nat) : (View.init ds).rank = ds.length := by
  unfold View.rank View.init
  induction ds with
  | nil => rfl
  | cons d ds ih => simp only [List.map_cons, List.filter_cons, AxisMap.isPick, if_true, List.length_cons, ih]

theorem modifyPick_rank_fail (f : List Nat → Except Err AxisMap) :
    ∀ (v : View) (k : Nat), v.rank ≤ k → ∃ e, modifyPick k f v = .error e := by
  intro v
  induction v with
  | nil => intro k _; exact ⟨_, rfl⟩
  | cons a rest ih =>
    intro k hk
    cases a with
    | drop s =>
      have hk' : View.rank rest ≤ k := by
        simpa [View.rank, List.filter_cons, AxisMap.isPick] using hk
      obtain ⟨e, he⟩ := ih k hk'
      exact ⟨e, by simp [modifyPick, he, bind, Except.bind]⟩
    | pick srcs =>
      have hk' : View.rank rest + 1 ≤ k := by
        simpa [View.rank, List.filter_cons, AxisMap.isPick] using hk
      cases k with
      | zero => omega
      | succ k =>
        obtain ⟨e, he⟩ := ih k (by omega)
        exact ⟨e, by simp [modifyPick, he, bind, Except.bind]⟩

/-- A Gather chain all of whose selected components name an axis that is not there fails (the
first Gather that runs — the one for the last selected component — already does). -/
theorem gather_chain_fails (G : Comp → Bool) (axisOf : Nat → Nat)
    (hGop : ∀ c a, G c = true → (gatherOp a c).isSome = true) :
    ∀ (cs : List Comp) (n : Nat) (v : View),
      (∀ (i : Nat) (c : Comp), cs[i]? = some c → G c = true → v.rank ≤ axisOf (n + i)) →
      (∃ (i : Nat) (c : Comp), cs[i]? = some c ∧ G c = true) →
      ∃ e, runPlan ((((cs.zipIdx n).filter (fun p => G p.1)).reverse).filterMap
          (fun p => gatherOp (axisOf p.2) p.1)) v = .error e := by
  intro cs
  induction cs with
  | nil =>
    intro n v _ hex
    obtain ⟨i, c, hi, _⟩ := hex
    simp at hi
  | cons c cs ih =>
    intro n v hA hex
    have hA' : ∀ (i : Nat) (c' : Comp), cs[i]? = some c' → G c' = true → v.rank ≤ axisOf (n + 1 + i) := by
      intro i c' hi hg
      have := hA (i + 1) c' (by simpa using hi) hg
      rwa [show n + (i + 1) = n + 1 + i by omega] at this
    simp only [List.zipIdx_cons]
    by_cases htail : ∃ (i : Nat) (c' : Comp), cs[i]? = some c' ∧ G c' = true
    · obtain ⟨e, he⟩ := ih (n + 1) v hA' htail
      by_cases hg : G c = true
      · have hfil : ((c, n) :: cs.zipIdx (n + 1)).filter (fun p => G p.1)
            = (c, n) :: (cs.zipIdx (n + 1)).filter (fun p => G p.1) := by simp [hg]
        rw [hfil, List.reverse_cons, List.filterMap_append, runPlan_append, he]
        exact ⟨e, rfl⟩
      · have hg' : G c = false := by simpa using hg
        have hfil : ((c, n) :: cs.zipIdx (n + 1)).filter (fun p => G p.1)
            = (cs.zipIdx (n + 1)).filter (fun p => G p.1) := by simp [hg']
        rw [hfil]
        exact ⟨e, he⟩
    · have hnone : ∀ c' ∈ cs, G c' = false := by
        intro c' hc'
        obtain ⟨i, hi⟩ := List.getElem?_of_mem hc'
        cases hg : G c' with
        | false => rfl
        | true => exact absurd ⟨i, c', hi, hg⟩ htail
      have hg : G c = true := by
        obtain ⟨i, c', hi, hg⟩ := hex
        cases i with
        | zero => simp at hi; subst hi; exact hg
        | succ i => exact absurd ⟨i, c', by simpa using hi, hg⟩ htail
      have hfil : ((c, n) :: cs.zipIdx (n + 1)).filter (fun p => G p.1) = [(c, n)] := by
        simp only [List.filter_cons, hg, if_true, filter_zipIdx_none G cs (n + 1) hnone]
      obtain ⟨op, hop⟩ := Option.isSome_iff_exists.mp (hGop c (axisOf n) hg)
      rw [hfil]
      simp only [List.reverse_cons, List.reverse_nil, List.nil_append, List.filterMap_cons, hop,
        List.filterMap_nil, runPlan_singleton]
      rw [gatherOp_run _ _ _ hop]
      exact modifyPick_rank_fail _ v _ (by simpa using hA 0 c (by simp) hg)

/-- The chain over `pre ++ suf` runs the part for `suf` first. -/
theorem gather_chain_split (G : Comp → Bool) (axisOf : Nat → Nat) (pre suf : List Comp) :
    ((((pre ++ suf).zipIdx).filter (fun p => G p.1)).reverse).filterMap
        (fun p => gatherOp (axisOf p.2) p.1)
      = ((((suf.zipIdx pre.length).filter (fun p => G p.1)).reverse).filterMap
            (fun p => gatherOp (axisOf p.2) p.1))
        ++ ((((pre.zipIdx).filter (fun p => G p.1)).reverse).filterMap
            (fun p => gatherOp (axisOf p.2) p.1)) := by
  rw [List.zipIdx_append, List.filter_append, List.reverse_append, List.filterMap_append, Nat.zero_add]

theorem axiswise_rank (f : Comp → List Nat → Except Err AxisMap) (D : Comp → Bool)
    (hD : ∀ c srcs a, f c srcs = .ok a → a.isPick = !D c) :
    ∀ (cs : List Comp) (ds : List Nat) (v : View), cs.length = ds.length →
      axiswise f cs ds = .ok v → v.rank = (cs.filter (fun c => !D c)).length := by
  intro cs
  induction cs with
  | nil =>
    intro ds v hl h
    cases ds with
    | nil => simp only [axiswise, Except.ok.injEq] at h; subst h; rfl
    | cons d ds => simp at hl
  | cons c cs ih =>
    intro ds v hl h
    cases ds with
    | nil => simp at hl
    | cons d ds =>
      obtain ⟨a, m, ha, hm, rfl⟩ := axiswise_cons_ok f c cs d ds v h
      have := ih ds m (by simpa using hl) hm
      have hp := hD c _ a ha
      simp only [View.rank] at this ⊢
      simp only [List.filter_cons, hp]
      cases D c <;> simp [this]

/-- **Too many indices**: a component at a position beyond the rank that is not `:` makes the
translated graph fail (Slice names an axis that is not there, or the first Gather of the chain
does) — for every expression, shape and path of the converter. -/
theorem graph_surplus_nonskip_fails (comps : List Comp) (shape : List Nat) (j : Nat) (c : Comp)
    (hj : comps[j]? = some c) (hjn : shape.length ≤ j) (hk : c.kind ≠ Kind.skip) :
    ∃ e, graphIndex comps shape = .error e := by
  have hjlen : j < comps.length := (List.getElem?_eq_some_iff.mp hj).1
  unfold graphIndex planGraph
  by_cases hempty : ((slicedOf comps).isEmpty && (scalarsOf comps).isEmpty && (nonScalarsOf comps).isEmpty) = true
  · exfalso
    simp only [Bool.and_eq_true, List.isEmpty_iff] at hempty
    have h1 := filter_zipIdx_nil_forall (fun c => c.kind == Kind.scalar) comps 0 hempty.1.2 j c hj
    have h2 := filter_zipIdx_nil_forall (fun c => c.kind == Kind.sliced) comps 0 hempty.1.1 j c hj
    have h3 := filter_zipIdx_nil_forall (fun c => c.kind == Kind.nonScalar) comps 0 hempty.2 j c hj
    cases hkk : c.kind <;> rw [hkk] at h1 h2 h3 hk <;>
      first | (exact hk rfl) | (exact absurd h1 (by decide)) | (exact absurd h2 (by decide)) | (exact absurd h3 (by decide))
  rw [if_neg hempty]
  -- comps = pre ++ suf, the surplus components are `suf`
  have hsplit : comps = comps.take shape.length ++ comps.drop shape.length := (List.take_append_drop _ _).symm
  have hprelen : (comps.take shape.length).length = shape.length := by
    rw [List.length_take]; omega
  cases huse : useSlice comps with
  | false =>
    simp only [Bool.false_eq_true, if_false, bind, Except.bind]
    have huse' := huse
    simp only [useSlice, Bool.or_eq_false_iff, Bool.not_eq_false', decide_eq_false_iff_not] at huse'
    have hsl' : slicedOf comps = [] := by simpa using huse'.1
    have hg : (c.kind == Kind.nonScalar || c.kind == Kind.scalar) = true := by
      have h2 := filter_zipIdx_nil_forall (fun c => c.kind == Kind.sliced) comps 0 hsl' j c hj
      cases hkk : c.kind <;> rw [hkk] at h2 hk <;>
        first | rfl | (exact absurd rfl hk) | (exact absurd h2 (by decide))
    unfold gatherChain gatheredOf
    have hchain := gather_chain_split (fun c => c.kind == Kind.nonScalar || c.kind == Kind.scalar)
      (gatherAxis []) (comps.take shape.length) (comps.drop shape.length)
    rw [List.take_append_drop] at hchain
    rw [hchain, runPlan_append]
    obtain ⟨e, he⟩ := gather_chain_fails (fun c => c.kind == Kind.nonScalar || c.kind == Kind.scalar)
      (gatherAxis []) (fun c a hg => gatherOp_isSome_of_kind c a hg)
      (comps.drop shape.length) (comps.take shape.length).length (View.init shape)
      (by intro i c' _ _; rw [gatherAxis_nil, View.init_rank, hprelen]; omega)
      ⟨j - shape.length, c, by rw [List.getElem?_drop, show shape.length + (j - shape.length) = j by omega]; exact hj, hg⟩
    rw [he]
    exact ⟨e, rfl⟩
  | true =>
    simp only [if_true]
    by_cases hnone : ((sliceEntriesOf comps).any Option.isNone) = true
    · rw [if_pos hnone]; exact ⟨_, rfl⟩
    rw [if_neg hnone]
    simp only [bind, Except.bind]
    rw [runPlan_append]
    -- a surplus slice or Python int: Slice itself names an axis that is not there
    by_cases hss : ∃ j' c', comps[j']? = some c' ∧ shape.length ≤ j' ∧
        (c'.kind = Kind.sliced ∨ c'.kind = Kind.scalar)
    · obtain ⟨j', c', hj', hjn', hkind⟩ := hss
      have hfind : ((sliceEntriesOf comps).filterMap id).find? (fun e => e.axis == j') = entryOf c' j' := by
        rw [find_sliceEntriesOf, hj']
      have hmem : entryOf c' j' ∈ sliceEntriesOf comps := by
        refine List.mem_map.mpr ⟨(c', j'), ?_, rfl⟩
        rcases hkind with hkk | hkk
        · exact List.mem_append_left _ (List.mem_filter.mpr
            ⟨List.mk_mem_zipIdx_iff_getElem?.mpr hj', by rw [hkk]; rfl⟩)
        · exact List.mem_append_right _ (List.mem_filter.mpr
            ⟨List.mk_mem_zipIdx_iff_getElem?.mpr hj', by rw [hkk]; rfl⟩)
      cases hent : entryOf c' j' with
      | none =>
        exfalso
        rw [hent] at hmem
        exact hnone (List.any_eq_true.mpr ⟨none, hmem, rfl⟩)
      | some e =>
        rw [hent] at hfind
        have hE : e ∈ (sliceEntriesOf comps).filterMap id := List.mem_of_find?_eq_some hfind
        have hax : e.axis = j' := entryOf_axis c' j' e hent
        have hsl : ∃ err, opSlice ((sliceEntriesOf comps).filterMap id) (View.init shape) = .error err := by
          unfold opSlice
          by_cases h0 : (((sliceEntriesOf comps).filterMap id).any fun e => e.step == 0) = true
          · rw [if_pos h0]; exact ⟨_, rfl⟩
          · rw [if_neg h0]
            have : (((sliceEntriesOf comps).filterMap id).any fun e => decide (e.axis ≥ (View.init shape).rank)) = true :=
              List.any_eq_true.mpr ⟨e, hE, by rw [View.init_rank, hax]; simpa using hjn'⟩
            rw [if_pos this]; exact ⟨_, rfl⟩
        obtain ⟨err, herr⟩ := hsl
        rw [runPlan_append, runPlan_singleton]
        simp only [runOp, herr]
        exact ⟨err, rfl⟩
    · -- the surplus components are `:` or tensor-valued, and `c` is tensor-valued
      have hsuf : ∀ c' ∈ comps.drop shape.length, (c'.kind == Kind.sliced) = false ∧ (c'.kind == Kind.scalar) = false := by
        intro c' hc'
        obtain ⟨i, hi⟩ := List.getElem?_of_mem hc'
        rw [List.getElem?_drop] at hi
        have hno : ¬ (c'.kind = Kind.sliced ∨ c'.kind = Kind.scalar) :=
          fun hkk => hss ⟨shape.length + i, c', hi, by omega, hkk⟩
        cases hkk : c'.kind <;> rw [hkk] at hno <;> first | (exact ⟨rfl, rfl⟩) | (exact absurd (Or.inl rfl) hno) | (exact absurd (Or.inr rfl) hno)
      have hcns : (c.kind == Kind.nonScalar) = true := by
        have hno : ¬ (c.kind = Kind.sliced ∨ c.kind = Kind.scalar) := fun hkk => hss ⟨j, c, hj, hjn, hkk⟩
        cases hkk : c.kind <;> rw [hkk] at hno hk <;>
          first | rfl | (exact absurd rfl hk) | (exact absurd (Or.inl rfl) hno) | (exact absurd (Or.inr rfl) hno)
      have h1 : slicedOf comps = slicedOf (comps.take shape.length) := by
        conv => lhs; rw [hsplit]
        exact filter_zipIdx_append_none (fun c => c.kind == Kind.sliced) _ _ (fun c' hc' => (hsuf c' hc').1)
      have h2 : scalarsOf comps = scalarsOf (comps.take shape.length) := by
        conv => lhs; rw [hsplit]
        exact filter_zipIdx_append_none (fun c => c.kind == Kind.scalar) _ _ (fun c' hc' => (hsuf c' hc').2)
      have h3 : sliceEntriesOf comps = sliceEntriesOf (comps.take shape.length) := by
        unfold sliceEntriesOf; rw [h1, h2]
      cases hv1 : runPlan ([PlanOp.slice ((sliceEntriesOf comps).filterMap id)]
              ++ (if ((scalarsOf comps).map (fun p => p.2)).isEmpty then []
                  else [PlanOp.squeeze ((scalarsOf comps).map (fun p => p.2))])) (View.init shape) with
      | error e => exact ⟨e, rfl⟩
      | ok v1 =>
        have hpre : axiswise graphPre (comps.take shape.length) shape = .ok v1 := by
          refine graph_slice_stage (comps.take shape.length) shape v1 (by omega) ?_ ?_
          · rw [← h3]; exact Bool.eq_false_iff.mpr hnone
          · rw [← h3, ← h2]; exact hv1
        have hrank := axiswise_rank graphPre (fun c => c.kind == Kind.scalar) graphPre_isPick
          (comps.take shape.length) shape v1 hprelen hpre
        simp only []
        unfold gatherChain nonScalarsOf
        have hchain := gather_chain_split (fun c => c.kind == Kind.nonScalar)
          (gatherAxis ((scalarsOf comps).map (fun p => p.2))) (comps.take shape.length) (comps.drop shape.length)
        rw [List.take_append_drop] at hchain
        rw [hchain, runPlan_append]
        obtain ⟨e, he⟩ := gather_chain_fails (fun c => c.kind == Kind.nonScalar)
          (gatherAxis ((scalarsOf comps).map (fun p => p.2)))
          (fun c a hg => gatherOp_isSome_of_kind c a (by simp [hg]))
          (comps.drop shape.length) (comps.take shape.length).length v1
          (by
            intro i c' hi _
            rw [List.getElem?_drop] at hi
            have hil : shape.length + i ≤ comps.length := by
              have := (List.getElem?_eq_some_iff.mp hi).1
              omega
            have hga := gatherAxis_zipIdx (fun c => c.kind == Kind.scalar) comps (shape.length + i) hil
            rw [hprelen]
            simp only [scalarsOf]
            rw [hga, hrank, List.take_add, List.filter_append, List.length_append]
            omega)
          ⟨j - shape.length, c, by rw [List.getElem?_drop, show shape.length + (j - shape.length) = j by omega]; exact hj, hcns⟩
        rw [he]
        exact ⟨e, rfl⟩

end OV.Index
