import OV.Lemmas.C01SimFor
/-!
# C01 — loops nested in loops and branches

The facts `BodyFacts` that `for_step` / `while_core` need about a loop body are established here for every block
of the nested-loop fragment (`nestBlock`), by mutual recursion on statements and blocks; the simulation of a loop
then applies to bodies that contain loops themselves.
-/
namespace OV.C01

variable {V : Type}

/-! ## Shape facts -/

theorem nestStmt_assign {x : Name} {e : Expr} {lo : VSet} (h : nestStmt (.assign x e) lo = true) :
    ifStmt (.assign x e) = true := by simpa [nestStmt, ifStmt] using h

theorem nestStmt_par {xs : List Name} {es : List Expr} {lo : VSet} (h : nestStmt (.par xs es) lo = true) :
    ifStmt (.par xs es) = true := by simpa [nestStmt, ifStmt] using h

theorem nestStmt_not_brk {st : Stmt} {lo : VSet} (h : nestStmt st lo = true) : ∀ c, st ≠ .brk c := by
  intro c hc; subst hc; simp [nestStmt] at h

theorem nestBlock_nobrk : ∀ (ss : List Stmt) (lo : VSet), nestBlock ss lo = true →
    ∀ st, st ∈ ss → ∀ c, st ≠ .brk c
  | [], _, _, st, hst => by cases hst
  | s :: ss, lo, h, st, hst => by
    simp only [nestBlock, Bool.and_eq_true] at h
    rcases List.mem_cons.mp hst with rfl | hm
    · exact nestStmt_not_brk h.1
    · exact nestBlock_nobrk ss lo h.2 st hm

/-- The pieces of `nestStmt` for a `for` loop. -/
theorem nestStmt_for {i : Name} {ok : Bool} {b : Expr} {body : List Stmt} {lo : VSet}
    (h : nestStmt (.for_ i ok b body) lo = true) :
    ok = true ∧ True ∧ i ∉ lo ∧ (∃ d, assignedBlock body = some d ∧ i ∉ d) ∧
      stableStmt (.for_ i ok b body) lo = true ∧ nestBlock body (loopBodyLo (.for_ i ok b body) lo) = true := by
  simp only [nestStmt, Bool.and_eq_true, Bool.not_eq_true'] at h
  obtain ⟨⟨⟨⟨h1, h3⟩, h4⟩, h5⟩, h6⟩ := h
  refine ⟨h1, trivial, ?_, ?_, h5, h6⟩
  · intro hm
    have := List.contains_iff_mem.mpr hm
    rw [h3] at this; cases this
  · cases hd : assignedBlock body with
    | none => simp [hd] at h4
    | some d =>
      simp only [hd, Bool.not_eq_true'] at h4
      refine ⟨d, rfl, ?_⟩
      intro hm
      have := List.contains_iff_mem.mpr hm
      rw [h4] at this; cases this

/-- The pieces of `nestStmt` for a `while` loop. -/
theorem nestStmt_while {t : Name} {body : List Stmt} {lo : VSet}
    (h : nestStmt (.while_ (.var t) body) lo = true) :
    (∃ d state, assignedBlock body = some d ∧ loopState body lo = some state ∧
      (t ∈ state ∨ t ∉ liveInBlock body (loopBodyLo (.while_ (.var t) body) lo))) ∧
      stableStmt (.while_ (.var t) body) lo = true ∧
      nestBlock body (loopBodyLo (.while_ (.var t) body) lo) = true := by
  simp only [nestStmt, Bool.and_eq_true] at h
  obtain ⟨⟨h1, h2⟩, h3⟩ := h
  refine ⟨?_, h2, h3⟩
  cases hd : assignedBlock body with
  | none => simp [hd] at h1
  | some d =>
    cases hs : loopState body lo with
    | none => simp [hd, hs] at h1
    | some state =>
      simp only [hd, hs, Bool.or_eq_true, Bool.not_eq_true', List.contains_iff_mem] at h1
      refine ⟨d, state, rfl, rfl, ?_⟩
      rcases h1 with h' | h'
      · exact Or.inl h'
      · right
        intro hm
        have := List.contains_iff_mem.mpr hm
        rw [h'] at this; cases this

theorem nestStmt_while_var {c : Expr} {body : List Stmt} {lo : VSet}
    (h : nestStmt (.while_ c body) lo = true) : ∃ t, c = .var t := by
  cases c with
  | var t => exact ⟨t, rfl⟩
  | _ => simp [nestStmt] at h

/-! ## Tuple assignment from a multi-output operator -/

theorem nodup_of_nodupB : ∀ (l : List Name), nodupB l = true → l.Nodup := by
  intro l
  induction l with
  | nil => intro _; exact List.nodup_nil
  | cons x xs ih =>
    intro h
    simp only [nodupB, Bool.and_eq_true, Bool.not_eq_true'] at h
    refine List.nodup_cons.mpr ⟨?_, ih h.2⟩
    intro hm
    have := List.contains_iff_mem.mpr hm
    rw [h.1] at this; cases this

theorem nestStmt_tuple {xs : List Name} {e : Expr} {lo : VSet} (h : nestStmt (.tuple xs e) lo = true) :
    (∃ dom op sig args attrs, e = .call dom op sig args attrs) ∧ xs.Nodup := by
  cases e with
  | call dom op sig args attrs =>
    simp only [nestStmt] at h
    exact ⟨⟨dom, op, sig, args, attrs, rfl⟩, nodup_of_nodupB xs h⟩
  | _ => simp [nestStmt] at h

theorem setMany_all2 (ρ : Store V) : ∀ (xs : List Name) (rs : List V), xs.Nodup → rs.length = xs.length →
    All2 (fun r x => (ρ.setMany xs (rs.map PV.t)) x = some (PV.t r)) rs xs := by
  intro xs
  induction xs generalizing ρ with
  | nil => intro rs _ hl; cases rs with
    | nil => exact All2.nil
    | cons _ _ => simp at hl
  | cons x xs ih =>
    intro rs hnd hl
    cases rs with
    | nil => simp at hl
    | cons r rs =>
      obtain ⟨hx, hnd'⟩ := List.nodup_cons.mp hnd
      refine All2.cons _ _ _ _ ?_ (ih (ρ.set x (.t r)) rs hnd' (by simpa using hl))
      show (Store.setMany (ρ.set x (.t r)) xs (rs.map PV.t)) x = some (PV.t r)
      rw [setMany_frame xs _ _ x hx]
      simp [Store.set]

theorem evalNodes_opN {S : Sem V} {fuel : Nat} {ρ : Env V} {dom name : String} {ins : List (Option Name)}
    {outs : List Name} {attrs : List (String × AttrV)} {vs : List (Option V)} {rs : List V}
    (hins : ins.mapM ρ.getOpt = some vs) (hop : S.op dom name vs attrs = some rs) (hl : rs.length = outs.length) :
    evalNodes S fuel ρ [Node.op dom name ins outs attrs] = some (ρ.setMany outs rs) := by
  simp [evalNodes, evalNode, hins, hop, hl]

theorem tuple_run (S : Sem V) (fuel : Nat) {xs : List Name} {dom op : String} {sig : Sig} {args : List Expr}
    {attrs : List (String × AttrV)} {ρ : Store V} {o : Outcome V} (hρ : AllT S ρ)
    (h : evalStmt S fuel (.tuple xs (.call dom op sig args attrs)) ρ = some o) :
    ∃ ρ', o = .normal ρ' ∧ RunOK S ρ ρ' (assignedStmt (.tuple xs (.call dom op sig args attrs))) := by
  unfold evalStmt at h
  cases ha : evalExprs S ρ args with
  | none => simp [ha] at h
  | some pvs =>
    simp only [ha] at h
    cases hop : applyOp S dom op sig pvs attrs with
    | none => simp [hop] at h
    | some rs =>
      simp only [hop] at h
      by_cases hl : rs.length = xs.length
      · simp only [hl, if_true] at h
        cases h
        refine ⟨_, rfl, AllT.setMany xs _ hρ (fun pv hpv => ?_), setMany_dom_mono xs _ ρ, ?_⟩
        · obtain ⟨v, _, rfl⟩ := List.mem_map.mp hpv
          exact ⟨v, rfl⟩
        · intro dd hd y hy
          simp only [assignedStmt] at hd
          cases hd
          exact setMany_frame xs _ ρ y (fun hm => hy (mem_vofList.mpr hm))
      · simp [hl] at h

theorem tuple_cast {L : Locals} {xs : List Name} {dom op : String} {sig : Sig} {args : List Expr}
    {attrs : List (String × AttrV)} {lo : VSet} {L' : Locals} {ns : List Node} {s s' : St}
    (h : convStmt L (.tuple xs (.call dom op sig args attrs)) lo s = .ok ((L', ns), s')) : CastOK s s' := by
  unfold convStmt at h
  simp only at h
  mbind h with p s1 h1
  obtain ⟨as, ns1⟩ := p
  try dsimp only at h
  mbind h with attrs' s2 h2
  have hs2 := liftE_state h2
  subst hs2
  mbind h with p s3 h3
  obtain ⟨as', ns2⟩ := p
  try dsimp only at h
  mbind h with outs s4 h4
  obtain ⟨_, e2⟩ := pure_ok h
  subst e2
  exact (convArgs_cast L args h1).trans ((castInputs_cast h3).trans (genUniques_cast _ h4))

theorem tuple_step (S : Sem V) (fuel : Nat) (hConst : ∀ l, ∃ c, constOf S l = some c) {xs : List Name}
    {dom op : String} {sig : Sig} {args : List Expr} {attrs : List (String × AttrV)} {lo : VSet}
    {ρ ρ' : Store V} {L L' : Locals} {env : Env V} {s s' : St} {ns : List Node} (hnd : xs.Nodup)
    (hxs : ∀ x, x ∈ xs → S.attrLit x = none)
    (hinv : Inv S (liveInStmt (.tuple xs (.call dom op sig args attrs)) lo) ρ L env s)
    (he : evalStmt S fuel (.tuple xs (.call dom op sig args attrs)) ρ = some (.normal ρ'))
    (h : convStmt L (.tuple xs (.call dom op sig args attrs)) lo s = .ok ((L', ns), s')) :
    ∃ env', evalNodes S fuel env ns = some env' ∧ Inv S lo ρ' L' env' s' ∧ Ext env env' s s' ∧ Mono s s' := by
  have hfr := convStmt_fresh L _ lo h
  have hsc := convStmt_scope L _ lo hinv.vis (fun x hx => hx) h
  have hcast := tuple_cast h
  obtain ⟨ρ1, hρ1, run⟩ := tuple_run S fuel hinv.allT he
  cases hρ1
  unfold evalStmt at he
  cases hargs : evalExprs S ρ args with
  | none => simp [hargs] at he
  | some pvs =>
    simp only [hargs] at he
    cases hap : applyOp S dom op sig pvs attrs with
    | none => simp [hap] at he
    | some rs =>
      simp only [hap] at he
      by_cases hl : rs.length = xs.length
      · simp only [hl, if_true] at he
        cases he
        obtain ⟨vs, hav, hop⟩ := applyOp_some hap
        unfold convStmt at h
        simp only at h
        mbind h with p s1 h1
        obtain ⟨as, ns1⟩ := p
        try dsimp only at h
        mbind h with attrs' s2 h2
        have hs2 := liftE_state h2
        subst hs2
        have hattrs : attrs = attrs' := by
          unfold liftE at h2
          cases hca : convAttrs L attrs with
          | error e => simp [hca] at h2
          | ok a' =>
            simp only [hca] at h2
            cases h2
            exact (convAttrs_id hinv.noattr _ _ hca).symm
        subst hattrs
        mbind h with p s3 h3
        obtain ⟨as', ns2⟩ := p
        try dsimp only at h
        mbind h with outs s4 h4
        obtain ⟨q1, q2⟩ := pure_ok h
        cases q1; subst q2
        have hsub : ∀ y, y ∈ usedVarsL args → y ∈ liveInStmt (.tuple xs (.call dom op sig args attrs)) lo := by
          intro y hy
          unfold liveInStmt
          exact mem_vunion.mpr (Or.inr (by unfold usedVars; exact mem_vunion.mpr (Or.inl hy)))
        have hargs' : evalExprs S (restrict ρ (liveInStmt (.tuple xs (.call dom op sig args attrs)) lo)) args
            = some pvs := by
          rw [evalExprs_restrict S ρ _ args hsub]; exact hargs
        obtain ⟨env1, ev1, hrel1, x1, c1, hu1⟩ :=
          convArgs_sim S fuel hConst _ L hinv.noattr args hinv.vis hinv.rel hinv.cast hargs' h1
        have m1 := (convArgs_fresh L args h1).1
        obtain ⟨env3, ev3, hm3, x3, hc3, m3⟩ := castInputs_sim S fuel hrel1 hu1 h3 hav
        have c3 : CastSub s3 := fun n hn => m3 n (c1 n (hc3 ▸ hn))
        obtain ⟨m4, f4, l4⟩ := genUniques_fresh _ h4
        have hc4 := genUniques_castable _ h4
        have x13 : Ext env env3 s s3 := x1.trans m1 x3
        have hnotin : ∀ n, n ∈ s.used → n ∉ outs := fun n hn hm => (f4.2 n hm).1 (m3 n (m1 n hn))
        have evN : evalNodes S fuel env3 [Node.op dom op (as'.map some) outs attrs]
            = some (env3.setMany outs rs) :=
          evalNodes_opN (mapM_getOpt_some as' vs hm3) hop (by rw [hl, l4])
        have xfin : Ext env (env3.setMany outs rs) s s4 :=
          ⟨fun n hn => by rw [envSetMany_frame outs rs env3 n (hnotin n hn)]; exact x13.envSame n hn, hcast.ext⟩
        have hall := setMany_all2 ρ xs rs hnd hl
        refine ⟨_, evalNodes_seq ev1 (evalNodes_seq ev3 evN), ?_, xfin, hfr.1⟩
        refine ⟨hsc.2.mono (fun y hy => after_in_used hfr hy), hinv.noattr.bindVals _ _ hxs,
          hcast.sub hinv.cast, run.allT, ?_, ?_⟩
        · intro y q hy
          obtain ⟨hm, hq⟩ := restrict_some.mp hy
          by_cases hyx : y ∈ xs
          · obtain ⟨r, v, hlk, hev, hρ, hrn⟩ := bind_set xs outs rs L env3 f4.1 l4 hall y hyx
            rw [hρ] at hq
            cases hq
            refine ⟨r, hlk, hev, ?_⟩
            intro hcst
            rw [hc4] at hcst
            exact (f4.2 r hrn).1 (c3 r hcst)
          · rw [setMany_frame xs _ ρ y hyx] at hq
            have hyLv : y ∈ liveInStmt (.tuple xs (.call dom op sig args attrs)) lo := by
              unfold liveInStmt
              exact mem_vunion.mpr (Or.inl (mem_vdiff.mpr ⟨hm, fun hv => hyx (mem_vofList.mp hv)⟩))
            obtain ⟨n, hlk, hr⟩ := hinv.rel y q (restrict_some.mpr ⟨hyLv, hq⟩)
            exact ⟨n, by rw [lookup_bindVals_notin _ _ _ hyx]; exact hlk, hr.ext (hinv.vis.lookup hlk) xfin⟩
        · intro y n hlk
          by_cases hyx : y ∈ xs
          · exact setMany_defined xs _ ρ y (by simp [hl]) hyx
          · rw [lookup_bindVals_notin _ _ _ hyx] at hlk
            exact setMany_dom_mono xs _ ρ y (hinv.bound y n hlk)
      · simp [hl] at he

/-! ## How statements of the fragment run -/

theorem iterFor_runG (S : Sem V) (fuel : Nat) (i : Name) {body : List Stmt} {d : VSet}
    (hd : assignedBlock body = some d)
    (hrun : ∀ {ρ : Store V} {o : Outcome V}, AllT S ρ → evalBlock S fuel body ρ = some o →
      ∃ ρ1, o = .normal ρ1 ∧ RunOK S ρ ρ1 (assignedBlock body)) :
    ∀ (left k : Nat) {ρ : Store V} {o : Outcome V}, AllT S ρ →
      iterFor S i (fun r => evalBlock S fuel body r) left k ρ = some o →
      ∃ ρ', o = .normal ρ' ∧ AllT S ρ' ∧ (∀ x, ρ x ≠ none → ρ' x ≠ none)
        ∧ (∀ x, x ∉ d → x ≠ i → ρ' x = ρ x) := by
  intro left
  induction left with
  | zero =>
    intro k ρ o hρ h
    simp only [iterFor] at h
    cases h
    exact ⟨ρ, rfl, hρ, fun _ hx => hx, fun _ _ _ => rfl⟩
  | succ n ih =>
    intro k ρ o hρ h
    simp only [iterFor] at h
    cases hb : evalBlock S fuel body (ρ.set i (.t (S.ofNat k))) with
    | none => simp [hb] at h
    | some o1 =>
      obtain ⟨ρ1, rfl, r1⟩ := hrun (hρ.set i (S.ofNat k)) hb
      simp only [hb] at h
      obtain ⟨ρ2, ho, a2, d2, f2⟩ := ih (k + 1) r1.allT h
      refine ⟨ρ2, ho, a2, ?_, ?_⟩
      · intro x hx
        apply d2
        apply r1.dom
        unfold Store.set
        by_cases hxi : x = i
        · simp [hxi]
        · simp only [hxi, if_false]; exact hx
      · intro x hxd hxi
        rw [f2 x hxd hxi, r1.frame d hd x hxd]
        unfold Store.set
        simp [hxi]

theorem iterWhile_runG (S : Sem V) (fuel : Nat) {body : List Stmt} {d : VSet} {cond : Store V → Option Bool}
    (hd : assignedBlock body = some d)
    (hrun : ∀ {ρ : Store V} {o : Outcome V}, AllT S ρ → evalBlock S fuel body ρ = some o →
      ∃ ρ1, o = .normal ρ1 ∧ RunOK S ρ ρ1 (assignedBlock body)) :
    ∀ (fl : Nat) {ρ : Store V} {o : Outcome V}, AllT S ρ →
      iterWhile cond (fun r => evalBlock S fuel body r) fl ρ = some o →
      ∃ ρ', o = .normal ρ' ∧ AllT S ρ' ∧ (∀ x, ρ x ≠ none → ρ' x ≠ none) ∧ (∀ x, x ∉ d → ρ' x = ρ x) := by
  intro fl
  induction fl with
  | zero => intro ρ o _ h; simp [iterWhile] at h
  | succ n ih =>
    intro ρ o hρ h
    simp only [iterWhile] at h
    cases hc : cond ρ with
    | none => simp [hc] at h
    | some bc =>
      cases bc with
      | false =>
        simp only [hc] at h; cases h
        exact ⟨ρ, rfl, hρ, fun _ hx => hx, fun _ _ => rfl⟩
      | true =>
        simp only [hc] at h
        cases hb : evalBlock S fuel body ρ with
        | none => simp [hb] at h
        | some o1 =>
          obtain ⟨ρ1, rfl, r1⟩ := hrun hρ hb
          simp only [hb] at h
          obtain ⟨ρ2, ho, a2, d2, f2⟩ := ih r1.allT h
          exact ⟨ρ2, ho, a2, fun x hx => d2 x (r1.dom x hx),
            fun x hxd => by rw [f2 x hxd, r1.frame d hd x hxd]⟩

mutual
theorem nestStmt_run (S : Sem V) (fuel : Nat) : ∀ (st : Stmt) (lo : VSet) {ρ : Store V} {o : Outcome V},
    nestStmt st lo = true → TFree S (targetsStmt st) → AllT S ρ → evalStmt S fuel st ρ = some o →
    ∃ ρ', o = .normal ρ' ∧ RunOK S ρ ρ' (assignedStmt st)
  | .assign x e, lo, ρ, o, hi, hF, hρ, h => ifStmt_run S fuel _ (nestStmt_assign hi) hF hρ h
  | .par xs es, lo, ρ, o, hi, hF, hρ, h => ifStmt_run S fuel _ (nestStmt_par hi) hF hρ h
  | .skip, lo, ρ, o, _, hF, hρ, h => ifStmt_run S fuel .skip (by simp [ifStmt]) hF hρ h
  | .ite c t e, lo, ρ, o, hi, hF, hρ, h => by
    simp only [nestStmt, Bool.and_eq_true] at hi
    unfold evalStmt at h
    cases hc : evalExpr S ρ c with
    | none => simp [hc] at h
    | some cv =>
      simp only [hc] at h
      cases ht : truthPV S cv with
      | none => simp [ht] at h
      | some b =>
        cases b with
        | true =>
          simp only [ht] at h
          obtain ⟨ρ', ho, r⟩ := nestBlock_run S fuel t lo hi.1.2 (hF.sub (fun y hy => by simp [targetsStmt, hy])) hρ h
          refine ⟨ρ', ho, r.allT, r.dom, ?_⟩
          intro dd hd y hy
          simp only [assignedStmt] at hd
          cases hta : assignedBlock t with
          | none => simp [hta] at hd
          | some a =>
            cases hea : assignedBlock e with
            | none => simp [hta, hea] at hd
            | some b' =>
              simp only [hta, hea] at hd
              cases hd
              exact r.frame a hta y (fun hm => hy (mem_vunion.mpr (Or.inl hm)))
        | false =>
          simp only [ht] at h
          obtain ⟨ρ', ho, r⟩ := nestBlock_run S fuel e lo hi.2 (hF.sub (fun y hy => by simp [targetsStmt, hy])) hρ h
          refine ⟨ρ', ho, r.allT, r.dom, ?_⟩
          intro dd hd y hy
          simp only [assignedStmt] at hd
          cases hta : assignedBlock t with
          | none => simp [hta] at hd
          | some a =>
            cases hea : assignedBlock e with
            | none => simp [hta, hea] at hd
            | some b' =>
              simp only [hta, hea] at hd
              cases hd
              exact r.frame b' hea y (fun hm => hy (mem_vunion.mpr (Or.inr hm)))
  | .for_ i ok b body, lo, ρ, o, hi, hF, hρ, h => by
    obtain ⟨rfl, _, _, ⟨d, hd, _⟩, _, hbody⟩ := nestStmt_for hi
    unfold evalStmt at h
    simp only [Bool.not_true, Bool.false_eq_true, if_false] at h
    cases hbe : evalExpr S ρ b with
    | none => simp [hbe] at h
    | some bv =>
      simp only [hbe] at h
      cases hn : natPV S bv with
      | none => simp [hn] at h
      | some n =>
        simp only [hn] at h
        obtain ⟨ρ', ho, a, dm, fr⟩ := iterFor_runG S fuel i hd
          (fun hρ0 hb0 => nestBlock_run S fuel body _ hbody (hF.sub (fun y hy => by simp [targetsStmt, hy])) hρ0 hb0) n 0 hρ h
        refine ⟨ρ', ho, a, dm, ?_⟩
        intro dd hdd y hy
        simp only [assignedStmt, hd] at hdd
        cases hdd
        exact fr y (fun hm => hy (mem_vunion.mpr (Or.inl hm)))
          (fun he => hy (mem_vunion.mpr (Or.inr (by simp [he]))))
  | .while_ c body, lo, ρ, o, hi, hF, hρ, h => by
    obtain ⟨t, rfl⟩ := nestStmt_while_var hi
    obtain ⟨⟨d, state, hd, _, _⟩, _, hbody⟩ := nestStmt_while hi
    unfold evalStmt at h
    obtain ⟨ρ', ho, a, dm, fr⟩ := iterWhile_runG S fuel hd
      (fun hρ0 hb0 => nestBlock_run S fuel body _ hbody (hF.sub (fun y hy => by simp [targetsStmt, hy])) hρ0 hb0) fuel hρ h
    refine ⟨ρ', ho, a, dm, ?_⟩
    intro dd hdd y hy
    simp only [assignedStmt, hd] at hdd
    cases hdd
    exact fr y hy
  | .tuple xs e, lo, ρ, o, hi, hF, hρ, h => by
    obtain ⟨⟨dom, op, sig, args, attrs, rfl⟩, _⟩ := nestStmt_tuple hi
    exact tuple_run S fuel hρ h
  | .badAssign _ _, _, _, _, hi, _, _, _ => by simp [nestStmt] at hi
  | .brk _, _, _, _, hi, _, _, _ => by simp [nestStmt] at hi
  | .ret _ _, _, _, _, hi, _, _, _ => by simp [nestStmt] at hi
  | .unsupported, _, _, _, hi, _, _, _ => by simp [nestStmt] at hi
theorem nestBlock_run (S : Sem V) (fuel : Nat) : ∀ (ss : List Stmt) (lo : VSet) {ρ : Store V} {o : Outcome V},
    nestBlock ss lo = true → TFree S (targetsBlock ss) → AllT S ρ → evalBlock S fuel ss ρ = some o →
    ∃ ρ', o = .normal ρ' ∧ RunOK S ρ ρ' (assignedBlock ss)
  | [], lo, ρ, o, _, hF, hρ, h => by
    unfold evalBlock at h
    cases h
    exact ⟨ρ, rfl, hρ, fun _ hx => hx, fun _ _ _ _ => rfl⟩
  | st :: ss, lo, ρ, o, hi, hF, hρ, h => by
    simp only [nestBlock, Bool.and_eq_true] at hi
    unfold evalBlock at h
    cases hs : evalStmt S fuel st ρ with
    | none => simp [hs] at h
    | some o1 =>
      obtain ⟨ρ1, rfl, r1⟩ := nestStmt_run S fuel st _ hi.1 hF.head.1 hρ hs
      simp only [hs] at h
      obtain ⟨ρ2, ho, r2⟩ := nestBlock_run S fuel ss lo hi.2 hF.head.2 r1.allT h
      refine ⟨ρ2, ho, r2.allT, fun x hx => r2.dom x (r1.dom x hx), ?_⟩
      intro dd hd y hy
      obtain ⟨a, b, ha, hb, rfl⟩ := assignedBlock_cons' hd
      rw [r2.frame b hb y (fun hm => hy (mem_vunion.mpr (Or.inr hm))),
          r1.frame a ha y (fun hm => hy (mem_vunion.mpr (Or.inl hm)))]
end

/-! ## Liveness of the fragment below the live-out sets the analysis computed -/

/-- What `stableStmt` says about a `for` loop. -/
theorem stable_for {i : Name} {ok : Bool} {b : Expr} {body : List Stmt} {lo : VSet}
    (h : stableStmt (.for_ i ok b body) lo = true) :
    (∀ y, y ∈ lo → y ∈ loopBodyLo (.for_ i ok b body) lo) ∧
    (∀ y, y ∈ liveInBlock body (loopBodyLo (.for_ i ok b body) lo) → y ≠ i →
      y ∈ loopBodyLo (.for_ i ok b body) lo) := by
  unfold stableStmt at h
  simp only [Bool.and_eq_true] at h
  obtain ⟨⟨h1, h2⟩, _⟩ := h
  exact ⟨vsubset_mem h1, fun y hy hne => vsubset_mem h2 y (mem_vdiff.mpr ⟨hy, by simpa using hne⟩)⟩

theorem stable_while {t : Name} {body : List Stmt} {lo : VSet}
    (h : stableStmt (.while_ (.var t) body) lo = true) :
    (∀ y, y ∈ lo → y ∈ loopBodyLo (.while_ (.var t) body) lo) ∧
    t ∈ loopBodyLo (.while_ (.var t) body) lo ∧
    (∀ y, y ∈ liveInBlock body (loopBodyLo (.while_ (.var t) body) lo) →
      y ∈ loopBodyLo (.while_ (.var t) body) lo) := by
  unfold stableStmt at h
  simp only [Bool.and_eq_true] at h
  obtain ⟨⟨⟨h1, h2⟩, h3⟩, _⟩ := h
  exact ⟨vsubset_mem h1, vsubset_mem h2 t (by simp [usedVars]), vsubset_mem h3⟩

theorem liveIn_for_eq (i : Name) (ok : Bool) (b : Expr) (body : List Stmt) (lo : VSet) :
    liveInStmt (.for_ i ok b body) lo = vunion (loopBodyLo (.for_ i ok b body) lo) (usedVars b) := by
  simp [liveInStmt, loopBodyLo]

theorem liveIn_while_eq (c : Expr) (body : List Stmt) (lo : VSet) :
    liveInStmt (.while_ c body) lo = loopBodyLo (.while_ c body) lo := by
  simp [liveInStmt, loopBodyLo]

mutual
/-- Liveness is monotone below the live-out set at which the statement's fixpoints were reached. -/
theorem nestStmt_mono : ∀ (st : Stmt) (lo : VSet) {Z : VSet} {y : Name}, nestStmt st lo = true →
    (∀ z, z ∈ Z → z ∈ lo) → y ∈ liveInStmt st Z → y ∈ liveInStmt st lo
  | .assign x e, lo, Z, y, _, hz, hy => by
    unfold liveInStmt at hy ⊢
    rcases mem_vunion.mp hy with h | h
    · obtain ⟨h1, h2⟩ := mem_vdiff.mp h
      exact mem_vunion.mpr (Or.inl (mem_vdiff.mpr ⟨hz y h1, h2⟩))
    · exact mem_vunion.mpr (Or.inr h)
  | .par xs es, lo, Z, y, _, hz, hy => by
    unfold liveInStmt at hy ⊢
    rcases mem_vunion.mp hy with h | h
    · obtain ⟨h1, h2⟩ := mem_vdiff.mp h
      exact mem_vunion.mpr (Or.inl (mem_vdiff.mpr ⟨hz y h1, h2⟩))
    · exact mem_vunion.mpr (Or.inr h)
  | .skip, lo, Z, y, _, hz, hy => by
    unfold liveInStmt at hy ⊢
    exact hz y hy
  | .ite c t e, lo, Z, y, hi, hz, hy => by
    simp only [nestStmt, Bool.and_eq_true] at hi
    unfold liveInStmt at hy ⊢
    rcases mem_vunion.mp hy with h | h
    · rcases mem_vunion.mp h with h | h
      · exact mem_vunion.mpr (Or.inl (mem_vunion.mpr (Or.inl (nestBlock_mono t lo hi.1.2 hz h))))
      · exact mem_vunion.mpr (Or.inl (mem_vunion.mpr (Or.inr (nestBlock_mono e lo hi.2 hz h))))
    · exact mem_vunion.mpr (Or.inr h)
  | .for_ i ok b body, lo, Z, y, hi, hz, hy => by
    obtain ⟨_, _, _, _, hst, hbody⟩ := nestStmt_for hi
    obtain ⟨hlo, hback⟩ := stable_for hst
    rw [liveIn_for_eq]
    unfold liveInStmt at hy
    rcases mem_vunion.mp hy with h | h
    · refine mem_vunion.mpr (Or.inl ?_)
      have key : ∀ y, y ∈ fixIter (fun prev => vunion (vdiff (liveInBlock body prev) [i]) Z) fixFuel Z →
          y ∈ loopBodyLo (.for_ i ok b body) lo := by
        apply fixIter_inv (fun W => ∀ y, y ∈ W → y ∈ loopBodyLo (.for_ i ok b body) lo)
        · intro W hW y hy
          rcases mem_vunion.mp hy with h | h
          · obtain ⟨h1, h2⟩ := mem_vdiff.mp h
            exact hback y (nestBlock_mono body _ hbody hW h1) (by simpa using h2)
          · exact hlo y (hz y h)
        · intro y hy; exact hlo y (hz y hy)
      exact key y h
    · exact mem_vunion.mpr (Or.inr h)
  | .while_ c body, lo, Z, y, hi, hz, hy => by
    obtain ⟨t, rfl⟩ := nestStmt_while_var hi
    obtain ⟨_, hst, hbody⟩ := nestStmt_while hi
    obtain ⟨hlo, ht, hback⟩ := stable_while hst
    rw [liveIn_while_eq]
    unfold liveInStmt at hy
    have key : ∀ y, y ∈ fixIter (fun prev => vunion (vunion (liveInBlock body prev) (usedVars (.var t))) Z) fixFuel
          (vunion Z (usedVars (.var t))) → y ∈ loopBodyLo (.while_ (.var t) body) lo := by
      apply fixIter_inv (fun W => ∀ y, y ∈ W → y ∈ loopBodyLo (.while_ (.var t) body) lo)
      · intro W hW y hy
        rcases mem_vunion.mp hy with h | h
        · rcases mem_vunion.mp h with h | h
          · exact hback y (nestBlock_mono body _ hbody hW h)
          · simp only [usedVars, List.mem_singleton] at h; subst h; exact ht
        · exact hlo y (hz y h)
      · intro y hy
        rcases mem_vunion.mp hy with h | h
        · exact hlo y (hz y h)
        · simp only [usedVars, List.mem_singleton] at h; subst h; exact ht
    exact key y hy
  | .tuple xs e, lo, Z, y, _, hz, hy => by
    unfold liveInStmt at hy ⊢
    rcases mem_vunion.mp hy with h | h
    · obtain ⟨h1, h2⟩ := mem_vdiff.mp h
      exact mem_vunion.mpr (Or.inl (mem_vdiff.mpr ⟨hz y h1, h2⟩))
    · exact mem_vunion.mpr (Or.inr h)
  | .badAssign _ _, _, _, _, hi, _, _ => by simp [nestStmt] at hi
  | .brk _, _, _, _, hi, _, _ => by simp [nestStmt] at hi
  | .ret _ _, _, _, _, hi, _, _ => by simp [nestStmt] at hi
  | .unsupported, _, _, _, hi, _, _ => by simp [nestStmt] at hi
theorem nestBlock_mono : ∀ (ss : List Stmt) (lo : VSet) {Z : VSet} {y : Name}, nestBlock ss lo = true →
    (∀ z, z ∈ Z → z ∈ lo) → y ∈ liveInBlock ss Z → y ∈ liveInBlock ss lo
  | [], lo, Z, y, _, hz, hy => by
    unfold liveInBlock at hy ⊢
    exact hz y hy
  | st :: ss, lo, Z, y, hi, hz, hy => by
    simp only [nestBlock, Bool.and_eq_true] at hi
    unfold liveInBlock at hy ⊢
    exact nestStmt_mono st _ hi.1 (fun z hz' => nestBlock_mono ss lo hi.2 hz hz') hy
end

mutual
/-- A live-in from a live-out `Z` (below the analysed live-out) is an exposed use w.r.t. `A` or comes from `X`,
when every member of `Z` is in `A` or `X`. -/
theorem nestStmt_toExp : ∀ (st : Stmt) (lo : VSet) {Z A X : VSet} {y : Name}, nestStmt st lo = true →
    (∀ z, z ∈ Z → z ∈ lo) → (∀ z, z ∈ Z → z ∈ A ∨ z ∈ X) → y ∈ liveInStmt st Z → y ∈ exposedStmt st A ∨ y ∈ X
  | .assign x e, lo, Z, A, X, y, _, _, hza, hy => by
    unfold liveInStmt at hy
    unfold exposedStmt
    rcases mem_vunion.mp hy with h | h
    · obtain ⟨h1, h2⟩ := mem_vdiff.mp h
      rcases hza y h1 with h' | h'
      · exact Or.inl (mem_vunion.mpr (Or.inl (mem_vdiff.mpr ⟨h', h2⟩)))
      · exact Or.inr h'
    · exact Or.inl (mem_vunion.mpr (Or.inr h))
  | .par xs es, lo, Z, A, X, y, _, _, hza, hy => by
    unfold liveInStmt at hy
    unfold exposedStmt
    rcases mem_vunion.mp hy with h | h
    · obtain ⟨h1, h2⟩ := mem_vdiff.mp h
      rcases hza y h1 with h' | h'
      · exact Or.inl (mem_vunion.mpr (Or.inl (mem_vdiff.mpr ⟨h', h2⟩)))
      · exact Or.inr h'
    · exact Or.inl (mem_vunion.mpr (Or.inr h))
  | .skip, lo, Z, A, X, y, _, _, hza, hy => by
    unfold liveInStmt at hy
    unfold exposedStmt
    exact hza y hy
  | .ite c t e, lo, Z, A, X, y, hi, hz, hza, hy => by
    simp only [nestStmt, Bool.and_eq_true] at hi
    unfold liveInStmt at hy
    unfold exposedStmt
    rcases mem_vunion.mp hy with h | h
    · rcases mem_vunion.mp h with h | h
      · rcases nestBlock_toExp t lo hi.1.2 hz hza h with h' | h'
        · exact Or.inl (mem_vunion.mpr (Or.inl (mem_vunion.mpr (Or.inl h'))))
        · exact Or.inr h'
      · rcases nestBlock_toExp e lo hi.2 hz hza h with h' | h'
        · exact Or.inl (mem_vunion.mpr (Or.inl (mem_vunion.mpr (Or.inr h'))))
        · exact Or.inr h'
    · exact Or.inl (mem_vunion.mpr (Or.inr h))
  | .for_ i ok b body, lo, Z, A, X, y, hi, hz, hza, hy => by
    obtain ⟨_, _, hilo, _, hst, hbody⟩ := nestStmt_for hi
    obtain ⟨hlo, hback⟩ := stable_for hst
    unfold liveInStmt at hy
    unfold exposedStmt
    rcases mem_vunion.mp hy with h | h
    · have key : ∀ y, y ∈ fixIter (fun prev => vunion (vdiff (liveInBlock body prev) [i]) Z) fixFuel Z →
          y ∈ loopBodyLo (.for_ i ok b body) lo ∧
          ((y ∈ exposedBlock body [] ∧ y ≠ i) ∨ (y ∈ A ∧ y ≠ i) ∨ y ∈ X) := by
        apply fixIter_inv (fun W => ∀ y, y ∈ W → y ∈ loopBodyLo (.for_ i ok b body) lo ∧
          ((y ∈ exposedBlock body [] ∧ y ≠ i) ∨ (y ∈ A ∧ y ≠ i) ∨ y ∈ X))
        · intro W hW y hy
          rcases mem_vunion.mp hy with h | h
          · obtain ⟨h1, h2⟩ := mem_vdiff.mp h
            have hne : y ≠ i := by simpa using h2
            refine ⟨hback y (nestBlock_mono body _ hbody (fun z hz' => (hW z hz').1) h1) hne, ?_⟩
            rcases nestBlock_toExp body _ (A := []) (X := W) hbody (fun z hz' => (hW z hz').1)
                (fun z hz' => Or.inr hz') h1 with h' | h'
            · exact Or.inl ⟨h', hne⟩
            · exact (hW y h').2
          · have hne : y ≠ i := fun he => hilo (he ▸ hz y h)
            refine ⟨hlo y (hz y h), ?_⟩
            rcases hza y h with h' | h'
            · exact Or.inr (Or.inl ⟨h', hne⟩)
            · exact Or.inr (Or.inr h')
        · intro y hy
          have hne : y ≠ i := fun he => hilo (he ▸ hz y hy)
          refine ⟨hlo y (hz y hy), ?_⟩
          rcases hza y hy with h' | h'
          · exact Or.inr (Or.inl ⟨h', hne⟩)
          · exact Or.inr (Or.inr h')
      rcases (key y h).2 with ⟨h1, h2⟩ | ⟨h1, h2⟩ | h'
      · exact Or.inl (mem_vunion.mpr (Or.inl (mem_vunion.mpr (Or.inl (mem_vdiff.mpr ⟨h1, by simpa using h2⟩)))))
      · exact Or.inl (mem_vunion.mpr (Or.inr (mem_vdiff.mpr ⟨h1, by simpa using h2⟩)))
      · exact Or.inr h'
    · exact Or.inl (mem_vunion.mpr (Or.inl (mem_vunion.mpr (Or.inr h))))
  | .while_ c body, lo, Z, A, X, y, hi, hz, hza, hy => by
    obtain ⟨t, rfl⟩ := nestStmt_while_var hi
    obtain ⟨_, hst, hbody⟩ := nestStmt_while hi
    obtain ⟨hlo, ht, hback⟩ := stable_while hst
    unfold liveInStmt at hy
    unfold exposedStmt
    have key : ∀ y, y ∈ fixIter (fun prev => vunion (vunion (liveInBlock body prev) (usedVars (.var t))) Z) fixFuel
          (vunion Z (usedVars (.var t))) →
        y ∈ loopBodyLo (.while_ (.var t) body) lo ∧ (y ∈ exposedBlock body [] ∨ y = t ∨ y ∈ A ∨ y ∈ X) := by
      apply fixIter_inv (fun W => ∀ y, y ∈ W → y ∈ loopBodyLo (.while_ (.var t) body) lo ∧
        (y ∈ exposedBlock body [] ∨ y = t ∨ y ∈ A ∨ y ∈ X))
      · intro W hW y hy
        rcases mem_vunion.mp hy with h | h
        · rcases mem_vunion.mp h with h | h
          · refine ⟨hback y (nestBlock_mono body _ hbody (fun z hz' => (hW z hz').1) h), ?_⟩
            rcases nestBlock_toExp body _ (A := []) (X := W) hbody (fun z hz' => (hW z hz').1)
                (fun z hz' => Or.inr hz') h with h' | h'
            · exact Or.inl h'
            · exact (hW y h').2
          · simp only [usedVars, List.mem_singleton] at h; subst h
            exact ⟨ht, Or.inr (Or.inl rfl)⟩
        · refine ⟨hlo y (hz y h), ?_⟩
          rcases hza y h with h' | h'
          · exact Or.inr (Or.inr (Or.inl h'))
          · exact Or.inr (Or.inr (Or.inr h'))
      · intro y hy
        rcases mem_vunion.mp hy with h | h
        · refine ⟨hlo y (hz y h), ?_⟩
          rcases hza y h with h' | h'
          · exact Or.inr (Or.inr (Or.inl h'))
          · exact Or.inr (Or.inr (Or.inr h'))
        · simp only [usedVars, List.mem_singleton] at h; subst h
          exact ⟨ht, Or.inr (Or.inl rfl)⟩
    rcases (key y hy).2 with h' | h' | h' | h'
    · exact Or.inl (mem_vunion.mpr (Or.inl (mem_vunion.mpr (Or.inl h'))))
    · exact Or.inl (mem_vunion.mpr (Or.inl (mem_vunion.mpr (Or.inr (by simp [usedVars, h'])))))
    · exact Or.inl (mem_vunion.mpr (Or.inr h'))
    · exact Or.inr h'
  | .tuple xs e, lo, Z, A, X, y, _, _, hza, hy => by
    unfold liveInStmt at hy
    unfold exposedStmt
    rcases mem_vunion.mp hy with h | h
    · obtain ⟨h1, h2⟩ := mem_vdiff.mp h
      rcases hza y h1 with h' | h'
      · exact Or.inl (mem_vunion.mpr (Or.inl (mem_vdiff.mpr ⟨h', h2⟩)))
      · exact Or.inr h'
    · exact Or.inl (mem_vunion.mpr (Or.inr h))
  | .badAssign _ _, _, _, _, _, _, hi, _, _, _ => by simp [nestStmt] at hi
  | .brk _, _, _, _, _, _, hi, _, _, _ => by simp [nestStmt] at hi
  | .ret _ _, _, _, _, _, _, hi, _, _, _ => by simp [nestStmt] at hi
  | .unsupported, _, _, _, _, _, hi, _, _, _ => by simp [nestStmt] at hi
theorem nestBlock_toExp : ∀ (ss : List Stmt) (lo : VSet) {Z A X : VSet} {y : Name}, nestBlock ss lo = true →
    (∀ z, z ∈ Z → z ∈ lo) → (∀ z, z ∈ Z → z ∈ A ∨ z ∈ X) → y ∈ liveInBlock ss Z → y ∈ exposedBlock ss A ∨ y ∈ X
  | [], lo, Z, A, X, y, _, _, hza, hy => by
    unfold liveInBlock at hy
    unfold exposedBlock
    exact hza y hy
  | st :: ss, lo, Z, A, X, y, hi, hz, hza, hy => by
    simp only [nestBlock, Bool.and_eq_true] at hi
    unfold liveInBlock at hy
    unfold exposedBlock
    exact nestStmt_toExp st _ hi.1 (fun z hz' => nestBlock_mono ss lo hi.2 hz hz')
      (fun z hz' => nestBlock_toExp ss lo hi.2 hz hza hz') hy
end

mutual
/-- An exposed use w.r.t. a set below the analysed live-out is live at the head of the statement. -/
theorem nestStmt_ofExp : ∀ (st : Stmt) (lo : VSet) {A : VSet} {y : Name}, nestStmt st lo = true →
    (∀ z, z ∈ A → z ∈ lo) → y ∈ exposedStmt st A → y ∈ liveInStmt st lo
  | .assign x e, lo, A, y, _, hz, hy => by
    unfold exposedStmt at hy
    unfold liveInStmt
    rcases mem_vunion.mp hy with h | h
    · obtain ⟨h1, h2⟩ := mem_vdiff.mp h
      exact mem_vunion.mpr (Or.inl (mem_vdiff.mpr ⟨hz y h1, h2⟩))
    · exact mem_vunion.mpr (Or.inr h)
  | .par xs es, lo, A, y, _, hz, hy => by
    unfold exposedStmt at hy
    unfold liveInStmt
    rcases mem_vunion.mp hy with h | h
    · obtain ⟨h1, h2⟩ := mem_vdiff.mp h
      exact mem_vunion.mpr (Or.inl (mem_vdiff.mpr ⟨hz y h1, h2⟩))
    · exact mem_vunion.mpr (Or.inr h)
  | .skip, lo, A, y, _, hz, hy => by
    unfold exposedStmt at hy
    unfold liveInStmt
    exact hz y hy
  | .ite c t e, lo, A, y, hi, hz, hy => by
    simp only [nestStmt, Bool.and_eq_true] at hi
    unfold exposedStmt at hy
    unfold liveInStmt
    rcases mem_vunion.mp hy with h | h
    · rcases mem_vunion.mp h with h | h
      · exact mem_vunion.mpr (Or.inl (mem_vunion.mpr (Or.inl (nestBlock_ofExp t lo hi.1.2 hz h))))
      · exact mem_vunion.mpr (Or.inl (mem_vunion.mpr (Or.inr (nestBlock_ofExp e lo hi.2 hz h))))
    · exact mem_vunion.mpr (Or.inr h)
  | .for_ i ok b body, lo, A, y, hi, hz, hy => by
    obtain ⟨_, _, _, _, hst, hbody⟩ := nestStmt_for hi
    obtain ⟨hlo, hback⟩ := stable_for hst
    rw [liveIn_for_eq]
    unfold exposedStmt at hy
    rcases mem_vunion.mp hy with h | h
    · rcases mem_vunion.mp h with h | h
      · obtain ⟨h1, h2⟩ := mem_vdiff.mp h
        exact mem_vunion.mpr (Or.inl (hback y (nestBlock_ofExp body _ hbody (fun _ hz' => by cases hz') h1)
          (by simpa using h2)))
      · exact mem_vunion.mpr (Or.inr h)
    · exact mem_vunion.mpr (Or.inl (hlo y (hz y (mem_vdiff.mp h).1)))
  | .while_ c body, lo, A, y, hi, hz, hy => by
    obtain ⟨t, rfl⟩ := nestStmt_while_var hi
    obtain ⟨_, hst, hbody⟩ := nestStmt_while hi
    obtain ⟨hlo, ht, hback⟩ := stable_while hst
    rw [liveIn_while_eq]
    unfold exposedStmt at hy
    rcases mem_vunion.mp hy with h | h
    · rcases mem_vunion.mp h with h | h
      · exact hback y (nestBlock_ofExp body _ hbody (fun _ hz' => by cases hz') h)
      · simp only [usedVars, List.mem_singleton] at h; subst h; exact ht
    · exact hlo y (hz y h)
  | .tuple xs e, lo, A, y, _, hz, hy => by
    unfold exposedStmt at hy
    unfold liveInStmt
    rcases mem_vunion.mp hy with h | h
    · obtain ⟨h1, h2⟩ := mem_vdiff.mp h
      exact mem_vunion.mpr (Or.inl (mem_vdiff.mpr ⟨hz y h1, h2⟩))
    · exact mem_vunion.mpr (Or.inr h)
  | .badAssign _ _, _, _, _, hi, _, _ => by simp [nestStmt] at hi
  | .brk _, _, _, _, hi, _, _ => by simp [nestStmt] at hi
  | .ret _ _, _, _, _, hi, _, _ => by simp [nestStmt] at hi
  | .unsupported, _, _, _, hi, _, _ => by simp [nestStmt] at hi
theorem nestBlock_ofExp : ∀ (ss : List Stmt) (lo : VSet) {A : VSet} {y : Name}, nestBlock ss lo = true →
    (∀ z, z ∈ A → z ∈ lo) → y ∈ exposedBlock ss A → y ∈ liveInBlock ss lo
  | [], lo, A, y, _, hz, hy => by
    unfold exposedBlock at hy
    unfold liveInBlock
    exact hz y hy
  | st :: ss, lo, A, y, hi, hz, hy => by
    simp only [nestBlock, Bool.and_eq_true] at hi
    unfold exposedBlock at hy
    unfold liveInBlock
    exact nestStmt_ofExp st _ hi.1 (fun z hz' => nestBlock_ofExp ss lo hi.2 hz hz') hy
end

mutual
/-- A variable that is live after a statement of the fragment and not assigned by it is live before it. -/
theorem nestStmt_pass : ∀ (st : Stmt) (lo : VSet) {d : VSet} {x : Name}, nestStmt st lo = true →
    assignedStmt st = some d → x ∈ lo → x ∉ d → x ∈ liveInStmt st lo
  | .assign y e, lo, d, x, hi, hd, hx, hn => live_pass_stmt _ lo (nestStmt_assign hi) hd hx hn
  | .par ys es, lo, d, x, hi, hd, hx, hn => live_pass_stmt _ lo (nestStmt_par hi) hd hx hn
  | .skip, lo, d, x, _, _, hx, _ => by unfold liveInStmt; exact hx
  | .ite c t e, lo, d, x, hi, hd, hx, hn => by
    simp only [nestStmt, Bool.and_eq_true] at hi
    simp only [assignedStmt] at hd
    cases hta : assignedBlock t with
    | none => simp [hta] at hd
    | some a =>
      cases hea : assignedBlock e with
      | none => simp [hta, hea] at hd
      | some b =>
        simp only [hta, hea] at hd
        cases hd
        unfold liveInStmt
        exact mem_vunion.mpr (Or.inl (mem_vunion.mpr (Or.inl
          (nestBlock_pass t lo hi.1.2 hta hx (fun hm => hn (mem_vunion.mpr (Or.inl hm)))))))
  | .for_ i ok b body, lo, d, x, hi, _, hx, _ => by
    obtain ⟨_, _, _, _, hst, _⟩ := nestStmt_for hi
    rw [liveIn_for_eq]
    exact mem_vunion.mpr (Or.inl ((stable_for hst).1 x hx))
  | .while_ c body, lo, d, x, hi, _, hx, _ => by
    obtain ⟨t, rfl⟩ := nestStmt_while_var hi
    obtain ⟨_, hst, _⟩ := nestStmt_while hi
    rw [liveIn_while_eq]
    exact (stable_while hst).1 x hx
  | .tuple xs e, lo, d, x, _, hd, hx, hn => by
    simp only [assignedStmt] at hd
    cases hd
    unfold liveInStmt
    exact mem_vunion.mpr (Or.inl (mem_vdiff.mpr ⟨hx, hn⟩))
  | .badAssign _ _, _, _, _, hi, _, _, _ => by simp [nestStmt] at hi
  | .brk _, _, _, _, hi, _, _, _ => by simp [nestStmt] at hi
  | .ret _ _, _, _, _, hi, _, _, _ => by simp [nestStmt] at hi
  | .unsupported, _, _, _, hi, _, _, _ => by simp [nestStmt] at hi
theorem nestBlock_pass : ∀ (ss : List Stmt) (lo : VSet) {d : VSet} {x : Name}, nestBlock ss lo = true →
    assignedBlock ss = some d → x ∈ lo → x ∉ d → x ∈ liveInBlock ss lo
  | [], lo, d, x, _, _, hx, _ => by unfold liveInBlock; exact hx
  | st :: ss, lo, d, x, hi, hd, hx, hn => by
    simp only [nestBlock, Bool.and_eq_true] at hi
    obtain ⟨a, b, ha, hb, rfl⟩ := assignedBlock_cons' hd
    unfold liveInBlock
    exact nestStmt_pass st _ hi.1 ha
      (nestBlock_pass ss lo hi.2 hb hx (fun hm => hn (mem_vunion.mpr (Or.inr hm))))
      (fun hm => hn (mem_vunion.mpr (Or.inl hm)))
end

/-! ## Castable bookkeeping of the fragment -/

theorem loopInits_cast (L : Locals) : ∀ (state : List Name) {inits : List Name} {ns : List Node} {s s' : St},
    loopInits L state s = .ok ((inits, ns), s') → CastOK s s' := by
  intro state
  induction state with
  | nil =>
    intro inits ns s s' h
    unfold loopInits at h
    obtain ⟨_, e2⟩ := pure_ok h
    subst e2
    exact CastOK.refl _
  | cons pv rest ih =>
    intro inits ns s s' h
    unfold loopInits at h
    mbind h with p s1 h1
    obtain ⟨o, ns1⟩ := p
    try dsimp only at h
    mbind h with p s2 h2
    obtain ⟨os, ns2⟩ := p
    try dsimp only at h
    obtain ⟨_, e2⟩ := pure_ok h
    subst e2
    exact (pyVar_cast h1).trans (ih h2)

theorem condNodes_cast {whileVar brkCond : Option Name} {oc co : Name} {cns : List Node} {s s' : St}
    (h : condNodes whileVar brkCond oc s = .ok ((co, cns), s')) : CastOK s s' := by
  have hone : ∀ {s s' : St} {co : Name} {cns : List Node},
      (do let co ← genUnique "cond_out"
          pure (co, [condNode brkCond oc co]) : M (Name × List Node)) s = .ok ((co, cns), s') → CastOK s s' := by
    intro s s' co cns h
    mbind h with c s1 h1
    obtain ⟨_, e2⟩ := pure_ok h
    subst e2
    exact genUnique_cast h1
  unfold condNodes at h
  cases whileVar with
  | none => exact hone h
  | some w =>
    cases hb : brkCond with
    | none => subst hb; exact hone h
    | some b =>
      subst hb
      simp only at h
      mbind h with nb s1 h1
      mbind h with c s2 h2
      obtain ⟨_, e2⟩ := pure_ok h
      subst e2
      exact (genUnique_cast h1).trans (genUnique_cast h2)

theorem loopFinish_cast {L L2 : Locals} {state : List Name} {bound cond : Option Name}
    {condIn iv : Name} {ps : List Name} {whileVar : Option Name} {bn : List Node}
    {brkCond : Option Name} {L' : Locals} {nl : List Node} {s s' : St}
    (h : loopFinish L L2 state bound cond condIn iv ps whileVar bn brkCond s = .ok ((L', nl), s')) :
    CastOK s s' := by
  unfold loopFinish at h
  cases hc : loopCondName L2 whileVar condIn with
  | none => simp only [hc] at h; exact (failM_ok h).elim
  | some oc =>
    simp only [hc] at h
    mbind h with p s1 h1
    obtain ⟨condOut, cns⟩ := p
    try dsimp only at h
    mbind h with p s2 h2
    obtain ⟨os, ns3⟩ := p
    try dsimp only at h
    mbind h with p s3 h3
    obtain ⟨inits, ns4⟩ := p
    try dsimp only at h
    mbind h with outs s4 h4
    obtain ⟨_, e2⟩ := pure_ok h
    subst e2
    exact (condNodes_cast h1).trans ((loopOutputs_cast _ _ _ _ h2).trans
      ((loopInits_cast _ _ h3).trans (genUniques_cast _ h4)))

mutual
theorem nestStmt_cast (L : Locals) : ∀ (st : Stmt) (lo : VSet) {L' : Locals} {ns : List Node} {s s' : St},
    nestStmt st lo = true → convStmt L st lo s = .ok ((L', ns), s') → CastOK s s'
  | .assign x e, lo, L', ns, s, s', hi, h => ifStmt_cast L _ lo (nestStmt_assign hi) h
  | .par xs es, lo, L', ns, s, s', hi, h => ifStmt_cast L _ lo (nestStmt_par hi) h
  | .skip, lo, L', ns, s, s', _, h => ifStmt_cast L .skip lo (by simp [ifStmt]) h
  | .ite c t e, lo, L', ns, s, s', hi, h => by
    simp only [nestStmt, Bool.and_eq_true] at hi
    unfold convStmt at h
    cases ha : assignedStmt (.ite c t e) with
    | none => simp only [ha] at h; exact (failM_ok h).elim
    | some defs =>
      simp only [ha] at h
      mbind h with p s1 h1
      obtain ⟨test, ns0⟩ := p
      try dsimp only at h
      mbind h with p s2 h2
      obtain ⟨Lt, tn⟩ := p
      try dsimp only at h
      mbind h with p s3 h3
      obtain ⟨to, tn2⟩ := p
      try dsimp only at h
      mbind h with p s4 h4
      obtain ⟨Le, en⟩ := p
      try dsimp only at h
      mbind h with p s5 h5
      obtain ⟨eo, en2⟩ := p
      try dsimp only at h
      mbind h with renamed s6 h6
      by_cases hre : renamed.isEmpty = true
      · rw [if_pos hre] at h; exact (failM_ok h).elim
      · rw [if_neg hre] at h
        by_cases hrt : (renamed == [test]) = true
        · rw [if_pos hrt] at h; exact (failM_ok h).elim
        · rw [if_neg hrt] at h
          obtain ⟨_, e2⟩ := pure_ok h
          subst e2
          exact (convExpr_cast L c _ h1).trans ((nestBlock_cast _ t lo hi.1.2 h2).trans
            ((blockOutputs_cast _ _ _ _ h3).trans ((nestBlock_cast _ e lo hi.2 h4).trans
              ((blockOutputs_cast _ _ _ _ h5).trans (genUniques_cast _ h6)))))
  | .for_ i ok b body, lo, L', ns, s, s', hi, h => by
    obtain ⟨rfl, _, _, _, _, hbody⟩ := nestStmt_for hi
    unfold convStmt at h
    simp only [Bool.not_true, Bool.false_eq_true, if_false] at h
    cases hs : loopState body lo with
    | none => simp only [hs] at h; exact (failM_ok h).elim
    | some state =>
      simp only [hs] at h
      mbind h with p s1 h1
      obtain ⟨ob, ns0⟩ := p
      try dsimp only at h
      mbind h with condIn s2 h2
      have h2 := (forCondIn_ok h2).2
      mbind h with p s3 h3
      obtain ⟨L1, iv, ps⟩ := p
      try dsimp only at h
      mbind h with p s4 h4
      obtain ⟨L2, bn, bc⟩ := p
      try dsimp only at h
      mbind h with p s5 h5
      obtain ⟨L'', nl⟩ := p
      try dsimp only at h
      obtain ⟨_, e2⟩ := pure_ok h
      subst e2
      obtain ⟨h4c, _⟩ := convLoopBody_nobrk body L1 _ (nestBlock_nobrk body _ hbody) h4
      exact (convExpr_cast L b _ h1).trans ((genUnique_cast h2).trans ((loopEnter_parts h3).2.2.2.trans
        ((nestBlock_cast L1 body _ hbody h4c).trans (loopFinish_cast h5))))
  | .while_ c body, lo, L', ns, s, s', hi, h => by
    obtain ⟨t, rfl⟩ := nestStmt_while_var hi
    obtain ⟨_, _, hbody⟩ := nestStmt_while hi
    rw [convStmt_while] at h
    unfold convWhileAt at h
    cases hs : loopState body lo with
    | none => simp only [hs] at h; exact (failM_ok h).elim
    | some state =>
      simp only [hs] at h
      mbind h with condIn s2 h2
      mbind h with p s2' h1
      have h1 := whileCond_ok h1
      obtain ⟨oc, ns0⟩ := p
      try dsimp only at h
      mbind h with p s3 h3
      obtain ⟨L1, iv, ps⟩ := p
      try dsimp only at h
      mbind h with p s4 h4
      obtain ⟨L2, bn, bc⟩ := p
      try dsimp only at h
      mbind h with p s5 h5
      obtain ⟨L'', nl⟩ := p
      try dsimp only at h
      obtain ⟨_, e2⟩ := pure_ok h
      subst e2
      obtain ⟨h4c, _⟩ := convLoopBody_nobrk body L1 _ (nestBlock_nobrk body _ hbody) h4
      exact (genUnique_cast h2).trans ((pyVar_cast h1).trans ((loopEnter_parts h3).2.2.2.trans
        ((nestBlock_cast L1 body _ hbody h4c).trans (loopFinish_cast h5))))
  | .tuple xs e, lo, L', ns, s, s', hi, h => by
    obtain ⟨⟨dom, op, sig, args, attrs, rfl⟩, _⟩ := nestStmt_tuple hi
    exact tuple_cast h
  | .badAssign _ _, _, _, _, _, _, hi, _ => by simp [nestStmt] at hi
  | .brk _, _, _, _, _, _, hi, _ => by simp [nestStmt] at hi
  | .ret _ _, _, _, _, _, _, hi, _ => by simp [nestStmt] at hi
  | .unsupported, _, _, _, _, _, hi, _ => by simp [nestStmt] at hi
theorem nestBlock_cast (L : Locals) : ∀ (ss : List Stmt) (lo : VSet) {L' : Locals} {ns : List Node} {s s' : St},
    nestBlock ss lo = true → convStmts L ss lo s = .ok ((L', ns), s') → CastOK s s'
  | [], lo, L', ns, s, s', _, h => by
    unfold convStmts at h
    obtain ⟨_, e2⟩ := pure_ok h
    subst e2
    exact CastOK.refl _
  | st :: ss, lo, L', ns, s, s', hi, h => by
    simp only [nestBlock, Bool.and_eq_true] at hi
    unfold convStmts at h
    mbind h with p s1 h1
    obtain ⟨L1, ns1⟩ := p
    try dsimp only at h
    mbind h with p s2 h2
    obtain ⟨L2, ns2⟩ := p
    try dsimp only at h
    obtain ⟨_, e2⟩ := pure_ok h
    subst e2
    exact (nestStmt_cast L st _ hi.1 h1).trans (nestBlock_cast L1 ss lo hi.2 h2)
end

/-! ## The simulation -/

/-- The outputs of an executed branch, given the simulation of its statements. -/
theorem branch_run_ev (S : Sem V) (hId : ∀ v, S.op "" "Identity" [some v] [] = some [v])
    {lo liveDefs : VSet} {ρ' : Store V} {Lb : Locals} {env1 envT : Env V} {sB sC : St}
    {bn bn2 : List Node} {bo : List Name}
    (hevT : EvFrom S env1 bn envT) (invT : Inv S lo ρ' Lb envT sB) (hld : ∀ x, x ∈ liveDefs → x ∈ lo)
    (hfreeB : FreeOf S Lb liveDefs)
    (h3 : blockOutputs Lb liveDefs bn [] sB = .ok ((bo, bn2), sC)) :
    ∃ envB rs, EvFrom S env1 (bn ++ bn2) envB ∧ bo.mapM envB = some rs
      ∧ All2 (fun r pv => ρ' pv = some (PV.t r)) rs liveDefs := by
  have hfT : ∀ pv, pv ∈ liveDefs → ∀ n, lookup Lb pv = some (.val n) →
      ∃ v, envT n = some v ∧ ρ' pv = some (.t v) := by
    intro pv hpv n hl
    cases hq : ρ' pv with
    | none => exact absurd hq (invT.bound pv n hl)
    | some q =>
      obtain ⟨v, rfl⟩ := invT.allT pv q hq (hfreeB pv hpv).2
      obtain ⟨n', hl', hr⟩ := invT.rel pv _ (restrict_some.mpr ⟨hld pv hpv, hq⟩)
      rw [hl] at hl'
      cases hl'
      exact ⟨v, hr.1, rfl⟩
  obtain ⟨envT2, evT2, _, _, _, aT2⟩ := blockOutputs_sim S 0 hId Lb liveDefs bn [] invT.vis hfreeB hfT h3
  obtain ⟨rs, hrs, hall⟩ := outs_values aT2
  exact ⟨envT2, rs, EvFrom.seq hevT (EvFrom.of_eval evT2), hrs, hall⟩

/-- `BodyFacts` of a block of the fragment, given its simulation. -/
theorem bodyFacts_of_nest (S : Sem V) (fuel : Nat) {body : List Stmt} {F : VSet} (hbody : nestBlock body F = true)
    (hF : TFree S (targetsBlock body))
    (hsim : ∀ {L L' : Locals} {ρ ρ1 : Store V} {env : Env V} {s s' : St} {ns : List Node},
      FreeOf S L (targetsBlock body) →
      Inv S (liveInBlock body F) ρ L env s → evalBlock S fuel body ρ = some (.normal ρ1) →
      convStmts L body F s = .ok ((L', ns), s') →
      ∃ env', EvFrom S env ns env' ∧ Inv S F ρ1 L' env' s' ∧ Ext env env' s s' ∧ Mono s s') :
    BodyFacts S fuel body F where
  run := fun hρ he => nestBlock_run S fuel body F hbody hF hρ he
  sim := hsim
  cast := fun hc => nestBlock_cast _ body F hbody hc
  nobrk := nestBlock_nobrk body F hbody
  toExp := fun {Z y} hz hy => nestBlock_toExp body F (A := []) (X := Z) hbody hz (fun z hz' => Or.inr hz') hy
  ofExp := fun y hy => nestBlock_ofExp body F (A := []) hbody (fun _ hz => by cases hz) hy
  mono := fun hz hy => nestBlock_mono body F hbody hz hy

/-- `while t: body` given the facts about its body (no `break`). -/
theorem while_stmt_core (S : Sem V) (fuel : Nat) (hConst : ∀ l, ∃ c, constOf S l = some c)
    (hId : ∀ v, S.op "" "Identity" [some v] [] = some [v])
    {t : Name} {body : List Stmt} {lo d state : VSet} {ρ ρ' : Store V} {L L' : Locals} {env : Env V}
    {s s' : St} {ns : List Node}
    (hB : BodyFacts S fuel body (loopBodyLo (.while_ (.var t) body) lo))
    (hd : assignedBlock body = some d) (hs : loopState body lo = some state)
    (hside : t ∈ state ∨ t ∉ liveInBlock body (loopBodyLo (.while_ (.var t) body) lo))
    (hstab : stableStmt (.while_ (.var t) body) lo = true) (htl : S.attrLit t = none ∧ t ∉ S.pyVars)
    (hfree : FreeOf S L (targetsBlock body))
    (hinv : Inv S (liveInStmt (.while_ (.var t) body) lo) ρ L env s)
    (he : evalStmt S fuel (.while_ (.var t) body) ρ = some (.normal ρ'))
    (h : convStmt L (.while_ (.var t) body) lo s = .ok ((L', ns), s')) :
    ∃ G env', evalNodes S G env ns = some env' ∧ Inv S lo ρ' L' env' s' ∧ Ext env env' s s' ∧ Mono s s' := by
  have hfr := convStmt_fresh L _ lo h
  have hsc := convStmt_scope L _ lo hinv.vis (fun x hx => hx) h
  rw [liveIn_while_eq] at hinv
  unfold evalStmt at he
  simp only [evalExpr_var_of_none htl.1] at he
  rw [convStmt_while] at h
  unfold convWhileAt at h
  simp only [hs] at h
  mbind h with condIn s2 h2
  mbind h with p s2' h1
  have h1 := whileCond_ok h1
  obtain ⟨oc, ns0⟩ := p
  try dsimp only at h
  mbind h with p s3 h3
  obtain ⟨L1, iv, ps⟩ := p
  try dsimp only at h
  mbind h with p s4 h4
  obtain ⟨L2, bn, bc⟩ := p
  try dsimp only at h
  mbind h with p s5 h5
  obtain ⟨L'', nl⟩ := p
  try dsimp only at h
  obtain ⟨q1, q2⟩ := pure_ok h
  cases q1; subst q2
  obtain ⟨G, env', ev, inv', x'⟩ := while_core S fuel hConst hId hB hd hs (whileLiveE_of_stable hB hstab) hside htl.2 hfree hinv he
    h2 h1 h3 h4 h5 hfr.1 (hsc.2.mono (fun y hy => after_in_used hfr hy))
  exact ⟨G, env', ev, inv', x', hfr.1⟩

mutual
theorem nestStmt_sim (S : Sem V) (fuel : Nat) (hConst : ∀ l, ∃ c, constOf S l = some c)
    (hId : ∀ v, S.op "" "Identity" [some v] [] = some [v])
    (hTL : ∀ l c b, constOf S l = some c → truthPV S (.py l) = some b → S.truth c = some b) (hT : S.truth (S.ofBool true) = some true)
    (hNat : ∀ k c, constOf S (.int k) = some c → S.natOf c = some k.toNat) :
    ∀ (st : Stmt) (lo : VSet) {ρ ρ' : Store V} {L L' : Locals} {env : Env V} {s s' : St} {ns : List Node},
    nestStmt st lo = true → FreeOf S L (targetsStmt st) → Inv S (liveInStmt st lo) ρ L env s →
    evalStmt S fuel st ρ = some (.normal ρ') → convStmt L st lo s = .ok ((L', ns), s') →
    ∃ env', EvFrom S env ns env' ∧ Inv S lo ρ' L' env' s' ∧ Ext env env' s s' ∧ Mono s s'
  | .assign x e, lo, ρ, ρ', L, L', env, s, s', ns, hi, hfree, hinv, he, h => by
    obtain ⟨env', ev, inv, x', m⟩ := stmt_step S fuel hConst hId hTL _ lo (nestStmt_assign hi) hfree hinv he h
    exact ⟨env', EvFrom.of_eval ev, inv, x', m⟩
  | .par xs es, lo, ρ, ρ', L, L', env, s, s', ns, hi, hfree, hinv, he, h => by
    obtain ⟨env', ev, inv, x', m⟩ := stmt_step S fuel hConst hId hTL _ lo (nestStmt_par hi) hfree hinv he h
    exact ⟨env', EvFrom.of_eval ev, inv, x', m⟩
  | .skip, lo, ρ, ρ', L, L', env, s, s', ns, hi, hfree, hinv, he, h => by
    obtain ⟨env', ev, inv, x', m⟩ := stmt_step S fuel hConst hId hTL .skip lo (by simp [ifStmt]) hfree hinv he h
    exact ⟨env', EvFrom.of_eval ev, inv, x', m⟩
  | .ite c t e, lo, ρ, ρ', L, L', env, s, s', ns, hi0, hfree, hinv, he, h => by
    have hfr := convStmt_fresh L _ lo h
    have hsc := convStmt_scope L _ lo hinv.vis (fun x hx => hx) h
    have hcast := nestStmt_cast L _ lo hi0 h
    have hi := hi0
    have hTF : TFree S (targetsStmt (.ite c t e)) := TFree.of_free hinv.noattr hfree
    simp only [nestStmt, Bool.and_eq_true] at hi
    unfold evalStmt at he
    cases hc : evalExpr S ρ c with
    | none => simp [hc] at he
    | some cv =>
      simp only [hc] at he
      cases hb : truthPV S cv with
      | none => simp [hb] at he
      | some b =>
        simp only [hb] at he
        unfold convStmt at h
        cases ha : assignedStmt (.ite c t e) with
        | none => simp only [ha] at h; exact (failM_ok h).elim
        | some defs =>
          simp only [ha] at h
          mbind h with p s1 h1
          obtain ⟨test, ns0⟩ := p
          try dsimp only at h
          mbind h with p s2 h2
          obtain ⟨Lt, tn⟩ := p
          try dsimp only at h
          mbind h with p s3 h3
          obtain ⟨to, tn2⟩ := p
          try dsimp only at h
          mbind h with p s4 h4
          obtain ⟨Le, en⟩ := p
          try dsimp only at h
          mbind h with p s5 h5
          obtain ⟨eo, en2⟩ := p
          try dsimp only at h
          mbind h with renamed s6 h6
          by_cases hre : renamed.isEmpty = true
          · rw [if_pos hre] at h; exact (failM_ok h).elim
          · rw [if_neg hre] at h
            by_cases hrt : (renamed == [test]) = true
            · rw [if_pos hrt] at h; exact (failM_ok h).elim
            · rw [if_neg hrt] at h
              obtain ⟨q1, q2⟩ := pure_ok h
              cases q1; subst q2
              obtain ⟨ta, ea, hta, hea, hdefs⟩ : ∃ ta ea, assignedBlock t = some ta ∧ assignedBlock e = some ea
                  ∧ defs = vunion ta ea := by
                simp only [assignedStmt] at ha
                cases hta : assignedBlock t with
                | none => simp [hta] at ha
                | some ta =>
                  cases hea : assignedBlock e with
                  | none => simp [hta, hea] at ha
                  | some ea =>
                    simp only [hta, hea] at ha
                    cases ha
                    exact ⟨ta, ea, rfl, rfl, rfl⟩
              have hld : ∀ x, x ∈ vinter lo defs → x ∈ lo := fun x hx => (mem_vinter.mp hx).1
              have hfreeT : FreeOf S ([] :: L) (targetsBlock t) :=
                (hfree.sub (fun x hx => by simp [targetsStmt, hx])).mono (AttrMono.push L)
              have hfreeE : FreeOf S ([] :: L) (targetsBlock e) :=
                (hfree.sub (fun x hx => by simp [targetsStmt, hx])).mono (AttrMono.push L)
              have hfreeD : FreeOf S ([] :: L) (vinter lo defs) :=
                (hfree.sub (fun x hx => assigned_sub_targets _ ha x (mem_vinter.mp hx).2)).mono (AttrMono.push L)
              have hTD : ∀ x, x ∈ vinter lo defs → S.attrLit x = none := fun x hx =>
                (hTF x (assigned_sub_targets _ ha x (mem_vinter.mp hx).2)).1
              have hLv : ∀ y, y ∈ usedVars c → y ∈ liveInStmt (.ite c t e) lo := by
                intro y hy; unfold liveInStmt; exact mem_vunion.mpr (Or.inr hy)
              have hc' : evalExpr S (restrict ρ (liveInStmt (.ite c t e) lo)) c = some cv := by
                rw [evalExpr_restrict S ρ _ c hLv]; exact hc
              obtain ⟨env1, ev1, r1, x1, c1⟩ :=
                convExpr_sim S fuel hConst _ L hinv.noattr c _ hinv.vis hinv.rel hinv.cast hc' h1
              -- the condition: a tensor, or the constant of a Python value (an attribute parameter `if flag:`)
              obtain ⟨cvv, htest, hbt⟩ : ∃ cvv, env1 test = some cvv ∧ S.truth cvv = some b := by
                cases cv with
                | t v => exact ⟨v, r1.1, hb⟩
                | py l =>
                  obtain ⟨⟨cc, hcc, hev⟩, _⟩ := r1
                  exact ⟨cc, hev, hTL l cc b hcc hb⟩
              have k1 := convExpr_cast L c _ h1
              have hinv1 : Inv S (liveInStmt (.ite c t e) lo) ρ L env1 s1 := hinv.ext x1 k1.mono c1
              have k2 := nestBlock_cast _ t lo hi.1.2 h2
              have k3 := blockOutputs_cast _ _ _ _ h3
              have k4 := nestBlock_cast _ e lo hi.2 h4
              have k5 := blockOutputs_cast _ _ _ _ h5
              have k15 : CastOK s s5 := k1.trans (k2.trans (k3.trans (k4.trans k5)))
              obtain ⟨m6, f6, l6⟩ := genUniques_fresh _ h6
              have hc6 := genUniques_castable _ h6
              have hnotin : ∀ n, n ∈ s.used → n ∉ renamed := fun n hn hm => (f6.2 n hm).1 (k15.mono n hn)
              have finish : ∀ (rs : List V) (aset : VSet), (∀ x, x ∈ aset → x ∈ defs) → RunOK S ρ ρ' (some aset) →
                  All2 (fun r pv => ρ' pv = some (PV.t r)) rs (vinter lo defs) →
                  EvFrom S env1 [Node.ifN test renamed (tn ++ tn2) to (en ++ en2) eo]
                    (env1.setMany renamed rs) →
                  ∃ env', EvFrom S env (ns0 ++ [Node.ifN test renamed (tn ++ tn2) to (en ++ en2) eo]) env'
                      ∧ Inv S lo ρ' (bindVals L (vinter lo defs) renamed) env' s6
                      ∧ Ext env env' s s6 ∧ Mono s s6 := by
                intro rs aset hsub run hall evNode
                have xfin : Ext env (env1.setMany renamed rs) s s6 :=
                  ⟨fun n hn => by rw [envSetMany_frame renamed rs env1 n (hnotin n hn)]; exact x1.envSame n hn,
                   hcast.ext⟩
                refine ⟨_, EvFrom.seq (EvFrom.of_eval ev1) evNode, ?_, xfin, hfr.1⟩
                refine ⟨hsc.2.mono (fun y hy => after_in_used hfr hy), hinv.noattr.bindVals _ _ hTD,
                  hcast.sub hinv.cast, run.allT, ?_, ?_⟩
                · intro y q hy
                  obtain ⟨hm, hq⟩ := restrict_some.mp hy
                  by_cases hyl : y ∈ vinter lo defs
                  · obtain ⟨r, v, hl, hev, hρ, hrn⟩ :=
                      bind_set (vinter lo defs) renamed rs L env1 f6.1 l6 hall y hyl
                    rw [hρ] at hq
                    cases hq
                    refine ⟨r, hl, hev, ?_⟩
                    intro hcst
                    rw [hc6] at hcst
                    exact (f6.2 r hrn).1 (k15.sub hinv.cast r hcst)
                  · have hnd : y ∉ defs := fun hd => hyl (mem_vinter.mpr ⟨hm, hd⟩)
                    have hyLv : y ∈ liveInStmt (.ite c t e) lo := nestStmt_pass _ lo hi0 ha hm hnd
                    have hρy : ρ' y = ρ y := run.frame aset rfl y (fun hmem => hnd (hsub y hmem))
                    rw [hρy] at hq
                    obtain ⟨n, hl, hr⟩ := hinv.rel y q (restrict_some.mpr ⟨hyLv, hq⟩)
                    exact ⟨n, by rw [lookup_bindVals_notin _ _ _ hyl]; exact hl, hr.ext (hinv.vis.lookup hl) xfin⟩
                · intro y n hl
                  by_cases hyl : y ∈ vinter lo defs
                  · obtain ⟨r, v, _, _, hρ, _⟩ :=
                      bind_set (vinter lo defs) renamed rs L env1 f6.1 l6 hall y hyl
                    rw [hρ]; simp
                  · rw [lookup_bindVals_notin _ _ _ hyl] at hl
                    exact run.dom y (hinv.bound y n hl)
              cases b with
              | true =>
                simp only at he
                obtain ⟨ρt, hρt, runT⟩ := nestBlock_run S fuel t lo hi.1.2 (hTF.sub (fun y hy => by simp [targetsStmt, hy])) hinv.allT he
                cases hρt
                have hinvT : Inv S (liveInBlock t lo) ρ L env1 s1 := hinv1.mono (by
                  intro y hy; unfold liveInStmt
                  exact mem_vunion.mpr (Or.inl (mem_vunion.mpr (Or.inl hy))))
                obtain ⟨envT, hevT, invT, _, _⟩ :=
                  nestBlock_sim S fuel hConst hId hTL hT hNat t lo hi.1.2 hfreeT hinvT.push he h2
                obtain ⟨envB, rs, ⟨GB, evB⟩, hrs, hall⟩ := branch_run_ev S hId hevT invT hld (hfreeD.mono (convStmts_attrMono _ _ _ h2)) h3
                have hlen : rs.length = renamed.length := by rw [all2_len hall, l6]
                refine finish rs ta (fun x hx => by rw [hdefs]; exact mem_vunion.mpr (Or.inl hx))
                  (by rw [← hta]; exact runT) hall ⟨GB, fun G hG => ?_⟩
                simp [evalNodes, evalNode, htest, hbt, evB G hG, Env.getMany, hrs, hlen]
              | false =>
                simp only at he
                obtain ⟨ρt, hρt, runE⟩ := nestBlock_run S fuel e lo hi.2 (hTF.sub (fun y hy => by simp [targetsStmt, hy])) hinv.allT he
                cases hρt
                have k13 : CastOK s1 s3 := k2.trans k3
                have hinv3 : Inv S (liveInStmt (.ite c t e) lo) ρ L env1 s3 :=
                  hinv1.ext (ext_of_cast k13 (fun _ _ => rfl)) k13.mono (k13.sub c1)
                have hinvE : Inv S (liveInBlock e lo) ρ L env1 s3 := hinv3.mono (by
                  intro y hy; unfold liveInStmt
                  exact mem_vunion.mpr (Or.inl (mem_vunion.mpr (Or.inr hy))))
                obtain ⟨envT, hevT, invT, _, _⟩ :=
                  nestBlock_sim S fuel hConst hId hTL hT hNat e lo hi.2 hfreeE hinvE.push he h4
                obtain ⟨envB, rs, ⟨GB, evB⟩, hrs, hall⟩ := branch_run_ev S hId hevT invT hld (hfreeD.mono (convStmts_attrMono _ _ _ h4)) h5
                have hlen : rs.length = renamed.length := by rw [all2_len hall, l6]
                refine finish rs ea (fun x hx => by rw [hdefs]; exact mem_vunion.mpr (Or.inr hx))
                  (by rw [← hea]; exact runE) hall ⟨GB, fun G hG => ?_⟩
                simp [evalNodes, evalNode, htest, hbt, evB G hG, Env.getMany, hrs, hlen]
  | .for_ i ok b body, lo, ρ, ρ', L, L', env, s, s', ns, hi, hfree, hinv, he, h => by
    obtain ⟨rfl, _, _, ⟨d, hd, hid⟩, hst, hbody⟩ := nestStmt_for hi
    have hTF : TFree S (targetsStmt (.for_ i true b body)) := TFree.of_free hinv.noattr hfree
    have hB := bodyFacts_of_nest S fuel hbody (hTF.sub (fun y hy => by simp [targetsStmt, hy]))
      (fun hf' hinv' he' hc' => nestBlock_sim S fuel hConst hId hTL hT hNat body _ hbody hf' hinv' he' hc')
    obtain ⟨G, env', ev, inv', x', m'⟩ :=
      for_step S fuel hConst hId hT hNat hB hd hid (hTF i (by simp [targetsStmt]))
        (hfree.sub (fun x hx => by simp [targetsStmt, hx]))
        (forLiveE_of_stable hB hst) hinv he h
    exact ⟨env', EvFrom.of_eval ev, inv', x', m'⟩
  | .while_ c body, lo, ρ, ρ', L, L', env, s, s', ns, hi, hfree, hinv, he, h => by
    obtain ⟨t, rfl⟩ := nestStmt_while_var hi
    obtain ⟨⟨d, state, hd, hs, hside⟩, hst, hbody⟩ := nestStmt_while hi
    have hTF : TFree S (targetsStmt (.while_ (.var t) body)) := TFree.of_free hinv.noattr hfree
    have hB := bodyFacts_of_nest S fuel hbody (hTF.sub (fun y hy => by simp [targetsStmt, hy]))
      (fun hf' hinv' he' hc' => nestBlock_sim S fuel hConst hId hTL hT hNat body _ hbody hf' hinv' he' hc')
    obtain ⟨G, env', ev, inv', x', m'⟩ := while_stmt_core S fuel hConst hId hB hd hs hside hst
      (hTF t (by simp [targetsStmt, bareVar]))
      (hfree.sub (fun x hx => by simp [targetsStmt, hx])) hinv he h
    exact ⟨env', EvFrom.of_eval ev, inv', x', m'⟩
  | .tuple xs e, lo, ρ, ρ', L, L', env, s, s', ns, hi, hfree, hinv, he, h => by
    obtain ⟨⟨dom, op, sig, args, attrs, rfl⟩, hnd⟩ := nestStmt_tuple hi
    obtain ⟨env', ev, inv, x', m⟩ := tuple_step S fuel hConst hnd (fun x hx => (TFree.of_free hinv.noattr hfree x (by simp [targetsStmt, hx])).1) hinv he h
    exact ⟨env', EvFrom.of_eval ev, inv, x', m⟩
  | .badAssign _ _, _, _, _, _, _, _, _, _, _, hi, _, _, _, _ => by simp [nestStmt] at hi
  | .brk _, _, _, _, _, _, _, _, _, _, hi, _, _, _, _ => by simp [nestStmt] at hi
  | .ret _ _, _, _, _, _, _, _, _, _, _, hi, _, _, _, _ => by simp [nestStmt] at hi
  | .unsupported, _, _, _, _, _, _, _, _, _, hi, _, _, _, _ => by simp [nestStmt] at hi
theorem nestBlock_sim (S : Sem V) (fuel : Nat) (hConst : ∀ l, ∃ c, constOf S l = some c)
    (hId : ∀ v, S.op "" "Identity" [some v] [] = some [v])
    (hTL : ∀ l c b, constOf S l = some c → truthPV S (.py l) = some b → S.truth c = some b) (hT : S.truth (S.ofBool true) = some true)
    (hNat : ∀ k c, constOf S (.int k) = some c → S.natOf c = some k.toNat) :
    ∀ (ss : List Stmt) (lo : VSet) {ρ ρ' : Store V} {L L' : Locals} {env : Env V} {s s' : St} {ns : List Node},
    nestBlock ss lo = true → FreeOf S L (targetsBlock ss) → Inv S (liveInBlock ss lo) ρ L env s →
    evalBlock S fuel ss ρ = some (.normal ρ') → convStmts L ss lo s = .ok ((L', ns), s') →
    ∃ env', EvFrom S env ns env' ∧ Inv S lo ρ' L' env' s' ∧ Ext env env' s s' ∧ Mono s s'
  | [], lo, ρ, ρ', L, L', env, s, s', ns, _, _, hinv, he, h => by
    unfold evalBlock at he
    cases he
    unfold convStmts at h
    obtain ⟨q1, q2⟩ := pure_ok h
    cases q1; subst q2
    unfold liveInBlock at hinv
    exact ⟨env, EvFrom.of_eval (evalNodes_nil S 0 _), hinv, Ext.refl _ _, Mono.refl _⟩
  | st :: ss, lo, ρ, ρ', L, L', env, s, s', ns, hi, hfree, hinv, he, h => by
    simp only [nestBlock, Bool.and_eq_true] at hi
    unfold liveInBlock at hinv
    unfold evalBlock at he
    cases hs : evalStmt S fuel st ρ with
    | none => simp [hs] at he
    | some o1 =>
      obtain ⟨ρ1, rfl, _⟩ := nestStmt_run S fuel st _ hi.1 (TFree.of_free hinv.noattr hfree.head.1) hinv.allT hs
      simp only [hs] at he
      unfold convStmts at h
      mbind h with p s1 h1
      obtain ⟨L1, ns1⟩ := p
      try dsimp only at h
      mbind h with p s2 h2
      obtain ⟨L2, ns2⟩ := p
      try dsimp only at h
      obtain ⟨q1, q2⟩ := pure_ok h
      cases q1; subst q2
      obtain ⟨env1, ev1, inv1, x1, m1⟩ := nestStmt_sim S fuel hConst hId hTL hT hNat st _ hi.1 hfree.head.1 hinv hs h1
      obtain ⟨env2, ev2, inv2, x2, m2⟩ := nestBlock_sim S fuel hConst hId hTL hT hNat ss lo hi.2
        (hfree.head.2.mono (convStmt_attrMono L st _ h1)) inv1 he h2
      exact ⟨env2, EvFrom.seq ev1 ev2, inv2, x1.trans m1 x2, m1.trans m2⟩
end

/-! ## Function level -/

theorem nestLine_cons {st : Stmt} {ss : List Stmt} (h : nestLine (st :: ss) = true) :
    (∃ es, st = .ret es false ∧ ss = []) ∨
      (((litAssign st = true ∨ nestStmt st (liveInBlock ss []) = true) ∨ forTopStmt st (liveInBlock ss []) = true)
        ∧ nestLine ss = true) := by
  unfold nestLine at h
  cases st with
  | ret es bare =>
    cases ss with
    | nil =>
      simp only [Bool.not_eq_true'] at h
      subst h
      exact Or.inl ⟨es, rfl, rfl⟩
    | cons s2 ss2 => simp [forTopStmt, ifStmt, nestStmt, litAssign] at h
  | _ => right; simpa using h

/-- A top-level assignment to one of the Python-scalar variables (`x = 2.0`): the invariant does not ask `x` to
hold a tensor, the straight-line relation carries the castable constant. -/
theorem pyAssign_step (S : Sem V) (fuel : Nat) (hConst : ∀ l, ∃ c, constOf S l = some c) {x : Name} {e : Expr}
    {lo : VSet} {ρ ρ' : Store V} {L L' : Locals} {env : Env V} {s s' : St} {ns : List Node}
    (hx : S.attrLit x = none) (hxP : x ∈ S.pyVars)
    (hinv : Inv S (liveInStmt (.assign x e) lo) ρ L env s)
    (he : evalStmt S fuel (.assign x e) ρ = some (.normal ρ'))
    (h : convStmt L (.assign x e) lo s = .ok ((L', ns), s')) :
    ∃ env', evalNodes S fuel env ns = some env' ∧ Inv S lo ρ' L' env' s' ∧ Ext env env' s s' ∧ Mono s s' := by
  unfold evalStmt at he
  cases hee : evalExpr S ρ e with
  | none => simp [hee] at he
  | some pv =>
    simp only [hee] at he
    cases he
    have hsub : ∀ y, y ∈ usedVars e → y ∈ liveInStmt (.assign x e) lo := by
      intro y hy; unfold liveInStmt; exact mem_vunion.mpr (Or.inr hy)
    have hee' : evalExpr S (restrict ρ (liveInStmt (.assign x e) lo)) e = some pv := by
      rw [evalExpr_restrict S ρ _ e hsub]; exact hee
    obtain ⟨env1, ev1, hR1, x1, c1, hL1, hA1, m1⟩ :=
      assign_sim S fuel hConst hinv.noattr hinv.vis hinv.rel hinv.cast hx hee' h
    refine ⟨env1, ev1, ⟨hL1, hA1, c1, ?_, ?_, ?_⟩, x1, m1⟩
    · intro y q hy hyP
      unfold Store.set at hy
      by_cases hyx : y = x
      · exact absurd (hyx ▸ hxP) hyP
      · simp only [hyx, if_false] at hy
        exact hinv.allT y q hy hyP
    · apply hR1.of_le
      intro y q hy
      obtain ⟨hm, hq⟩ := restrict_some.mp hy
      unfold Store.set at hq ⊢
      by_cases hyx : y = x
      · simpa [hyx] using hq
      · simp only [hyx, if_false] at hq ⊢
        apply restrict_some.mpr
        refine ⟨?_, hq⟩
        unfold liveInStmt
        exact mem_vunion.mpr (Or.inl (mem_vdiff.mpr ⟨hm, by simpa using hyx⟩))
    · intro y n hl
      unfold convStmt at h
      mbind h with p s1 h1
      obtain ⟨t, ns1⟩ := p
      try dsimp only at h
      obtain ⟨q1, q2⟩ := pure_ok h
      cases q1
      unfold Store.set
      by_cases hyx : y = x
      · simp [hyx]
      · simp only [hyx, if_false]
        rw [lookup_bindVar_ne hyx] at hl
        exact hinv.bound y n hl

theorem convTop_nest_sim (S : Sem V) (fuel : Nat) (hConst : ∀ l, ∃ c, constOf S l = some c)
    (hId : ∀ v, S.op "" "Identity" [some v] [] = some [v])
    (hTL : ∀ l c b, constOf S l = some c → truthPV S (.py l) = some b → S.truth c = some b) (hT : S.truth (S.ofBool true) = some true)
    (hNat : ∀ k c, constOf S (.int k) = some c → S.natOf c = some k.toNat)
    (hNot : ∀ v bk, S.truth v = some bk → ∃ w, S.op "" "Not" [some v] [] = some [w] ∧ S.truth w = some (!bk))
    (hAnd : ∀ x y yb, S.truth y = some yb → ∃ w, S.op "" "And" [some x, some y] [] = some [w] ∧
      (yb = false → S.truth w = some false) ∧ (yb = true → S.truth w = S.truth x))
    {inputs : List Name} {rc : Option Nat} :
    ∀ (body : List Stmt) (L : Locals) {ρ : Store V} {env : Env V} {s s' : St} {ns : List Node}
      {outs : List Name} {pvs : List (PV V)} {vs : List V},
      nestLine body = true → FreeOf S L (targetsTop body) →
      (∀ x, x ∈ litTargets body → S.attrLit x = none ∧ x ∈ S.pyVars) →
      Inv S (liveInBlock body []) ρ L env s →
      evalBlock S fuel body ρ = some (.returned pvs) → pvs.mapM (toTensor S) = some vs →
      convTop inputs rc L body [] s = .ok ((ns, outs), s') →
      ∃ G env', evalNodes S G env ns = some env' ∧ outs.mapM env' = some vs := by
  intro body
  induction body with
  | nil => intro L ρ env s s' ns outs pvs vs hi; simp [nestLine] at hi
  | cons st ss ih =>
    intro L ρ env s s' ns outs pvs vs hi hfree hLT hinv he hv h
    rcases nestLine_cons hi with ⟨es, rfl, rfl⟩ | ⟨hst, hss⟩
    · obtain ⟨env', ev, hm⟩ := convTop_if_sim S fuel hConst hId hTL [.ret es false] L (by simp [ifLine])
        (fun x hx => by simp [targetsBlock, targetsStmt] at hx) hinv he hv h
      exact ⟨fuel, env', ev, hm⟩
    · unfold liveInBlock at hinv
      unfold evalBlock at he
      cases hs : evalStmt S fuel st ρ with
      | none => simp [hs] at he
      | some o1 =>
        have hnr : ∀ es b, st ≠ .ret es b := by
          intro es b hc
          subst hc
          rcases hst with (h' | h') | h'
          · simp [litAssign] at h'
          · simp [nestStmt] at h'
          · simp [forTopStmt, ifStmt] at h'
        rw [convTop_cons_nonret inputs rc L st ss [] hnr] at h
        mbind h with p s1 h1
        obtain ⟨L1, ns1⟩ := p
        try dsimp only at h
        mbind h with p s2 h2
        obtain ⟨ns2, outs2⟩ := p
        try dsimp only at h
        obtain ⟨q1, q2⟩ := pure_ok h
        cases q1
        have hfreeR : FreeOf S L (targetsTop ss) := hfree.sub (fun x hx => by simp [targetsTop, hx])
        have hLTR : ∀ x, x ∈ litTargets ss → S.attrLit x = none ∧ x ∈ S.pyVars := by
          intro x hx
          apply hLT x
          cases st with
          | assign y e => unfold litTargets; split <;> simp [hx]
          | _ => simpa [litTargets] using hx
        have hstep : ∃ ρ1, o1 = .normal ρ1 ∧ ∃ G env', evalNodes S G env ns1 = some env' ∧
            Inv S (liveInBlock ss []) ρ1 L1 env' s1 := by
          cases hlit : litAssign st with
          | true =>
            cases st with
            | assign y e =>
              simp only [litAssign, Bool.not_eq_true'] at hlit
              have hy := hLT y (by simp [litTargets, hlit])
              have hn : ∃ ρ1, o1 = .normal ρ1 := by
                unfold evalStmt at hs
                cases hee : evalExpr S ρ e with
                | none => simp [hee] at hs
                | some pv => simp only [hee] at hs; cases hs; exact ⟨_, rfl⟩
              obtain ⟨ρ1, rfl⟩ := hn
              obtain ⟨env', ev, inv', _, _⟩ := pyAssign_step S fuel hConst hy.1 hy.2 hinv hs h1
              exact ⟨ρ1, rfl, fuel, env', ev, inv'⟩
            | _ => simp [litAssign] at hlit
          | false =>
            have hfreeS : FreeOf S L (targetsStmt st) := hfree.sub (fun x hx => by simp [targetsTop, hlit, hx])
            rcases hst with (h' | h') | h'
            · rw [hlit] at h'; cases h'
            · obtain ⟨ρ1, rfl, _⟩ := nestStmt_run S fuel st _ h' (TFree.of_free hinv.noattr hfreeS) hinv.allT hs
              obtain ⟨env', ⟨G, ev⟩, inv', _, _⟩ := nestStmt_sim S fuel hConst hId hTL hT hNat st _ h' hfreeS hinv hs h1
              exact ⟨ρ1, rfl, G, env', ev G (Nat.le_refl _), inv'⟩
            · exact top_step S fuel hConst hId hTL hT hNat hNot hAnd st _ h' hfreeS hinv hs h1
        obtain ⟨ρ1, rfl, G1, env1, ev1, inv1⟩ := hstep
        simp only [hs] at he
        obtain ⟨G2, env2, ev2, hm2⟩ := ih L1 hss (hfreeR.mono (convStmt_attrMono L st _ h1)) hLTR inv1 he hv h2
        exact ⟨max G1 G2, env2,
          evalNodes_seq (evalNodes_mono S ns1 G1 _ _ _ (Nat.le_max_left _ _) ev1)
            (evalNodes_mono S _ G2 _ _ _ (Nat.le_max_right _ _) ev2), hm2⟩

/-- **Refinement for functions with loops nested in loops and branches.** -/
theorem convert_correct_nest (S : Sem V) (hConst : ∀ l, ∃ c, constOf S l = some c)
    (hId : ∀ v, S.op "" "Identity" [some v] [] = some [v])
    (hTL : ∀ l c b, constOf S l = some c → truthPV S (.py l) = some b → S.truth c = some b) (hT : S.truth (S.ofBool true) = some true)
    (hNat : ∀ k c, constOf S (.int k) = some c → S.natOf c = some k.toNat)
    (hNot : ∀ v bk, S.truth v = some bk → ∃ w, S.op "" "Not" [some v] [] = some [w] ∧ S.truth w = some (!bk))
    (hAnd : ∀ x y yb, S.truth y = some yb → ∃ w, S.op "" "And" [some x, some y] [] = some [w] ∧
      (yb = false → S.truth w = some false) ∧ (yb = true → S.truth w = S.truth x))
    {f : Func} {g : Graph}
    (hil : nestLine f.body = true) (hattr : ∀ p, p ∈ attrParams f.params → p ∉ targetsTop f.body)
    (hσ : ∀ x l, S.attrLit x = some l → ∃ ty, Param.attr x ty ∈ f.params ∧ AttrVal S x ty l)
    (hPy : ∀ x, x ∈ S.pyVars → x ∉ targetsTop f.body)
    (hLT : ∀ x, x ∈ litTargets f.body → S.attrLit x = none ∧ x ∈ S.pyVars)
    (hnames : (f.params.map Param.name).Nodup) (h : convert f = .ok g)
    {fuel : Nat} {args vs : List V} (he : evalFunc S fuel f args = some vs) :
    ∃ G, evalGraph S G g args = some vs :=
  convert_correct_via S hattr hσ hPy hnames h he
    (fun hfree hinv hb he' hc =>
      convTop_nest_sim S fuel hConst hId hTL hT hNat hNot hAnd f.body _ hil hfree hLT hinv hb he' hc)

end OV.C01
