import OV.Model.C13Roundtrip
import OV.Lemmas.C13
set_option linter.unusedSimpArgs false
set_option linter.unnecessarySimpa false
set_option linter.unusedVariables false
/-! Lemmas for the straight-line round trip: renaming invariance of `evalGraph`. -/
namespace OV.C13

variable {V : Type}

/-- `ρ'` is `ρ` seen through the renaming `f`, on the names `N` -/
def Agree (f : String → String) (N : List String) (ρ ρ' : Env V) : Prop :=
  ∀ x ∈ N, x ≠ "" → ρ' (f x) = ρ x

/-- the renaming is usable on `N`: injective there, and never produces the empty name -/
structure GoodRen (f : String → String) (N : List String) : Prop where
  inj : ∀ a ∈ N, ∀ b ∈ N, f a = f b → a = b
  ne : ∀ a ∈ N, a ≠ "" → f a ≠ ""

theorem agree_set {f : String → String} {N : List String} (hf : GoodRen f N) {ρ ρ' : Env V}
    (h : Agree f N ρ ρ') (o : String) (ho : o ∈ N) (v : V) :
    Agree f N (ρ.set o v) (ρ'.set (f o) v) := by
  intro x hx hxne
  unfold Env.set
  by_cases hxo : x = o
  · subst hxo; simp
  · have : f x ≠ f o := fun h' => hxo (hf.inj x hx o ho h')
    simp only [this, hxo, if_false]
    exact h x hx hxne

theorem bindOuts_ren {f : String → String} {N : List String} (hf : GoodRen f N) :
    ∀ (outs : List String) (vs : List V) (ρ ρ' : Env V), Agree f N ρ ρ' → (∀ o ∈ outs, o ∈ N) →
      match bindOuts ρ outs vs, bindOuts ρ' (outs.map f) vs with
      | some r, some r' => Agree f N r r'
      | none, none => True
      | _, _ => False
  | [], [], ρ, ρ', h, _ => by simpa [bindOuts] using h
  | [], _ :: _, _, _, _, _ => by simp [bindOuts]
  | _ :: _, [], _, _, _, _ => by simp [bindOuts]
  | o :: os, v :: vs, ρ, ρ', h, hN => by
    simp only [List.map_cons, bindOuts]
    exact bindOuts_ren hf os vs _ _ (agree_set hf h o (hN o (by simp)) v) (fun x hx => hN x (by simp [hx]))

theorem lookupIn_ren {f : String → String} {N : List String} (hf : GoodRen f N) {ρ ρ' : Env V}
    (h : Agree f N ρ ρ') (x : String) (hx : x ∈ N) : lookupIn ρ' (renName f x) = lookupIn ρ x := by
  unfold lookupIn renName
  by_cases hxe : x = ""
  · simp [hxe]
  · have : f x ≠ "" := hf.ne x hx hxe
    simp only [hxe, this, if_false]
    rw [h x hx hxe]

theorem lookupIns_ren {f : String → String} {N : List String} (hf : GoodRen f N) {ρ ρ' : Env V}
    (h : Agree f N ρ ρ') : ∀ (xs : List String), (∀ x ∈ xs, x ∈ N) →
      lookupIns ρ' (xs.map (renName f)) = lookupIns ρ xs
  | [], _ => rfl
  | x :: xs, hN => by
    simp only [List.map_cons, lookupIns, lookupIn_ren hf h x (hN x (by simp)),
      lookupIns_ren hf h xs (fun y hy => hN y (by simp [hy]))]

theorem lookupOuts_ren {f : String → String} {N : List String} {ρ ρ' : Env V}
    (h : Agree f N ρ ρ') : ∀ (xs : List String), (∀ x ∈ xs, x ∈ N ∧ x ≠ "") →
      lookupOuts ρ' (xs.map f) = lookupOuts ρ xs
  | [], _ => rfl
  | x :: xs, hN => by
    have hx := hN x (by simp)
    simp only [List.map_cons, lookupOuts, h x hx.1 hx.2,
      lookupOuts_ren h xs (fun y hy => hN y (by simp [hy]))]

theorem evalNode_ren (S : Sem V) {f : String → String} {N : List String} (hf : GoodRen f N) {ρ ρ' : Env V}
    (h : Agree f N ρ ρ') (n : Node) (hins : ∀ x ∈ n.ins, x ∈ N) (houts : ∀ x ∈ n.outs, x ∈ N) :
    match evalNode S ρ n, evalNode S ρ' (renNode f n) with
    | some r, some r' => Agree f N r r'
    | none, none => True
    | _, _ => False := by
  cases n with
  | mk op dom name ins outs attrs =>
    simp only [Node.ins, Node.outs] at hins houts
    simp only [evalNode, renNode, Node.ins, Node.outs, Node.op, Node.domain, Node.attrs,
      lookupIns_ren hf h ins hins]
    cases lookupIns ρ ins with
    | none => trivial
    | some is =>
      simp only
      cases S.op dom op attrs is with
      | none => trivial
      | some os => exact bindOuts_ren hf outs os ρ ρ' h houts

theorem evalNodes_ren (S : Sem V) {f : String → String} {N : List String} (hf : GoodRen f N) :
    ∀ (ns : List Node) (ρ ρ' : Env V), Agree f N ρ ρ' →
      (∀ n ∈ ns, (∀ x ∈ n.ins, x ∈ N) ∧ (∀ x ∈ n.outs, x ∈ N)) →
      match evalNodes S ρ ns, evalNodes S ρ' (ns.map (renNode f)) with
      | some r, some r' => Agree f N r r'
      | none, none => True
      | _, _ => False
  | [], ρ, ρ', h, _ => by simpa [evalNodes] using h
  | n :: ns, ρ, ρ', h, hN => by
    have hn := hN n (by simp)
    have step := evalNode_ren S hf h n hn.1 hn.2
    simp only [List.map_cons, evalNodes]
    cases h1 : evalNode S ρ n with
    | none =>
      cases h2 : evalNode S ρ' (renNode f n) with
      | none => trivial
      | some r' => rw [h1, h2] at step; exact step.elim
    | some r =>
      cases h2 : evalNode S ρ' (renNode f n) with
      | none => rw [h1, h2] at step; exact step.elim
      | some r' =>
        rw [h1, h2] at step
        exact evalNodes_ren S hf ns _ _ step (fun m hm => hN m (by simp [hm]))

/-- names a renaming must be good on: the model's own name collector at depth 0 -/
theorem mem_names_of_input {g : Graph} {x : String} (h : x ∈ g.inputs) : x ∈ namesOfGraph 0 g := by
  unfold namesOfGraph; simp [h]
theorem mem_names_of_output {g : Graph} {x : String} (h : x ∈ g.outputs) : x ∈ namesOfGraph 0 g := by
  unfold namesOfGraph; simp [h]
theorem mem_names_of_node_in {g : Graph} {n : Node} {x : String} (hn : n ∈ g.nodes) (h : x ∈ n.ins) :
    x ∈ namesOfGraph 0 g := by
  unfold namesOfGraph
  simp only [List.mem_append, List.mem_flatMap]
  right; exact ⟨n, hn, by simp [namesOfNode, h]⟩
theorem mem_names_of_node_out {g : Graph} {n : Node} {x : String} (hn : n ∈ g.nodes) (h : x ∈ n.outs) :
    x ∈ namesOfGraph 0 g := by
  unfold namesOfGraph
  simp only [List.mem_append, List.mem_flatMap]
  right; exact ⟨n, hn, by simp [namesOfNode, h]⟩

/-- **Renaming invariance**: a renaming that is injective on the names of a straight-line graph (and keeps
    them non-empty) does not change what the graph computes, for any operator semantics and any arguments. -/
theorem evalGraph_ren (S : Sem V) (f : String → String) (g : Graph)
    (hf : GoodRen f (namesOfGraph 0 g))
    (hin : ∀ x ∈ g.inputs, x ≠ "") (hout : ∀ x ∈ g.outputs, x ≠ "") (args : List V) :
    evalGraph S (renGraph f g) args = evalGraph S g args := by
  cases g with
  | mk gin gout ginits gsp gnodes =>
    simp only [Graph.inputs, Graph.outputs] at hin hout
    have h0 : Agree f (namesOfGraph 0 (Graph.mk gin gout ginits gsp gnodes))
        (fun _ => (none : Option V)) (fun _ => none) := fun _ _ _ => rfl
    have hb := bindOuts_ren hf gin args _ _ h0 (fun o ho => mem_names_of_input (g := Graph.mk gin gout ginits gsp gnodes) ho)
    simp only [evalGraph, renGraph, Graph.inputs, Graph.nodes, Graph.outputs]
    cases h1 : bindOuts (fun _ => (none : Option V)) gin args with
    | none =>
      cases h2 : bindOuts (fun _ => (none : Option V)) (gin.map f) args with
      | none => rfl
      | some r' => rw [h1, h2] at hb; exact hb.elim
    | some ρ =>
      cases h2 : bindOuts (fun _ => (none : Option V)) (gin.map f) args with
      | none => rw [h1, h2] at hb; exact hb.elim
      | some ρ' =>
        rw [h1, h2] at hb
        have hn := evalNodes_ren S hf gnodes ρ ρ' hb
          (fun n hn => ⟨fun x hx => mem_names_of_node_in (g := Graph.mk gin gout ginits gsp gnodes) hn hx,
                        fun x hx => mem_names_of_node_out (g := Graph.mk gin gout ginits gsp gnodes) hn hx⟩)
        simp only
        cases h3 : evalNodes S ρ gnodes with
        | none =>
          cases h4 : evalNodes S ρ' (gnodes.map (renNode f)) with
          | none => rfl
          | some r' => rw [h3, h4] at hn; exact hn.elim
        | some r =>
          cases h4 : evalNodes S ρ' (gnodes.map (renNode f)) with
          | none => rw [h3, h4] at hn; exact hn.elim
          | some r' =>
            rw [h3, h4] at hn
            exact lookupOuts_ren hn gout
              (fun x hx => ⟨mem_names_of_output (g := Graph.mk gin gout ginits gsp gnodes) hx, hout x hx⟩)









/-! ## the fragment, as propositions -/

theorem cleanup_fix_string (s : String) (hid : isPyIdentL s.toList = true) (hk : s.toList ∉ kwlistL) :
    cleanup s = s := by
  unfold cleanup
  rw [cleanupL_fix _ hid hk, String.ofList_toList]

theorem aliasOk_spec {opsets : List (String × Nat)} (h : aliasOk opsets = true) :
    ∃ v, opsets.lookup "" = some v ∧ (opsets.map importOf).lookup (opsetName "" v) = some "" := by
  unfold aliasOk at h
  cases hl : opsets.lookup "" with
  | none => rw [hl] at h; cases h
  | some v => rw [hl] at h; exact ⟨v, rfl, by simpa using h⟩

theorem translateAttrs_printable : ∀ (attrs : List (String × Attr)),
    attrs.all (fun ka => attrPrintable ka.2) = true → translateAttrs attrs = .ok (attrs.map attrTok)
  | [], _ => rfl
  | (k, a) :: rest, h => by
    simp only [List.all_cons, Bool.and_eq_true] at h
    have ih := translateAttrs_printable rest h.2
    have h1 := h.1
    cases a with
    | plain => simp only [translateAttrs, ih, Except.map, List.map_cons, attrTok]
    | tensor _ _ _ _ => simp only [translateAttrs, ih, Except.map, List.map_cons, attrTok]
    | ref _ => simp [attrPrintable] at h1
    | graph _ => simp [attrPrintable] at h1
    | unsupported => simp [attrPrintable] at h1

theorem no_graph_of_printable : ∀ (attrs : List (String × Attr)),
    attrs.all (fun ka => attrPrintable ka.2) = true → attrs.any (·.2.isGraph) = false
  | [], _ => rfl
  | (k, a) :: rest, h => by
    simp only [List.all_cons, Bool.and_eq_true] at h
    have ih := no_graph_of_printable rest h.2
    have h1 := h.1
    cases a with
    | plain => rw [List.any_cons, ih]; rfl
    | tensor _ _ _ _ => rw [List.any_cons, ih]; rfl
    | ref _ => simp [attrPrintable] at h1
    | graph _ => simp [attrPrintable] at h1
    | unsupported => simp [attrPrintable] at h1






structure StraightNode (o : Opts) (opsets : List (String × Nat)) (n : Node) : Prop where
  notIf : n.op ≠ "If"
  notLoop : n.op ≠ "Loop"
  notScan : n.op ≠ "Scan"
  dom : n.domain = ""
  ops : (opsets.lookup "").isSome = true
  attrs : n.attrs.all (fun ka => attrPrintable ka.2) = true
  outs : ∀ x ∈ n.outs, x ≠ ""
  opId : isPyIdentL n.op.toList = true
  opKw : n.op.toList ∉ kwlistL
  ident : ¬ (n.op = "Identity" ∧ n.ins.length = 1 ∧ n.outs.length = 1 ∧
              (n.outs.getD 0 "" = n.ins.getD 0 "" ∨ n.ins.getD 0 "" = ""))
  sugar : ∀ sym, sugarOf o n = some sym → sugarSymmetric n sym = true

theorem straightNode_spec (o : Opts) (opsets : List (String × Nat)) (n : Node)
    (h : straightNode o opsets n = true) : StraightNode o opsets n := by
  unfold straightNode at h
  simp only [Bool.and_eq_true, bne_iff_ne, ne_eq, beq_iff_eq, Bool.not_eq_true', List.all_eq_true,
    Bool.not_eq_eq_eq_not, Bool.not_true, Bool.or_eq_true] at h
  obtain ⟨⟨⟨⟨⟨⟨⟨⟨⟨⟨h1, h2⟩, h3⟩, h4⟩, h5⟩, h6⟩, h7⟩, h8⟩, h9⟩, h10⟩, h11⟩ := h
  refine ⟨h1, h2, h3, h4, h5, ?_, h7, h8, ?_, ?_, ?_⟩
  · simpa [List.all_eq_true] using h6
  · simpa using h9
  · intro hc
    obtain ⟨a, b, c, d⟩ := hc
    simp only [a, b, c, true_and, decide_true, Bool.true_and, Bool.and_eq_false_iff, Bool.or_eq_false_iff,
      beq_eq_false_iff_ne, ne_eq, beq_self_eq_true, Bool.true_eq_false, false_or] at h10
    rcases d with d | d
    · exact h10.1 d
    · exact h10.2 d
  · intro sym hs
    rw [hs] at h11
    exact h11



/-! ## names printed through the table -/

theorem map_pyT_stable {u T : List (String × String)} (h : Ext u T) :
    ∀ (l : List String), (∀ x ∈ l, Present u x) → l.map (pyT T) = l.map (pyT u)
  | [], _ => rfl
  | x :: xs, hp => by
    simp only [List.map_cons, pyT_stable h (hp x (by simp)), map_pyT_stable h xs (fun y hy => hp y (by simp [hy]))]

/-- no printed name starts with `-` -/
def NoDash (u : List (String × String)) : Prop := ∀ p ∈ u, p.2.toList.head? ≠ some '-'

theorem idStart_ne_dash {c : Char} (h : idStart c = true) : c ≠ '-' := by
  intro hc; subst hc; revert h; decide

theorem uniqCand_nodash (n : String) (hn : n ≠ "") (j : Nat) :
    (uniqCand (cleanup n) j).toList.head? ≠ some '-' := by
  have hid := (cleanupL_ident n.toList (toList_ne_nil' hn)).1
  have hcl : (cleanup n).toList = cleanupL n.toList := by simp [cleanup, String.toList_ofList]
  cases hc : cleanupL n.toList with
  | nil => rw [hc] at hid; simp [isPyIdentL] at hid
  | cons c cs =>
    rw [hc] at hid
    simp only [isPyIdentL, Bool.and_eq_true] at hid
    have hne := idStart_ne_dash hid.1
    unfold uniqCand
    by_cases hj : j = 0
    · simp only [hj, if_true, hcl, hc, List.head?_cons, ne_eq, Option.some.injEq]; exact hne
    · simp only [hj, if_false, String.toList_append, hcl, hc, List.cons_append, List.head?_cons, ne_eq,
        Option.some.injEq]; exact hne

theorem noDash_uniqStep {u : List (String × String)} (h : NoDash u) (n : String) (hn : n ≠ "") :
    NoDash (uniqStep u n).2 := by
  unfold uniqStep
  cases hl : u.lookup n with
  | some r => exact h
  | none =>
    simp only
    obtain ⟨j, hj⟩ := findFree_is_cand (cleanup n) (u.map (·.2)) (u.length + 1) 0
    intro p hp
    rcases List.mem_append.mp hp with hp | hp
    · exact h p hp
    · simp only [List.mem_singleton] at hp
      subst hp; simp only; rw [hj]; exact uniqCand_nodash n hn j

theorem noDash_uniqReq {u : List (String × String)} (h : NoDash u) (v : String) : NoDash (uniqReq u v) := by
  unfold uniqReq
  by_cases hv : v = ""
  · simp only [hv, if_true]; exact h
  · simp only [hv, if_false]; exact noDash_uniqStep h v hv

theorem noDash_uniqRun : ∀ (vs : List String) {u : List (String × String)}, NoDash u → NoDash (uniqRun u vs)
  | [], _, h => h
  | v :: vs, _, h => noDash_uniqRun vs (noDash_uniqReq h v)

theorem pyT_nodash {T : List (String × String)} (h : NoDash T) (v : String) :
    (pyT T v).toList.head? ≠ some '-' := by
  unfold pyT
  by_cases hv : v = ""
  · simp only [hv, if_true]; decide
  · simp only [hv, if_false]
    cases hl : T.lookup v with
    | none => simp
    | some r => simp only [Option.getD_some]; exact h _ (lookup_some_mem T v r hl)

theorem powParen_names {T : List (String × String)} (h : NoDash T) (op a : String) (rest : List String) :
    powParen op (pyT T a :: rest) = pyT T a :: rest := by
  unfold powParen
  have : ((pyT T a).toList.head? == some '-') = false := by simpa using pyT_nodash h a
  simp [this]

/-- the state the lemmas below are about: only the unique-name mapper acts, and its table is well formed -/
structure Tame (st : St) : Prop where
  plain : Plain st
  inv : TblInv st.uniq
  nodash : NoDash st.uniq

theorem tame_run {st : St} (h : Tame st) (vs : List String) : Tame { st with uniq := uniqRun st.uniq vs } :=
  ⟨plain_uniq h.plain _, tblInv_uniqRun vs h.inv, noDash_uniqRun vs h.nodash⟩



theorem getD_map_pyT (T : List (String × String)) (l : List String) (h : l.length = 1) :
    (l.map (pyT T)).getD 0 "" = pyT T (l.getD 0 "") := by
  match l, h with
  | [a], _ => rfl

theorem translatePlain_tbl (o : Opts) (hr : o.rename = false) (opsets : List (String × Nat)) (n : Node)
    (hn : StraightNode o opsets n) (indent : Nat) (st : St) (ht : Tame st) :
    translatePlain o opsets n indent st =
      .ok ([renderStmt indent (straightStmtF (pyT (uniqRun st.uniq (reqOfNode o n))) o opsets n)],
           { st with uniq := uniqRun st.uniq (reqOfNode o n) }) := by
  have hq := ht.plain
  unfold translatePlain straightStmtF reqOfNode
  simp only [no_graph_of_printable n.attrs hn.attrs, Bool.false_eq_true, if_false]
  have hso : (if o.useOps then opsTable.lookup n.op else none) = sugarOf o n := rfl
  rw [hso]
  cases hs : sugarOf o n with
  | some sym =>
    have hsym := hn.sugar sym hs
    unfold sugarSymmetric at hsym
    simp only [Bool.and_eq_true, beq_iff_eq, List.isEmpty_iff] at hsym
    obtain ⟨⟨⟨_, h2⟩, _⟩, _⟩ := hsym
    simp only [translateVar_uniq o hr st hq, translateVarRefs_uniq o hr _ _ (plain_uniq hq _), renderStmt, uniqRun]
    match hi : n.ins, h2 with
    | [a, b], _ =>
      have hstab := pyT_stable (uniqRun_ext [a, b] (uniqReq st.uniq (n.outs.getD 0 "")))
        (present_uniqReq st.uniq (n.outs.getD 0 ""))
      have hnd : NoDash (uniqRun (uniqReq st.uniq (n.outs.getD 0 "")) [a, b]) :=
        noDash_uniqRun [a, b] (noDash_uniqReq ht.nodash _)
      simp only [List.map_cons, List.map_nil, List.getD_cons_zero, List.getD_cons_succ, hstab,
        powParen_names hnd]
  | none =>
    simp only [hn.dom]
    obtain ⟨v, hv⟩ := Option.isSome_iff_exists.mp hn.ops
    have hq1 : Plain { st with uniq := uniqRun st.uniq n.outs } := plain_uniq hq _
    have hfl : st.localFns.lookup (cleanup n.op) = none := by rw [hq.fns]; rfl
    simp only [hv, Option.getD_some, translateAttrs_printable n.attrs hn.attrs, hfl,
      outNames_uniq o hr n.outs 0 st hq hn.outs, translateVarRefs_uniq o hr n.ins _ hq1, renderStmt,
      ← uniqRun_append]
    -- the outputs were printed with the table after the outputs; restate them with the table after the node
    have houts : n.outs.map (pyT (uniqRun st.uniq n.outs)) = n.outs.map (pyT (uniqRun st.uniq (n.outs ++ n.ins))) := by
      rw [uniqRun_append]
      exact (map_pyT_stable (uniqRun_ext n.ins _) n.outs (fun x hx => present_uniqRun n.outs _ x hx)).symm
    rw [houts]
    have hid : (n.op == "Identity" && n.ins.length == 1 && n.outs.length == 1 &&
        (n.outs.map (pyT (uniqRun st.uniq (n.outs ++ n.ins)))).getD 0 "" ==
          (n.ins.map (pyT (uniqRun st.uniq (n.outs ++ n.ins)))).getD 0 "") = false := by
      by_cases hc : n.op = "Identity" ∧ n.ins.length = 1 ∧ n.outs.length = 1
      · obtain ⟨a, b, c⟩ := hc
        have hT : TblInv (uniqRun st.uniq (n.outs ++ n.ins)) := tblInv_uniqRun _ ht.inv
        have hne : n.outs.getD 0 "" ≠ n.ins.getD 0 "" := fun e => hn.ident ⟨a, b, c, Or.inl e⟩
        have hin : n.ins.getD 0 "" ≠ "" := fun e => hn.ident ⟨a, b, c, Or.inr e⟩
        have hmo : n.outs.getD 0 "" ∈ n.outs := by
          match ho : n.outs, c with
          | [x], _ => simp
        have hmi : n.ins.getD 0 "" ∈ n.ins := by
          match hi : n.ins, b with
          | [x], _ => simp
        have hout : n.outs.getD 0 "" ≠ "" := hn.outs _ hmo
        have hpo : Present (uniqRun st.uniq (n.outs ++ n.ins)) (n.outs.getD 0 "") :=
          present_uniqRun _ _ _ (List.mem_append_left _ hmo)
        have hpi : Present (uniqRun st.uniq (n.outs ++ n.ins)) (n.ins.getD 0 "") :=
          present_uniqRun _ _ _ (List.mem_append_right _ hmi)
        have hneq : pyT (uniqRun st.uniq (n.outs ++ n.ins)) (n.outs.getD 0 "") ≠
            pyT (uniqRun st.uniq (n.outs ++ n.ins)) (n.ins.getD 0 "") :=
          fun e => hne (pyT_inj hT hout hin hpo hpi e)
        simp only [a, b, c, beq_self_eq_true, Bool.true_and, getD_map_pyT _ _ b, getD_map_pyT _ _ c]
        simpa using hneq
      · have : (n.op == "Identity" && n.ins.length == 1 && n.outs.length == 1) = false := by
          simp only [Bool.and_eq_false_iff, beq_eq_false_iff_ne, ne_eq]
          by_cases a : n.op = "Identity"
          · by_cases b : n.ins.length = 1
            · right; intro c; exact hc ⟨a, b, c⟩
            · left; right; exact b
          · left; left; exact a
        simp only [this, Bool.false_and]
    simp only [hid, Bool.false_eq_true, if_false]



theorem translateNode_tbl (o : Opts) (hr : o.rename = false) (hi : o.inlineConst = false)
    (opsets : List (String × Nat)) (d indent : Nat) (n : Node) (hn : StraightNode o opsets n)
    (st : St) (ht : Tame st) :
    translateNode o opsets (d + 1) indent n st =
      .ok ([renderStmt indent (straightStmtF (pyT (uniqRun st.uniq (reqOfNode o n))) o opsets n)],
           { st with uniq := uniqRun st.uniq (reqOfNode o n) }) := by
  have e2 : (n.op == "If") = false := by simpa using hn.notIf
  have e3 : (n.op == "Loop") = false := by simpa using hn.notLoop
  have e4 : (n.op == "Scan") = false := by simpa using hn.notScan
  simp only [translateNode, hi, Bool.false_and, Bool.false_eq_true, if_false, e2, e3, e4]
  exact translatePlain_tbl o hr opsets n hn indent st ht

theorem getD_mem_or (l : List String) (i : Nat) : l.getD i "" ∈ l ∨ l.getD i "" = "" := by
  rw [List.getD_eq_getElem?_getD]
  cases h : l[i]? with
  | none => right; rfl
  | some x => left; simp only [Option.getD_some]; exact List.mem_of_getElem? h

/-- the printed statement only depends on the names of the node (and on `""`) -/
theorem straightStmtF_congr (f g : String → String) (o : Opts) (opsets : List (String × Nat)) (n : Node)
    (h : ∀ x, x ∈ n.outs ++ n.ins ∨ x = "" → f x = g x) :
    straightStmtF f o opsets n = straightStmtF g o opsets n := by
  unfold straightStmtF
  have hget : ∀ (l : List String) (i : Nat), (∀ x ∈ l, x ∈ n.outs ++ n.ins) → f (l.getD i "") = g (l.getD i "") := by
    intro l i hl
    rcases getD_mem_or l i with hm | hm
    · exact h _ (Or.inl (hl _ hm))
    · exact h _ (Or.inr hm)
  have houts : n.outs.map f = n.outs.map g :=
    List.map_congr_left (fun x hx => h x (Or.inl (List.mem_append_left _ hx)))
  have hins : n.ins.map f = n.ins.map g :=
    List.map_congr_left (fun x hx => h x (Or.inl (List.mem_append_right _ hx)))
  cases sugarOf o n with
  | some sym =>
    simp only [hget n.outs 0 (fun x hx => List.mem_append_left _ hx),
      hget n.ins 0 (fun x hx => List.mem_append_right _ hx), hget n.ins 1 (fun x hx => List.mem_append_right _ hx)]
  | none => simp only [houts, hins]

/-- every name of a node is requested by its translation (operator sugar: under the symmetry condition) -/
theorem names_in_req (o : Opts) (opsets : List (String × Nat)) (n : Node) (hn : StraightNode o opsets n) :
    ∀ x ∈ n.outs ++ n.ins, x ∈ reqOfNode o n := by
  intro x hx
  unfold reqOfNode
  cases hs : sugarOf o n with
  | none => exact hx
  | some sym =>
    have hsym := hn.sugar sym hs
    unfold sugarSymmetric at hsym
    simp only [Bool.and_eq_true, beq_iff_eq, List.isEmpty_iff] at hsym
    obtain ⟨⟨⟨_, _⟩, h3⟩, _⟩ := hsym
    match ho : n.outs, h3 with
    | [c], _ =>
      rw [ho] at hx
      simpa using hx

theorem stmt_stable (o : Opts) (opsets : List (String × Nat)) (n : Node) (hn : StraightNode o opsets n)
    {u T : List (String × String)} (h : Ext (uniqRun u (reqOfNode o n)) T) :
    straightStmtF (pyT (uniqRun u (reqOfNode o n))) o opsets n = straightStmtF (pyT T) o opsets n := by
  apply straightStmtF_congr
  intro x hx
  rcases hx with hx | hx
  · exact (pyT_stable h (present_uniqRun _ _ _ (names_in_req o opsets n hn x hx))).symm
  · subst hx; rfl

theorem nodesLoop_tbl (o : Opts) (hr : o.rename = false) (hi : o.inlineConst = false)
    (opsets : List (String × Nat)) (d indent : Nat) :
    ∀ (ns : List Node) (st : St), Tame st → (∀ n ∈ ns, StraightNode o opsets n) →
      nodesLoop (translateNode o opsets (d + 1) indent) ns st =
        .ok (ns.map (fun n => renderStmt indent
              (straightStmtF (pyT (uniqRun st.uniq (ns.flatMap (reqOfNode o)))) o opsets n)),
             { st with uniq := uniqRun st.uniq (ns.flatMap (reqOfNode o)) })
  | [], st, _, _ => rfl
  | n :: ns, st, ht, h => by
    have hn := h n (by simp)
    have ht1 := tame_run ht (reqOfNode o n)
    have ih := nodesLoop_tbl o hr hi opsets d indent ns _ ht1 (fun m hm => h m (by simp [hm]))
    simp only [nodesLoop, translateNode_tbl o hr hi opsets d indent n hn st ht, ih, List.flatMap_cons,
      uniqRun_append, List.map_cons, List.singleton_append]
    rw [stmt_stable o opsets n hn (uniqRun_ext (ns.flatMap (reqOfNode o)) _)]



theorem straightModel_nodes {tys : List String} {o : Opts} {m : ModelP} (h : straightModel tys o m = true) :
    ∀ n ∈ m.graph.nodes, StraightNode o m.opsets n := by
  unfold straightModel at h
  simp only [Bool.and_eq_true, List.all_eq_true] at h
  intro n hn
  exact straightNode_spec o m.opsets n (h.1.1.2 n hn)

theorem finalTable_eq (tys : List String) (o : Opts) (m : ModelP) :
    finalTable tys o m =
      uniqRun (uniqRun (uniqRun (reservedTable (reservedNames tys [m.opsets] [])) (m.graph.nodes.flatMap (reqOfNode o)))
        m.graph.inputs) m.graph.outputs := by
  unfold finalTable reqOrder
  rw [uniqRun_append, uniqRun_append]

theorem dedup_nodup : ∀ (l : List String), (dedup l).Nodup
  | [] => List.nodup_nil
  | x :: xs => by
    simp only [dedup]
    split
    · exact dedup_nodup xs
    · rename_i h
      exact List.nodup_cons.mpr ⟨h, dedup_nodup xs⟩

theorem reservedTable_vals (res : List String) : (reservedTable res).map (·.2) = res := by
  unfold reservedTable; simp [List.map_map, Function.comp_def]

theorem mem_reservedTable {res : List String} {p : String × String} (h : p ∈ reservedTable res) : p.2 ∈ res := by
  unfold reservedTable at h
  obtain ⟨r, hr, rfl⟩ := List.mem_map.mp h
  exact hr

/-- the reserved names form a well-formed start table when they pass `reservedOk` -/
theorem tblInv_reserved {res : List String} (hnd : res.Nodup) (hok : reservedOk res = true) :
    TblInv (reservedTable res) ∧ NoDash (reservedTable res) := by
  unfold reservedOk at hok
  simp only [List.all_eq_true, Bool.and_eq_true, bne_iff_ne, ne_eq, Bool.not_eq_true'] at hok
  refine ⟨⟨by rw [reservedTable_vals]; exact hnd, ?_, ?_⟩, ?_⟩
  · intro p hp
    have := (hok _ (mem_reservedTable hp)).1.2
    simpa using this
  · intro p hp; exact (hok _ (mem_reservedTable hp)).1.1
  · intro p hp
    have := (hok _ (mem_reservedTable hp)).2
    simpa using this

theorem tame_start {res : List String} (hnd : res.Nodup) (hok : reservedOk res = true) (X : List String) :
    Tame ({ remaps := [[]], namesRead := X, uniq := reservedTable res } : St) :=
  ⟨⟨rfl, fun v => by simp [lookupRemap, List.lookup], rfl, rfl⟩, (tblInv_reserved hnd hok).1, (tblInv_reserved hnd hok).2⟩

theorem reservedNames_nodup (tys : List String) (a : List (List (String × Nat))) (b : List String) :
    (reservedNames tys a b).Nodup := by
  unfold reservedNames; exact dedup_nodup _

theorem graphProg_tbl (tys : List String) (o : Opts) (m : ModelP) (h : straightModel tys o m = true) (d indent : Nat) :
    ∃ st', graphProg o (d + 1) m m.funName indent { uniq := reservedTable (reservedNames tys [m.opsets] []) } =
      .ok (["deco " ++ defaultOpsetArg o m.opsets,
            "sig " ++ m.funName ++ "(" ++ comma (m.graph.inputs.map (pyT (finalTable tys o m))) ++ "|)"]
            ++ m.graph.nodes.map (fun n => renderStmt indent (straightStmtF (pyT (finalTable tys o m)) o m.opsets n))
            ++ [line indent ("return " ++ comma (m.graph.outputs.map (pyT (finalTable tys o m))))], st')
      ∧ st'.skipped = [] := by
  have hnodes := straightModel_nodes h
  unfold straightModel at h
  simp only [Bool.and_eq_true, List.all_eq_true, bne_iff_ne, ne_eq, Bool.not_eq_true', List.isEmpty_iff,
    beq_iff_eq] at h
  obtain ⟨⟨⟨⟨⟨⟨⟨⟨⟨⟨⟨hres, hr⟩, hi⟩, hinits⟩, hsp⟩, _⟩, _⟩, _⟩, _⟩, _⟩, _⟩, _⟩ := h
  have ht0 := tame_start (reservedNames_nodup tys [m.opsets] []) hres
    (m.graph.outputs ++ namesReadBy (d + 1) m.graph.nodes)
  refine ⟨({ remaps := [], namesRead := m.graph.outputs ++ namesReadBy (d + 1) m.graph.nodes,
             uniq := finalTable tys o m } : St), ?_, rfl⟩
  simp only [finalTable_eq]
  generalize reservedTable (reservedNames tys [m.opsets] []) = R at ht0 ⊢
  have ht1 := tame_run ht0 (m.graph.nodes.flatMap (reqOfNode o))
  have ht2 := tame_run ht1 m.graph.inputs
  · unfold graphProg graphBody
    simp only [hinits, initsLoop, hsp, Nat.lt_irrefl, gt_iff_lt, if_false, List.nil_append,
      nodesLoop_tbl o hr hi m.opsets d indent m.graph.nodes _ ht0 hnodes,
      translateVars_uniq o hr m.graph.inputs _ ht1.plain, translateVarRefs_uniq o hr m.graph.outputs _ ht2.plain]
    -- restate the body (table after the body) and the signature (table after the signature) with the final table
    have hbody : ∀ n ∈ m.graph.nodes,
        renderStmt indent (straightStmtF (pyT (uniqRun R (m.graph.nodes.flatMap (reqOfNode o)))) o m.opsets n) =
        renderStmt indent (straightStmtF (pyT (uniqRun (uniqRun (uniqRun R (m.graph.nodes.flatMap (reqOfNode o)))
          m.graph.inputs) m.graph.outputs)) o m.opsets n) := by
      intro n hn
      apply congrArg (renderStmt indent)
      apply straightStmtF_congr
      intro x hx
      rcases hx with hx | hx
      · have hp : Present (uniqRun R (m.graph.nodes.flatMap (reqOfNode o))) x :=
          present_uniqRun _ _ _ (List.mem_flatMap.mpr ⟨n, hn, names_in_req o m.opsets n (hnodes n hn) x hx⟩)
        exact (pyT_stable ((uniqRun_ext m.graph.inputs _).trans (uniqRun_ext m.graph.outputs _)) hp).symm
      · subst hx; rfl
    have hsig : m.graph.inputs.map (pyT (uniqRun (uniqRun R (m.graph.nodes.flatMap (reqOfNode o))) m.graph.inputs)) =
        m.graph.inputs.map (pyT (uniqRun (uniqRun (uniqRun R (m.graph.nodes.flatMap (reqOfNode o)))
          m.graph.inputs) m.graph.outputs)) :=
      (map_pyT_stable (uniqRun_ext m.graph.outputs _) m.graph.inputs
        (fun x hx => present_uniqRun m.graph.inputs _ x hx)).symm
    rw [List.map_congr_left hbody, hsig]
    rfl

/-- **The string-level model of the exporter prints exactly `exportStraight` on the fragment** (every option
    tuple of the fragment, every nesting fuel ≥ 1). -/
theorem exportModel_straight (tys : List String) (o : Opts) (m : ModelP) (h : straightModel tys o m = true) (d : Nat) :
    exportModelT tys o (d + 1) m = .ok (renderProg (exportStraight tys o m)) := by
  obtain ⟨s1, hg1, hk1⟩ := graphProg_tbl tys o m h d 1
  obtain ⟨s2, hg2, hk2⟩ := graphProg_tbl tys o m h d 2
  have h' := h
  unfold straightModel at h'
  simp only [Bool.and_eq_true, List.all_eq_true, bne_iff_ne, ne_eq, Bool.not_eq_true', List.isEmpty_iff,
    beq_iff_eq] at h'
  obtain ⟨⟨⟨⟨⟨⟨⟨⟨⟨⟨_, _⟩, _⟩, _⟩, _⟩, hname⟩, _⟩, _⟩, _⟩, _⟩, _⟩ := h'
  unfold exportModelT translateGraph
  simp only [hname, Bool.false_eq_true, if_false]
  cases hs : o.skipInit
  · simp only [Bool.false_eq_true, if_false, hg1, hk1, List.isEmpty_nil, if_true, Except.map, renderProg,
      exportStraight, List.map_map, Function.comp_def]
  · simp only [if_true, hg2, hk2, hg1, List.isEmpty_nil, Except.map, renderProg, exportStraight, List.map_map,
      Function.comp_def]

/-! ## reading the exported program back -/

theorem lookup_empty_uniqReq {u : List (String × String)} (h : u.lookup "" = none) (v : String) :
    (uniqReq u v).lookup "" = none := by
  unfold uniqReq
  by_cases hv : v = ""
  · simp only [hv, if_true]; exact h
  · simp only [hv, if_false]
    unfold uniqStep
    cases hl : u.lookup v with
    | some r => exact h
    | none =>
      simp only [List.lookup_append, h, List.lookup, Option.none_or]
      have : ("" == v) = false := by simpa using (fun e : "" = v => hv e.symm)
      simp [this]

theorem lookup_empty_uniqRun : ∀ (vs : List String) {u : List (String × String)}, u.lookup "" = none →
    (uniqRun u vs).lookup "" = none
  | [], _, h => h
  | v :: vs, _, h => lookup_empty_uniqRun vs (lookup_empty_uniqReq h v)

theorem pyT_eq_tblF {T : List (String × String)} {v : String} (hv : v ≠ "") : pyT T v = tblF T v := by
  unfold pyT tblF; simp only [hv, if_false]

theorem unPy_pyT {T : List (String × String)} (hT : TblInv T) (v : String) (hp : Present T v) :
    unPy (pyT T v) = renName (tblF T) v := by
  unfold renName unPy
  by_cases hv : v = ""
  · simp [hv, pyT]
  · have hn := pyT_ne_None hT hv hp
    rw [pyT_eq_tblF hv] at hn
    simp only [hv, if_false, pyT_eq_tblF hv, hn]

theorem map_pyT_eq_tblF {T : List (String × String)} : ∀ (l : List String), (∀ x ∈ l, x ≠ "") →
    l.map (pyT T) = l.map (tblF T)
  | [], _ => rfl
  | x :: xs, h => by
    simp only [List.map_cons, pyT_eq_tblF (h x (by simp)), map_pyT_eq_tblF xs (fun y hy => h y (by simp [hy]))]

/-- **Reading back one printed statement gives the node renamed by the table.** -/
theorem stmtToNode_tbl (o : Opts) (opsets : List (String × Nat)) (n : Node)
    (hn : StraightNode o opsets n) (ha : aliasOk opsets = true) {T : List (String × String)} (hT : TblInv T)
    (hp : ∀ x ∈ n.outs ++ n.ins, Present T x) :
    stmtToNode (opsets.map importOf) (straightStmtF (pyT T) o opsets n) = renNode (tblF T) n := by
  obtain ⟨v, hv, hal⟩ := aliasOk_spec ha
  unfold straightStmtF
  cases hs : sugarOf o n with
  | some sym =>
    have hsym := hn.sugar sym hs
    unfold sugarSymmetric at hsym
    simp only [Bool.and_eq_true, beq_iff_eq, List.isEmpty_iff] at hsym
    obtain ⟨⟨⟨h1, h2⟩, h3⟩, h4⟩ := hsym
    cases n with
    | mk op dom name ins outs attrs =>
      simp only [Node.ins, Node.outs, Node.attrs, Node.op, Node.domain] at *
      match ins, outs, h2, h3 with
      | [a, b], [c], _, _ =>
        have hc : c ≠ "" := hn.outs c (by simp [Node.outs])
        have hd : dom = "" := hn.dom
        subst hd
        have hpa := hp a (by simp)
        have hpb := hp b (by simp)
        simp only [stmtToNode, renNode, h1, Option.getD_some, List.getD_cons_zero, List.getD_cons_succ,
          unPy_pyT hT a hpa, unPy_pyT hT b hpb, pyT_eq_tblF hc, List.map_cons, List.map_nil, Node.ins, Node.outs,
          Node.attrs, Node.op, Node.domain, h4]
  | none =>
    cases n with
    | mk op dom name ins outs attrs =>
      simp only [Node.ins, Node.outs, Node.attrs, Node.op, Node.domain] at *
      have hd : dom = "" := hn.dom
      subst hd
      simp only [stmtToNode, renNode, hv, Option.getD_some, hal, Node.ins, Node.outs, Node.attrs, Node.op,
        Node.domain, cleanup_fix_string op hn.opId hn.opKw, List.map_map, map_pyT_eq_tblF outs hn.outs]
      congr 1
      apply List.map_congr_left
      intro x hx
      exact unPy_pyT hT x (hp x (List.mem_append_right _ hx))

/-- every name of the graph has been requested by the end of the export -/
theorem names_present (tys : List String) (o : Opts) (m : ModelP) (h : straightModel tys o m = true) :
    ∀ x ∈ namesOfGraph 0 m.graph, Present (finalTable tys o m) x := by
  have hnodes := straightModel_nodes h
  have hinits : m.graph.inits = [] := by
    unfold straightModel at h
    simp only [Bool.and_eq_true, List.isEmpty_iff] at h
    exact h.1.1.1.1.1.1.1.1.2
  intro x hx
  unfold finalTable reqOrder
  unfold namesOfGraph at hx
  simp only [hinits, List.map_nil, List.append_nil, List.mem_append, List.mem_flatMap] at hx
  apply present_uniqRun
  simp only [List.mem_append, List.mem_flatMap]
  rcases hx with (hx | hx) | ⟨n, hn, hx⟩
  · left; right; exact hx
  · right; exact hx
  · left; left
    refine ⟨n, hn, names_in_req o m.opsets n (hnodes n hn) x ?_⟩
    simp only [namesOfNode, List.mem_append] at hx
    exact List.mem_append.mpr hx.symm

theorem straightModel_reserved {tys : List String} {o : Opts} {m : ModelP} (h : straightModel tys o m = true) :
    reservedOk (reservedNames tys [m.opsets] []) = true := by
  unfold straightModel at h
  simp only [Bool.and_eq_true] at h
  exact h.1.1.1.1.1.1.1.1.1.1.1

theorem tblInv_finalTable {tys : List String} {o : Opts} {m : ModelP} (h : straightModel tys o m = true) :
    TblInv (finalTable tys o m) := by
  unfold finalTable
  exact tblInv_uniqRun _ (tblInv_reserved (reservedNames_nodup tys [m.opsets] []) (straightModel_reserved h)).1

/-- **The converter's reading of the exported program is the graph renamed by the final table.** -/
theorem progToGraph_exportStraight (tys : List String) (o : Opts) (m : ModelP) (h : straightModel tys o m = true) :
    progToGraph (exportStraight tys o m) = renGraph (tblF (finalTable tys o m)) m.graph := by
  have hnodes := straightModel_nodes h
  have hpres := names_present tys o m h
  have hT : TblInv (finalTable tys o m) := tblInv_finalTable h
  have h' := h
  unfold straightModel at h'
  simp only [Bool.and_eq_true, List.all_eq_true, bne_iff_ne, ne_eq] at h'
  obtain ⟨⟨⟨⟨⟨⟨⟨⟨⟨⟨⟨_, _⟩, _⟩, _⟩, _⟩, hal⟩, _⟩, hin⟩, hout⟩, _⟩, _⟩, _⟩ := h'
  have hmap : m.graph.nodes.map (fun n => stmtToNode (m.opsets.map importOf)
        (straightStmtF (pyT (finalTable tys o m)) o m.opsets n)) =
      m.graph.nodes.map (renNode (tblF (finalTable tys o m))) := by
    apply List.map_congr_left
    intro n hn
    exact stmtToNode_tbl o m.opsets n (hnodes n hn) hal hT
      (fun x hx => hpres x (by
        rcases List.mem_append.mp hx with hx | hx
        · exact mem_names_of_node_out hn hx
        · exact mem_names_of_node_in hn hx))
  generalize hF : finalTable tys o m = T at hmap ⊢
  unfold progToGraph exportStraight renGraph
  simp only [hF, List.map_map, Function.comp_def, map_pyT_eq_tblF m.graph.outputs hout,
    map_pyT_eq_tblF m.graph.inputs hin, hmap]

/-- the final table is a usable renaming on the names of the graph — **no hypothesis on the names** -/
theorem goodRen_finalTable (tys : List String) (o : Opts) (m : ModelP) (h : straightModel tys o m = true) :
    GoodRen (tblF (finalTable tys o m)) (namesOfGraph 0 m.graph) := by
  have hpres := names_present tys o m h
  have hT : TblInv (finalTable tys o m) := tblInv_finalTable h
  have hfe : tblF (finalTable tys o m) "" = "" := by unfold tblF; simp
  have hne : ∀ a ∈ namesOfGraph 0 m.graph, a ≠ "" → tblF (finalTable tys o m) a ≠ "" := by
    intro a ha hane
    rw [← pyT_eq_tblF hane]
    exact pyT_ne_empty hT hane (hpres a ha)
  refine ⟨?_, hne⟩
  intro a ha b hb hab
  by_cases hae : a = "" <;> by_cases hbe : b = ""
  · rw [hae, hbe]
  · rw [hae, hfe] at hab; exact absurd hab.symm (hne b hb hbe)
  · rw [hbe, hfe] at hab; exact absurd hab (hne a ha hae)
  · rw [← pyT_eq_tblF hae, ← pyT_eq_tblF hbe] at hab
    exact pyT_inj hT hae hbe (hpres a ha) (hpres b hb) hab



/-! ## initializers -/


theorem nodesLoop_append (f : Node → St → R) : ∀ (a b : List Node) (st : St),
    nodesLoop f (a ++ b) st =
      match nodesLoop f a st with
      | .error e => .error e
      | .ok (l1, st1) =>
        match nodesLoop f b st1 with
        | .error e => .error e
        | .ok (l2, st2) => .ok (l1 ++ l2, st2)
  | [], b, st => by
    simp only [List.nil_append, nodesLoop]
    cases nodesLoop f b st with
    | error e => rfl
    | ok r => simp
  | n :: a, b, st => by
    simp only [List.cons_append, nodesLoop]
    cases f n st with
    | error e => rfl
    | ok r =>
      obtain ⟨l0, st0⟩ := r
      simp only [nodesLoop_append f a b st0]
      cases nodesLoop f a st0 with
      | error e => rfl
      | ok r1 =>
        obtain ⟨l1, st1⟩ := r1
        simp only
        cases nodesLoop f b st1 with
        | error e => rfl
        | ok r2 => simp [List.append_assoc]

theorem initsLoop_eq_nodesLoop (o : Opts) (rec : Node → St → R) :
    ∀ (inits : List (String × Nat × Nat × List Nat × Bool × String)) (st : St),
      inits.all (fun i => !(o.skipInit && i.2.1 > 4)) = true →
      initsLoop o rec inits st = nodesLoop rec (inits.map initNode) st
  | [], st, _ => rfl
  | (name, size, dtype, dims, finite, lit) :: rest, st, h => by
    simp only [List.all_cons, Bool.and_eq_true, Bool.not_eq_true'] at h
    have h1 : (o.skipInit && decide (size > 4)) = false := h.1
    simp only [initsLoop, h1, Bool.false_eq_true, if_false, List.map_cons, nodesLoop, initNode]
    cases rec (Node.mk "Constant" "" "" [] [name] [("value", Attr.tensor dtype dims finite lit)]) st with
    | error e => rfl
    | ok r =>
      obtain ⟨l1, st1⟩ := r
      simp only [initsLoop_eq_nodesLoop o rec rest st1 h.2]

/-- **Initializers that are not skipped are translated exactly like leading `Constant` nodes.** -/
theorem graphBody_unfoldInits (o : Opts) (rec : Node → St → R) (g : Graph) (st : St)
    (h : noneSkipped o g = true) (hs : g.nSparse = 0) :
    graphBody o rec g st = graphBody o rec (initsAsNodes g) st := by
  cases g with
  | mk gi go inits sp nodes =>
    simp only [noneSkipped, Graph.inits, Graph.nSparse] at h hs
    subst hs
    simp only [graphBody, initsAsNodes, Graph.inits, Graph.nSparse, Graph.nodes, initsLoop, Nat.lt_irrefl, gt_iff_lt,
      if_false, List.nil_append, initsLoop_eq_nodesLoop o rec inits st h, nodesLoop_append]
    cases nodesLoop rec (inits.map initNode) st with
    | error e => rfl
    | ok r =>
      obtain ⟨l1, st1⟩ := r
      simp only
      cases nodesLoop rec nodes st1 with
      | error e => rfl
      | ok r2 => rfl

theorem namesReadBy_inits (d : Nat) (inits : List (String × Nat × Nat × List Nat × Bool × String)) (nodes : List Node) :
    namesReadBy d (inits.map initNode ++ nodes) = namesReadBy d nodes := by
  induction inits with
  | nil => rfl
  | cons i rest ih =>
    cases d with
    | zero =>
      simp only [List.map_cons, List.cons_append, namesReadBy, List.flatMap_cons, initNode, Node.ins, List.nil_append]
        at ih ⊢
      exact ih
    | succ d =>
      simp only [List.map_cons, List.cons_append, namesReadBy, List.flatMap_cons, initNode, Node.ins, Node.attrs,
        List.nil_append, List.flatMap_nil, List.append_nil] at ih ⊢
      exact ih

theorem exportModel_unfoldInits (tys : List String) (o : Opts) (d : Nat) (m : ModelP)
    (h : noneSkipped o m.graph = true) (hs : m.graph.nSparse = 0) :
    exportModelT tys o d m = exportModelT tys o d m.unfoldInits := by
  have hb : ∀ rec st, graphBody o rec m.graph st = graphBody o rec (initsAsNodes m.graph) st :=
    fun rec st => graphBody_unfoldInits o rec m.graph st h hs
  unfold exportModelT translateGraph graphProg
  simp only [ModelP.unfoldInits, ModelP.funName, hb, initsAsNodes, Graph.nodes, Graph.outputs, Graph.inputs,
    namesReadBy_inits]


end OV.C13
