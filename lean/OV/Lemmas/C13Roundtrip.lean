import OV.Model.C13Roundtrip
import OV.Lemmas.C13
set_option linter.unusedSimpArgs false
/-! Lemmas for the straight-line round trip: renaming invariance of `evalGraph`. -/
namespace OV.C13

variable {V : Type}

/-- `ρ'` is `ρ` seen through the renaming `f`, on the names `N` -/
def Agree (f : String → String) (N : List String) (ρ ρ' : Env V) : Prop :=
  ∀ x ∈ N, x ≠ "" → ρ' (f x) = ρ x

/-- the renaming is usable on `N`: injective there, and never produces the empty name -/
structure GoodRen (f : String → String) (N : List String) : Prop where
  inj : ∀ a ∈ N, ∀ b ∈ N, f a = f b → a = b
  ne : ∀ a ∈ N, a ≠ "" → f a ≠ ""

theorem agree_set {f : String → String} {N : List String} (hf : GoodRen f N) {ρ ρ' : Env V}
    (h : Agree f N ρ ρ') (o : String) (ho : o ∈ N) (v : V) :
    Agree f N (ρ.set o v) (ρ'.set (f o) v) := by
  intro x hx hxne
  unfold Env.set
  by_cases hxo : x = o
  · subst hxo; simp
  · have : f x ≠ f o := fun h' => hxo (hf.inj x hx o ho h')
    simp only [this, hxo, if_false]
    exact h x hx hxne

theorem bindOuts_ren {f : String → String} {N : List String} (hf : GoodRen f N) :
    ∀ (outs : List String) (vs : List V) (ρ ρ' : Env V), Agree f N ρ ρ' → (∀ o ∈ outs, o ∈ N) →
      match bindOuts ρ outs vs, bindOuts ρ' (outs.map f) vs with
      | some r, some r' => Agree f N r r'
      | none, none => True
      | _, _ => False
  | [], [], ρ, ρ', h, _ => by simpa [bindOuts] using h
  | [], _ :: _, _, _, _, _ => by simp [bindOuts]
  | _ :: _, [], _, _, _, _ => by simp [bindOuts]
  | o :: os, v :: vs, ρ, ρ', h, hN => by
    simp only [List.map_cons, bindOuts]
    exact bindOuts_ren hf os vs _ _ (agree_set hf h o (hN o (by simp)) v) (fun x hx => hN x (by simp [hx]))

theorem lookupIn_ren {f : String → String} {N : List String} (hf : GoodRen f N) {ρ ρ' : Env V}
    (h : Agree f N ρ ρ') (x : String) (hx : x ∈ N) : lookupIn ρ' (renName f x) = lookupIn ρ x := by
  unfold lookupIn renName
  by_cases hxe : x = ""
  · simp [hxe]
  · have : f x ≠ "" := hf.ne x hx hxe
    simp only [hxe, this, if_false]
    rw [h x hx hxe]

theorem lookupIns_ren {f : String → String} {N : List String} (hf : GoodRen f N) {ρ ρ' : Env V}
    (h : Agree f N ρ ρ') : ∀ (xs : List String), (∀ x ∈ xs, x ∈ N) →
      lookupIns ρ' (xs.map (renName f)) = lookupIns ρ xs
  | [], _ => rfl
  | x :: xs, hN => by
    simp only [List.map_cons, lookupIns, lookupIn_ren hf h x (hN x (by simp)),
      lookupIns_ren hf h xs (fun y hy => hN y (by simp [hy]))]

theorem lookupOuts_ren {f : String → String} {N : List String} {ρ ρ' : Env V}
    (h : Agree f N ρ ρ') : ∀ (xs : List String), (∀ x ∈ xs, x ∈ N ∧ x ≠ "") →
      lookupOuts ρ' (xs.map f) = lookupOuts ρ xs
  | [], _ => rfl
  | x :: xs, hN => by
    have hx := hN x (by simp)
    simp only [List.map_cons, lookupOuts, h x hx.1 hx.2,
      lookupOuts_ren h xs (fun y hy => hN y (by simp [hy]))]

theorem evalNode_ren (S : Sem V) {f : String → String} {N : List String} (hf : GoodRen f N) {ρ ρ' : Env V}
    (h : Agree f N ρ ρ') (n : Node) (hins : ∀ x ∈ n.ins, x ∈ N) (houts : ∀ x ∈ n.outs, x ∈ N) :
    match evalNode S ρ n, evalNode S ρ' (renNode f n) with
    | some r, some r' => Agree f N r r'
    | none, none => True
    | _, _ => False := by
  cases n with
  | mk op dom name ins outs attrs =>
    simp only [Node.ins, Node.outs] at hins houts
    simp only [evalNode, renNode, Node.ins, Node.outs, Node.op, Node.domain, Node.attrs,
      lookupIns_ren hf h ins hins]
    cases lookupIns ρ ins with
    | none => trivial
    | some is =>
      simp only
      cases S.op dom op attrs is with
      | none => trivial
      | some os => exact bindOuts_ren hf outs os ρ ρ' h houts

theorem evalNodes_ren (S : Sem V) {f : String → String} {N : List String} (hf : GoodRen f N) :
    ∀ (ns : List Node) (ρ ρ' : Env V), Agree f N ρ ρ' →
      (∀ n ∈ ns, (∀ x ∈ n.ins, x ∈ N) ∧ (∀ x ∈ n.outs, x ∈ N)) →
      match evalNodes S ρ ns, evalNodes S ρ' (ns.map (renNode f)) with
      | some r, some r' => Agree f N r r'
      | none, none => True
      | _, _ => False
  | [], ρ, ρ', h, _ => by simpa [evalNodes] using h
  | n :: ns, ρ, ρ', h, hN => by
    have hn := hN n (by simp)
    have step := evalNode_ren S hf h n hn.1 hn.2
    simp only [List.map_cons, evalNodes]
    cases h1 : evalNode S ρ n with
    | none =>
      cases h2 : evalNode S ρ' (renNode f n) with
      | none => trivial
      | some r' => rw [h1, h2] at step; exact step.elim
    | some r =>
      cases h2 : evalNode S ρ' (renNode f n) with
      | none => rw [h1, h2] at step; exact step.elim
      | some r' =>
        rw [h1, h2] at step
        exact evalNodes_ren S hf ns _ _ step (fun m hm => hN m (by simp [hm]))

/-- names a renaming must be good on: the model's own name collector at depth 0 -/
theorem mem_names_of_input {g : Graph} {x : String} (h : x ∈ g.inputs) : x ∈ namesOfGraph 0 g := by
  unfold namesOfGraph; simp [h]
theorem mem_names_of_output {g : Graph} {x : String} (h : x ∈ g.outputs) : x ∈ namesOfGraph 0 g := by
  unfold namesOfGraph; simp [h]
theorem mem_names_of_node_in {g : Graph} {n : Node} {x : String} (hn : n ∈ g.nodes) (h : x ∈ n.ins) :
    x ∈ namesOfGraph 0 g := by
  unfold namesOfGraph
  simp only [List.mem_append, List.mem_flatMap]
  right; exact ⟨n, hn, by simp [namesOfNode, h]⟩
theorem mem_names_of_node_out {g : Graph} {n : Node} {x : String} (hn : n ∈ g.nodes) (h : x ∈ n.outs) :
    x ∈ namesOfGraph 0 g := by
  unfold namesOfGraph
  simp only [List.mem_append, List.mem_flatMap]
  right; exact ⟨n, hn, by simp [namesOfNode, h]⟩

/-- **Renaming invariance**: a renaming that is injective on the names of a straight-line graph (and keeps
    them non-empty) does not change what the graph computes, for any operator semantics and any arguments. -/
theorem evalGraph_ren (S : Sem V) (f : String → String) (g : Graph)
    (hf : GoodRen f (namesOfGraph 0 g))
    (hin : ∀ x ∈ g.inputs, x ≠ "") (hout : ∀ x ∈ g.outputs, x ≠ "") (args : List V) :
    evalGraph S (renGraph f g) args = evalGraph S g args := by
  cases g with
  | mk gin gout ginits gsp gnodes =>
    simp only [Graph.inputs, Graph.outputs] at hin hout
    have h0 : Agree f (namesOfGraph 0 (Graph.mk gin gout ginits gsp gnodes))
        (fun _ => (none : Option V)) (fun _ => none) := fun _ _ _ => rfl
    have hb := bindOuts_ren hf gin args _ _ h0 (fun o ho => mem_names_of_input (g := Graph.mk gin gout ginits gsp gnodes) ho)
    simp only [evalGraph, renGraph, Graph.inputs, Graph.nodes, Graph.outputs]
    cases h1 : bindOuts (fun _ => (none : Option V)) gin args with
    | none =>
      cases h2 : bindOuts (fun _ => (none : Option V)) (gin.map f) args with
      | none => rfl
      | some r' => rw [h1, h2] at hb; exact hb.elim
    | some ρ =>
      cases h2 : bindOuts (fun _ => (none : Option V)) (gin.map f) args with
      | none => rw [h1, h2] at hb; exact hb.elim
      | some ρ' =>
        rw [h1, h2] at hb
        have hn := evalNodes_ren S hf gnodes ρ ρ' hb
          (fun n hn => ⟨fun x hx => mem_names_of_node_in (g := Graph.mk gin gout ginits gsp gnodes) hn hx,
                        fun x hx => mem_names_of_node_out (g := Graph.mk gin gout ginits gsp gnodes) hn hx⟩)
        simp only
        cases h3 : evalNodes S ρ gnodes with
        | none =>
          cases h4 : evalNodes S ρ' (gnodes.map (renNode f)) with
          | none => rfl
          | some r' => rw [h3, h4] at hn; exact hn.elim
        | some r =>
          cases h4 : evalNodes S ρ' (gnodes.map (renNode f)) with
          | none => rw [h3, h4] at hn; exact hn.elim
          | some r' =>
            rw [h3, h4] at hn
            exact lookupOuts_ren hn gout
              (fun x hx => ⟨mem_names_of_output (g := Graph.mk gin gout ginits gsp gnodes) hx, hout x hx⟩)


/-! ## reading back the exported program -/



theorem cleanup_fix_string (s : String) (hid : isPyIdentL s.toList = true) (hk : s.toList ∉ kwlistL) :
    cleanup s = s := by
  unfold cleanup
  rw [cleanupL_fix _ hid hk, String.ofList_toList]

theorem toList_ne_nil {s : String} (h : s ≠ "") : s.toList ≠ [] := by
  intro h'
  apply h
  apply String.toList_inj.mp
  rw [h']; rfl

theorem cleanup_ne_None (v : String) (hv : v ≠ "") : cleanup v ≠ "None" := by
  intro h
  have := (cleanupL_ident v.toList (toList_ne_nil hv)).2
  apply this
  have h2 : cleanupL v.toList = "None".toList := by
    have := congrArg String.toList h
    simpa [cleanup, String.toList_ofList] using this
  rw [h2]; decide

theorem cleanup_ne_empty (v : String) (hv : v ≠ "") : cleanup v ≠ "" := by
  intro h
  have h1 := (cleanupL_ident v.toList (toList_ne_nil hv)).1
  have h2 : cleanupL v.toList = [] := by
    have := congrArg String.toList h
    simpa [cleanup, String.toList_ofList] using this
  rw [h2] at h1
  simp [isPyIdentL] at h1

theorem unPy_pyName (v : String) : unPy (pyName v) = renName cleanup v := by
  unfold unPy pyName renName
  by_cases hv : v = ""
  · simp [hv]
  · simp only [hv, if_false, cleanup_ne_None v hv]

theorem pyName_of_ne {v : String} (hv : v ≠ "") : pyName v = cleanup v := by
  unfold pyName; simp only [hv, if_false]

theorem map_pyName_of_ne : ∀ (l : List String), (∀ x ∈ l, x ≠ "") → l.map pyName = l.map cleanup
  | [], _ => rfl
  | x :: xs, h => by
    simp only [List.map_cons, pyName_of_ne (h x (by simp)), map_pyName_of_ne xs (fun y hy => h y (by simp [hy]))]



structure StraightNode (o : Opts) (opsets : List (String × Nat)) (n : Node) : Prop where
  notIf : n.op ≠ "If"
  notLoop : n.op ≠ "Loop"
  notScan : n.op ≠ "Scan"
  dom : n.domain = ""
  ops : (opsets.lookup "").isSome = true
  attrs : n.attrs.all (fun ka => attrPrintable ka.2) = true
  outs : ∀ x ∈ n.outs, x ≠ ""
  opId : isPyIdentL n.op.toList = true
  opKw : n.op.toList ∉ kwlistL
  ident : ¬ (n.op = "Identity" ∧ n.ins.length = 1 ∧ n.outs.length = 1 ∧
              pyName (n.outs.getD 0 "") = pyName (n.ins.getD 0 ""))
  sugar : ∀ sym, (if o.useOps then opsTable.lookup n.op else none) = some sym → sugarSymmetric n sym = true

theorem straightNode_spec (o : Opts) (opsets : List (String × Nat)) (n : Node)
    (h : straightNode o opsets n = true) : StraightNode o opsets n := by
  unfold straightNode at h
  simp only [Bool.and_eq_true, bne_iff_ne, ne_eq, beq_iff_eq, Bool.not_eq_true', List.all_eq_true,
    Bool.not_eq_eq_eq_not, Bool.not_true] at h
  obtain ⟨⟨⟨⟨⟨⟨⟨⟨⟨⟨h1, h2⟩, h3⟩, h4⟩, h5⟩, h6⟩, h7⟩, h8⟩, h9⟩, h10⟩, h11⟩ := h
  refine ⟨h1, h2, h3, h4, h5, ?_, h7, h8, ?_, ?_, ?_⟩
  · simpa [List.all_eq_true] using h6
  · simpa using h9
  · intro hc
    obtain ⟨a, b, c, d⟩ := hc
    simp only [a, b, c, true_and, decide_true, Bool.true_and] at h10
    have hb : 0 < n.ins.length := by omega
    have hc' : 0 < n.outs.length := by omega
    simp only [List.getD_eq_getElem?_getD, List.getElem?_eq_getElem hb, List.getElem?_eq_getElem hc', Option.getD_some] at h10 d
    simp [d] at h10
  · intro sym hs
    rw [hs] at h11
    exact h11

theorem aliasOk_spec {opsets : List (String × Nat)} (h : aliasOk opsets = true) :
    ∃ v, opsets.lookup "" = some v ∧ (opsets.map importOf).lookup (opsetName "" v) = some "" := by
  unfold aliasOk at h
  cases hl : opsets.lookup "" with
  | none => rw [hl] at h; cases h
  | some v => rw [hl] at h; exact ⟨v, rfl, by simpa using h⟩

/-- **Reading back one printed statement gives the renamed node.** -/
theorem stmtToNode_straight (o : Opts) (opsets : List (String × Nat)) (n : Node)
    (hn : StraightNode o opsets n) (ha : aliasOk opsets = true) :
    stmtToNode (opsets.map importOf) (straightStmt o opsets n) = renNode cleanup n := by
  obtain ⟨v, hv, hal⟩ := aliasOk_spec ha
  unfold straightStmt
  cases hs : (if o.useOps then opsTable.lookup n.op else none) with
  | some sym =>
    have hsym := hn.sugar sym hs
    unfold sugarSymmetric at hsym
    simp only [Bool.and_eq_true, beq_iff_eq, List.isEmpty_iff] at hsym
    obtain ⟨⟨⟨h1, h2⟩, h3⟩, h4⟩ := hsym
    cases n with
    | mk op dom name ins outs attrs =>
      simp only [Node.ins, Node.outs, Node.attrs, Node.op, Node.domain] at *
      match ins, outs, h2, h3 with
      | [a, b], [c], _, _ =>
        have hc : c ≠ "" := hn.outs c (by simp [Node.outs])
        have hd : dom = "" := hn.dom
        subst hd
        simp only [stmtToNode, renNode, h1, Option.getD_some, List.getD_cons_zero, List.getD_cons_succ,
          unPy_pyName, pyName_of_ne hc, List.map_cons, List.map_nil, Node.ins, Node.outs, Node.attrs, Node.op,
          Node.domain, h4, hn.dom]
  | none =>
    cases n with
    | mk op dom name ins outs attrs =>
      simp only [Node.ins, Node.outs, Node.attrs, Node.op, Node.domain] at *
      have hd : dom = "" := hn.dom
      subst hd
      simp only [stmtToNode, renNode, hv, Option.getD_some, hal, Node.ins, Node.outs, Node.attrs, Node.op,
        Node.domain, cleanup_fix_string op hn.opId hn.opKw, List.map_map, map_pyName_of_ne outs hn.outs]
      congr 1
      apply List.map_congr_left
      intro x _
      exact unPy_pyName x

theorem straightModel_nodes {o : Opts} {m : ModelP} (h : straightModel o m = true) :
    ∀ n ∈ m.graph.nodes, StraightNode o m.opsets n := by
  unfold straightModel at h
  simp only [Bool.and_eq_true, List.all_eq_true] at h
  intro n hn
  exact straightNode_spec o m.opsets n (h.1.1.2 n hn)

/-- **The converter's reading of the exported program is the graph renamed by the clean-up.** -/
theorem progToGraph_exportStraight (o : Opts) (m : ModelP) (h : straightModel o m = true) :
    progToGraph (exportStraight o m) = renGraph cleanup m.graph := by
  have hnodes := straightModel_nodes h
  unfold straightModel at h
  simp only [Bool.and_eq_true, List.all_eq_true, bne_iff_ne, ne_eq] at h
  obtain ⟨⟨⟨⟨⟨⟨⟨⟨⟨⟨_, _⟩, _⟩, _⟩, hal⟩, _⟩, _⟩, hout⟩, _⟩, _⟩, _⟩ := h
  unfold progToGraph exportStraight renGraph
  simp only [List.map_map, map_pyName_of_ne m.graph.outputs hout]
  congr 1
  apply List.map_congr_left
  intro n hn
  exact stmtToNode_straight o m.opsets n (hnodes n hn) hal


/-! ## the string-level model prints `exportStraight` -/


/-- nothing is remapped, in conflict or inlined -/
structure Quiet (st : St) : Prop where
  attr : st.attrRen = []
  remap : st.remaps = [[]]
  consts : st.constants = []

theorem translateVar_quiet (o : Opts) (hr : o.rename = false) (st : St) (hq : Quiet st) (v : String) :
    translateVar o st v = (pyName v, st) := by
  unfold translateVar pyName
  by_cases hv : v = ""
  · simp [hv]
  · have : (v == "") = false := by simpa using hv
    simp only [this, hv, Bool.false_eq_true, if_false, hq.remap, lookupRemap, List.lookup, newRenamer, hr, hq.attr]

theorem translateVarRef_quiet (o : Opts) (hr : o.rename = false) (st : St) (hq : Quiet st) (v : String) :
    translateVarRef o st v = (pyName v, st) := by
  unfold translateVarRef
  simp only [hq.consts, List.lookup, translateVar_quiet o hr st hq v]

theorem translateVars_quiet (o : Opts) (hr : o.rename = false) (st : St) (hq : Quiet st) :
    ∀ vs : List String, translateVars o st vs = (vs.map pyName, st)
  | [] => rfl
  | v :: vs => by
    simp only [translateVars, translateVar_quiet o hr st hq v, translateVars_quiet o hr st hq vs, List.map_cons]

theorem translateVarRefs_quiet (o : Opts) (hr : o.rename = false) (st : St) (hq : Quiet st) :
    ∀ vs : List String, translateVarRefs o st vs = (vs.map pyName, st)
  | [] => rfl
  | v :: vs => by
    simp only [translateVarRefs, translateVarRef_quiet o hr st hq v, translateVarRefs_quiet o hr st hq vs,
      List.map_cons]

theorem outNames_quiet (o : Opts) (hr : o.rename = false) (st : St) (hq : Quiet st) :
    ∀ (outs : List String) (i : Nat), (∀ x ∈ outs, x ≠ "") → outNames o st i outs = (outs.map pyName, st)
  | [], _, _ => rfl
  | x :: xs, i, h => by
    have hx : (x == "") = false := by simpa using h x (by simp)
    simp only [outNames, hx, Bool.false_eq_true, if_false, translateVar_quiet o hr st hq x,
      outNames_quiet o hr st hq xs (i + 1) (fun y hy => h y (by simp [hy])), List.map_cons]

theorem translateAttrs_printable : ∀ (attrs : List (String × Attr)),
    attrs.all (fun ka => attrPrintable ka.2) = true → translateAttrs attrs = .ok (attrs.map attrTok)
  | [], _ => rfl
  | (k, a) :: rest, h => by
    simp only [List.all_cons, Bool.and_eq_true] at h
    have ih := translateAttrs_printable rest h.2
    have h1 := h.1
    cases a with
    | plain => simp only [translateAttrs, ih, Except.map, List.map_cons, attrTok]
    | tensor _ _ _ => simp only [translateAttrs, ih, Except.map, List.map_cons, attrTok]
    | ref _ => simp [attrPrintable] at h1
    | graph _ => simp [attrPrintable] at h1
    | unsupported => simp [attrPrintable] at h1

theorem no_graph_of_printable : ∀ (attrs : List (String × Attr)),
    attrs.all (fun ka => attrPrintable ka.2) = true → attrs.any (·.2.isGraph) = false
  | [], _ => rfl
  | (k, a) :: rest, h => by
    simp only [List.all_cons, Bool.and_eq_true] at h
    have ih := no_graph_of_printable rest h.2
    have h1 := h.1
    cases a with
    | plain => rw [List.any_cons, ih]; rfl
    | tensor _ _ _ => rw [List.any_cons, ih]; rfl
    | ref _ => simp [attrPrintable] at h1
    | graph _ => simp [attrPrintable] at h1
    | unsupported => simp [attrPrintable] at h1





theorem getD_map_pyName (l : List String) (h : l.length = 1) : (l.map pyName).getD 0 "" = pyName (l.getD 0 "") := by
  match l, h with
  | [a], _ => rfl

theorem translatePlain_straight (o : Opts) (hr : o.rename = false) (opsets : List (String × Nat)) (n : Node)
    (hn : StraightNode o opsets n) (indent : Nat) (st : St) (hq : Quiet st) :
    translatePlain o opsets n indent st = .ok ([renderStmt indent (straightStmt o opsets n)], st) := by
  unfold translatePlain straightStmt
  simp only [no_graph_of_printable n.attrs hn.attrs, Bool.false_eq_true, if_false]
  cases hs : (if o.useOps then opsTable.lookup n.op else none) with
  | some sym =>
    have hsym := hn.sugar sym hs
    unfold sugarSymmetric at hsym
    simp only [Bool.and_eq_true, beq_iff_eq, List.isEmpty_iff] at hsym
    obtain ⟨⟨⟨_, h2⟩, _⟩, _⟩ := hsym
    simp only [translateVar_quiet o hr st hq, translateVarRefs_quiet o hr st hq, renderStmt]
    match hi : n.ins, h2 with
    | [a, b], _ => simp only [List.map_cons, List.map_nil, List.getD_cons_zero, List.getD_cons_succ]
  | none =>
    simp only [hn.dom]
    obtain ⟨v, hv⟩ := Option.isSome_iff_exists.mp hn.ops
    simp only [hv, Option.getD_some, translateAttrs_printable n.attrs hn.attrs,
      outNames_quiet o hr st hq n.outs 0 hn.outs, translateVarRefs_quiet o hr st hq, renderStmt]
    have hid : (n.op == "Identity" && n.ins.length == 1 && n.outs.length == 1 &&
        (n.outs.map pyName).getD 0 "" == (n.ins.map pyName).getD 0 "") = false := by
      by_cases hc : n.op = "Identity" ∧ n.ins.length = 1 ∧ n.outs.length = 1
      · obtain ⟨a, b, c⟩ := hc
        have hne : ¬ pyName (n.outs.getD 0 "") = pyName (n.ins.getD 0 "") := fun e => hn.ident ⟨a, b, c, e⟩
        simp only [a, b, c, beq_self_eq_true, Bool.true_and, getD_map_pyName _ b, getD_map_pyName _ c]
        simpa using hne
      · have : (n.op == "Identity" && n.ins.length == 1 && n.outs.length == 1) = false := by
          simp only [Bool.and_eq_false_iff, beq_eq_false_iff_ne, ne_eq]
          by_cases a : n.op = "Identity"
          · by_cases b : n.ins.length = 1
            · right; intro c; exact hc ⟨a, b, c⟩
            · left; right; exact b
          · left; left; exact a
        simp only [this, Bool.false_and]
    simp only [hid, Bool.false_eq_true, if_false]


theorem translateNode_straight (o : Opts) (hr : o.rename = false) (hi : o.inlineConst = false)
    (opsets : List (String × Nat)) (d indent : Nat) (n : Node) (hn : StraightNode o opsets n)
    (st : St) (hq : Quiet st) :
    translateNode o opsets (d + 1) indent n st = .ok ([renderStmt indent (straightStmt o opsets n)], st) := by
  have e2 : (n.op == "If") = false := by simpa using hn.notIf
  have e3 : (n.op == "Loop") = false := by simpa using hn.notLoop
  have e4 : (n.op == "Scan") = false := by simpa using hn.notScan
  simp only [translateNode, hi, Bool.false_and, Bool.false_eq_true, if_false, e2, e3, e4]
  exact translatePlain_straight o hr opsets n hn indent st hq

theorem nodesLoop_straight (o : Opts) (hr : o.rename = false) (hi : o.inlineConst = false)
    (opsets : List (String × Nat)) (d indent : Nat) (st : St) (hq : Quiet st) :
    ∀ (ns : List Node), (∀ n ∈ ns, StraightNode o opsets n) →
      nodesLoop (translateNode o opsets (d + 1) indent) ns st =
        .ok (ns.map (fun n => renderStmt indent (straightStmt o opsets n)), st)
  | [], _ => rfl
  | n :: ns, h => by
    simp only [nodesLoop, translateNode_straight o hr hi opsets d indent n (h n (by simp)) st hq,
      nodesLoop_straight o hr hi opsets d indent st hq ns (fun m hm => h m (by simp [hm])),
      List.map_cons, List.singleton_append]


theorem graphProg_straight (o : Opts) (m : ModelP) (h : straightModel o m = true) (d indent : Nat) :
    graphProg o (d + 1) m m.funName indent {} =
      .ok (["sig " ++ m.funName ++ "(" ++ comma (m.graph.inputs.map cleanup) ++ "|)"]
            ++ m.graph.nodes.map (fun n => renderStmt indent (straightStmt o m.opsets n))
            ++ [line indent ("return " ++ comma (m.graph.outputs.map pyName))],
           ({ remaps := [] } : St)) := by
  have hnodes := straightModel_nodes h
  unfold straightModel at h
  simp only [Bool.and_eq_true, List.all_eq_true, bne_iff_ne, ne_eq, Bool.not_eq_true', List.isEmpty_iff,
    beq_iff_eq] at h
  obtain ⟨⟨⟨⟨⟨⟨⟨⟨⟨⟨hr, hi⟩, hinits⟩, hsp⟩, _⟩, _⟩, _⟩, _⟩, _⟩, _⟩, _⟩ := h
  have hq : Quiet ({ remaps := [[]] } : St) := ⟨rfl, rfl, rfl⟩
  unfold graphProg graphBody
  simp only [hinits, initsLoop, hsp, Nat.lt_irrefl, gt_iff_lt, if_false, List.nil_append,
    nodesLoop_straight o hr hi m.opsets d indent _ hq m.graph.nodes hnodes,
    translateVars_quiet o hr _ hq, List.drop]

/-- **The string-level model of the exporter prints exactly `exportStraight` on the fragment** (every option
    tuple of the fragment, every nesting fuel ≥ 1). -/
theorem exportModel_straight (o : Opts) (m : ModelP) (h : straightModel o m = true) (d : Nat) :
    exportModel o (d + 1) m = .ok (renderProg (exportStraight o m)) := by
  have hg1 := graphProg_straight o m h d 1
  have hg2 := graphProg_straight o m h d 2
  have h' := h
  unfold straightModel at h'
  simp only [Bool.and_eq_true, List.all_eq_true, bne_iff_ne, ne_eq, Bool.not_eq_true', List.isEmpty_iff,
    beq_iff_eq] at h'
  obtain ⟨⟨⟨⟨⟨⟨⟨⟨⟨⟨_, _⟩, _⟩, _⟩, _⟩, hname⟩, hin⟩, _⟩, _⟩, _⟩, _⟩ := h'
  have hany : (m.graph.inputs.any (· == "")) = false := by
    simp only [List.any_eq_false, beq_iff_eq]
    intro x hx; exact hin x hx
  unfold exportModel translateGraph
  simp only [hname, hany, Bool.false_eq_true, if_false]
  cases hs : o.skipInit
  · simp only [Bool.false_eq_true, if_false, hg1, List.isEmpty_nil, if_true, Except.map, renderProg, exportStraight,
      List.map_map, Function.comp_def]
  · simp only [if_true, hg2, hg1, List.isEmpty_nil, Except.map, renderProg, exportStraight, List.map_map,
      Function.comp_def]


end OV.C13
