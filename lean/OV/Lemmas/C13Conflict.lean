import OV.Lemmas.C13
/-! Lemmas about `_handle_attrname_conflict` (the model's `conflictStep`/`conflictRun`). -/
set_option linter.unusedSimpArgs false
set_option linter.unnecessarySimpa false
set_option linter.unusedVariables false
namespace OV.C13




/-- the `k`-th candidate of the conflict handler: `nn`, then `nn_0`, `nn_1`, … -/
def confCand (nn : String) (k : Nat) : String := if k = 0 then nn else nn ++ "_" ++ Nat.repr (k - 1)

theorem confCand_inj (c : String) {j k : Nat} (h : confCand c j = confCand c k) : j = k := by
  unfold confCand at h
  by_cases hj : j = 0 <;> by_cases hk : k = 0
  · omega
  · simp only [hj, hk, if_true, if_false] at h
    have h1 := congrArg String.toList h
    simp only [String.toList_append] at h1
    have : ("_" : String).toList ++ (Nat.repr (k - 1)).toList = [] := by
      have h2 : c.toList ++ [] = c.toList ++ (("_" : String).toList ++ (Nat.repr (k - 1)).toList) := by
        simpa [List.append_assoc] using h1
      exact (List.append_cancel_left h2).symm
    simp at this
  · simp only [hj, hk, if_true, if_false] at h
    have h1 := congrArg String.toList h
    simp only [String.toList_append] at h1
    have : ("_" : String).toList ++ (Nat.repr (j - 1)).toList = [] := by
      have h2 : c.toList ++ (("_" : String).toList ++ (Nat.repr (j - 1)).toList) = c.toList ++ [] := by
        simpa [List.append_assoc] using h1
      exact List.append_cancel_left h2
    simp at this
  · simp only [hj, hk, if_false] at h
    have h1 := congrArg String.toList h
    simp only [String.toList_append] at h1
    have h2 := List.append_cancel_left h1
    have := Nat.repr_inj.mp (String.toList_inj.mp h2)
    omega

def confCands (c : String) : Nat → Nat → List String
  | _, 0 => []
  | k, n + 1 => confCand c k :: confCands c (k + 1) n

theorem mem_confCands {c : String} : ∀ {n k : Nat} {x : String}, x ∈ confCands c k n →
    ∃ i, i < n ∧ x = confCand c (k + i)
  | 0, _, _, h => by cases h
  | n + 1, k, x, h => by
    simp only [confCands, List.mem_cons] at h
    rcases h with h | h
    · exact ⟨0, by omega, by simpa using h⟩
    · obtain ⟨i, hi, hx⟩ := mem_confCands h
      exact ⟨i + 1, by omega, by rw [hx]; congr 1; omega⟩

theorem confCands_length (c : String) : ∀ (n k : Nat), (confCands c k n).length = n
  | 0, _ => rfl
  | n + 1, k => by simp [confCands, confCands_length c n (k + 1)]

theorem confCands_nodup (c : String) : ∀ (n k : Nat), (confCands c k n).Nodup
  | 0, _ => List.nodup_nil
  | n + 1, k => by
    simp only [confCands, List.nodup_cons]
    refine ⟨?_, confCands_nodup c n (k + 1)⟩
    intro h
    obtain ⟨i, _, hx⟩ := mem_confCands h
    have := confCand_inj c hx
    omega

/-- the loop of the model carries the current candidate: it is always `confCand base k` -/
theorem findCand_fail {base : String} {used : List String} : ∀ (fuel k : Nat),
    findCand base used fuel k (confCand base k) ∈ used → ∀ x ∈ confCands base k (fuel + 1), x ∈ used
  | 0, k, h => by
    intro x hx
    simp only [confCands, List.mem_cons, List.not_mem_nil, or_false] at hx
    subst hx; exact h
  | fuel + 1, k, h => by
    simp only [findCand] at h
    by_cases hk : confCand base k ∈ used
    · simp only [hk, if_true] at h
      have hnext : base ++ "_" ++ Nat.repr k = confCand base (k + 1) := by simp [confCand]
      rw [hnext] at h
      have ih := findCand_fail fuel (k + 1) h
      intro x hx
      simp only [confCands, List.mem_cons] at hx
      rcases hx with hx | hx
      · subst hx; exact hk
      · exact ih x (by simpa [confCands] using hx)
    · simp only [hk, if_false] at h

/-- **the conflict handler's search always ends on an unused name** -/
theorem findCand_notin (base : String) (used : List String) (fuel : Nat) (hf : used.length ≤ fuel) :
    findCand base used fuel 0 base ∉ used := by
  intro h
  have h0 : confCand base 0 = base := rfl
  rw [← h0] at h
  have hsub := findCand_fail fuel 0 h
  have := List.Nodup.length_le_of_subset (confCands_nodup base (fuel + 1) 0) hsub
  rw [confCands_length] at this
  omega



/-- the Python name the conflict layer gives base name `nn`, read off the final `_attr_renaming` -/
def confRes (ar : List (String × Option String)) (nn : String) : String :=
  match ar.lookup nn with
  | some (some c) => c
  | _ => nn

/-- invariant of `_attr_renaming` / `_names_used` w.r.t. the attribute parameters `A` and the names `N0` that
    were in `_names_used` at the start (all base names of the function's values, and the attribute names) -/
structure ConfInv (A N0 : List String) (ar : List (String × Option String)) (nu : List String) : Prop where
  base : ∀ x ∈ N0, x ∈ nu
  keysA : ∀ k, k ∉ A → ar.lookup k = none
  akeys : ∀ a ∈ A, ar.lookup a ≠ none
  fresh : ∀ k c, ar.lookup k = some (some c) → c ∈ nu ∧ c ∉ N0
  inj : ∀ k1 k2 c, ar.lookup k1 = some (some c) → ar.lookup k2 = some (some c) → k1 = k2

/-- resolved entries and absent entries are never changed afterwards -/
structure ConfMono (ar ar' : List (String × Option String)) : Prop where
  some_ : ∀ k c, ar.lookup k = some (some c) → ar'.lookup k = some (some c)
  none_ : ∀ k, ar.lookup k = none → ar'.lookup k = none

theorem ConfMono.refl (ar : List (String × Option String)) : ConfMono ar ar := ⟨fun _ _ h => h, fun _ h => h⟩
theorem ConfMono.trans {a b c : List (String × Option String)} (h1 : ConfMono a b) (h2 : ConfMono b c) :
    ConfMono a c := ⟨fun k x h => h2.some_ k x (h1.some_ k x h), fun k h => h2.none_ k (h1.none_ k h)⟩

theorem lookup_cons_ne {α} (ar : List (String × α)) (k nn : String) (v : α) (h : k ≠ nn) :
    ((nn, v) :: ar).lookup k = ar.lookup k := by
  have : (k == nn) = false := by simpa using h
  simp [List.lookup_cons, this]

theorem conflictStep_spec {A N0 : List String} (hA : ∀ a ∈ A, a ∈ N0)
    {ar : List (String × Option String)} {nu : List String} (h : ConfInv A N0 ar nu) (nn : String) (hn : nn ∈ N0) :
    ConfInv A N0 (conflictStep ar nu nn).2.1 (conflictStep ar nu nn).2.2
    ∧ ConfMono ar (conflictStep ar nu nn).2.1
    ∧ (conflictStep ar nu nn).1 = confRes (conflictStep ar nu nn).2.1 nn
    ∧ (conflictStep ar nu nn).1 ∉ A := by
  unfold conflictStep
  cases hl : ar.lookup nn with
  | none =>
    refine ⟨h, ConfMono.refl ar, ?_, ?_⟩
    · simp only [confRes, hl]
    · intro ha; exact h.akeys nn ha hl
  | some v =>
    cases v with
    | some alt =>
      refine ⟨h, ConfMono.refl ar, ?_, ?_⟩
      · simp only [confRes, hl]
      · intro ha; exact (h.fresh nn alt hl).2 (hA _ ha)
    | none =>
      simp only
      have hfresh : findCand nn nu (nu.length + 1) 0 nn ∉ nu := findCand_notin nn nu _ (by omega)
      have hnot0 : findCand nn nu (nu.length + 1) 0 nn ∉ N0 := fun hc => hfresh (h.base _ hc)
      refine ⟨⟨?_, ?_, ?_, ?_, ?_⟩, ⟨?_, ?_⟩, ?_, ?_⟩
      · intro x hx; exact List.mem_cons_of_mem _ (h.base x hx)
      · intro k hk
        have hne : k ≠ nn := by
          intro e; subst e
          rw [h.keysA k hk] at hl; cases hl
        rw [lookup_cons_ne _ _ _ _ hne]; exact h.keysA k hk
      · intro a ha
        by_cases e : a = nn
        · subst e; simp [List.lookup_cons]
        · rw [lookup_cons_ne _ _ _ _ e]; exact h.akeys a ha
      · intro k c hk
        by_cases e : k = nn
        · subst e
          simp only [List.lookup_cons, beq_self_eq_true, Option.some.injEq] at hk
          subst hk
          exact ⟨List.mem_cons_self, hnot0⟩
        · rw [lookup_cons_ne _ _ _ _ e] at hk
          exact ⟨List.mem_cons_of_mem _ (h.fresh k c hk).1, (h.fresh k c hk).2⟩
      · intro k1 k2 c h1 h2
        by_cases e1 : k1 = nn <;> by_cases e2 : k2 = nn
        · rw [e1, e2]
        · subst e1
          simp only [List.lookup_cons, beq_self_eq_true, Option.some.injEq] at h1
          rw [lookup_cons_ne _ _ _ _ e2] at h2
          subst h1
          exact absurd (h.fresh k2 _ h2).1 hfresh
        · subst e2
          simp only [List.lookup_cons, beq_self_eq_true, Option.some.injEq] at h2
          rw [lookup_cons_ne _ _ _ _ e1] at h1
          subst h2
          exact absurd (h.fresh k1 _ h1).1 hfresh
        · rw [lookup_cons_ne _ _ _ _ e1] at h1
          rw [lookup_cons_ne _ _ _ _ e2] at h2
          exact h.inj k1 k2 c h1 h2
      · intro k c hk
        have hne : k ≠ nn := by
          intro e; subst e; rw [hl] at hk; cases hk
        rw [lookup_cons_ne _ _ _ _ hne]; exact hk
      · intro k hk
        have hne : k ≠ nn := by
          intro e; subst e; rw [hl] at hk; cases hk
        rw [lookup_cons_ne _ _ _ _ hne]; exact hk
      · simp [confRes, List.lookup_cons]
      · intro ha; exact hnot0 (hA _ ha)

theorem confRes_mono {ar ar' : List (String × Option String)} (hm : ConfMono ar ar') {A : List String}
    (nn : String) (hres : ar.lookup nn = none ∨ ∃ c, ar.lookup nn = some (some c)) :
    confRes ar' nn = confRes ar nn := by
  unfold confRes
  rcases hres with h | ⟨c, h⟩
  · rw [h, hm.none_ nn h]
  · rw [h, hm.some_ nn c h]



/-- after a request the name is settled: it is no attribute parameter, or it has its alternate -/
def Settled (ar : List (String × Option String)) (nn : String) : Prop :=
  ar.lookup nn = none ∨ ∃ c, ar.lookup nn = some (some c)

theorem conflictStep_settled (ar : List (String × Option String)) (nu : List String) (nn : String) :
    Settled (conflictStep ar nu nn).2.1 nn := by
  unfold conflictStep Settled
  cases hl : ar.lookup nn with
  | none => left; exact hl
  | some v =>
    cases v with
    | some alt => right; exact ⟨alt, hl⟩
    | none => right; exact ⟨findCand nn nu (nu.length + 1) 0 nn, by simp [List.lookup_cons]⟩

theorem settled_mono {ar ar' : List (String × Option String)} (hm : ConfMono ar ar') {nn : String}
    (h : Settled ar nn) : Settled ar' nn := by
  rcases h with h | ⟨c, h⟩
  · left; exact hm.none_ nn h
  · right; exact ⟨c, hm.some_ nn c h⟩

theorem conflictRun_spec {A N0 : List String} (hA : ∀ a ∈ A, a ∈ N0) :
    ∀ (nns : List String) (ar : List (String × Option String)) (nu : List String), ConfInv A N0 ar nu →
      (∀ n ∈ nns, n ∈ N0) →
      ConfInv A N0 (conflictRun ar nu nns).2.1 (conflictRun ar nu nns).2.2
      ∧ ConfMono ar (conflictRun ar nu nns).2.1
      ∧ (conflictRun ar nu nns).1 = nns.map (confRes (conflictRun ar nu nns).2.1)
      ∧ (∀ n ∈ nns, Settled (conflictRun ar nu nns).2.1 n)
      ∧ (∀ r ∈ (conflictRun ar nu nns).1, r ∉ A)
  | [], ar, nu, h, _ =>
    ⟨h, ConfMono.refl ar, rfl, fun n hn => absurd hn List.not_mem_nil, fun r hr => absurd hr List.not_mem_nil⟩
  | nn :: rest, ar, nu, h, hN => by
    obtain ⟨h1, hm1, hr1, hna1⟩ := conflictStep_spec hA h nn (hN nn (by simp))
    have hs1 := conflictStep_settled ar nu nn
    obtain ⟨h2, hm2, hr2, hs2, hna2⟩ := conflictRun_spec hA rest _ _ h1 (fun n hn => hN n (by simp [hn]))
    simp only [conflictRun]
    refine ⟨h2, hm1.trans hm2, ?_, ?_, ?_⟩
    · simp only [List.map_cons]
      rw [hr1, ← hr2, confRes_mono hm2 (A := A) nn hs1]
    · intro n hn
      rcases List.mem_cons.mp hn with e | hn
      · subst e; exact settled_mono hm2 hs1
      · exact hs2 n hn
    · intro r hr
      rcases List.mem_cons.mp hr with e | hr
      · subst e; exact hna1
      · exact hna2 r hr

/-- settled names of `N0` have distinct Python names -/
theorem confRes_inj {A N0 : List String} {ar : List (String × Option String)} {nu : List String}
    (h : ConfInv A N0 ar nu) {a b : String} (ha : a ∈ N0) (hb : b ∈ N0) (sa : Settled ar a) (sb : Settled ar b)
    (e : confRes ar a = confRes ar b) : a = b := by
  unfold confRes at e
  rcases sa with sa | ⟨ca, sa⟩ <;> rcases sb with sb | ⟨cb, sb⟩
  · rw [sa, sb] at e; exact e
  · rw [sa, sb] at e
    simp only at e
    rw [e] at ha
    exact absurd ha (h.fresh b cb sb).2
  · rw [sa, sb] at e
    simp only at e
    rw [← e] at hb
    exact absurd hb (h.fresh a ca sa).2
  · rw [sa, sb] at e
    simp only at e
    subst e
    exact h.inj a b ca sa sb

/-- the state right after `_translate_function_signature` registered the attribute parameters -/
theorem confInv_start (A N0 : List String) (hA : ∀ a ∈ A, a ∈ N0) (hnd : A.Nodup) :
    ConfInv A N0 (A.map (·, none)) N0 := by
  have hl : ∀ k, (A.map (fun a => (a, (none : Option String)))).lookup k = if k ∈ A then some none else none := by
    intro k
    induction A with
    | nil => simp [List.lookup]
    | cons a as ih =>
      have ih' := ih (fun x hx => hA x (by simp [hx])) (List.nodup_cons.mp hnd).2
      simp only [List.map_cons, List.lookup_cons, List.mem_cons]
      by_cases e : k = a
      · subst e; simp
      · have : (k == a) = false := by simpa using e
        simp only [this, ih', e, false_or]
  refine ⟨fun x hx => hx, ?_, ?_, ?_, ?_⟩
  · intro k hk; rw [hl, if_neg hk]
  · intro a ha; rw [hl, if_pos ha]; simp
  · intro k c hk; rw [hl] at hk; split at hk <;> cases hk
  · intro k1 k2 c h1; rw [hl] at h1; split at h1 <;> cases h1



/-! ## the conflict layer composed with the base renamers (`funcState`) -/






/-- the base name of a value that the base renamer already knows (`rename=False`: the table entry;
    `rename=True`: `v<index+1>`) -/
def baseName (o : Opts) (st : St) (v : String) : String :=
  if o.rename then "v" ++ Nat.repr (st.shortKeys.idxOf v + 1) else pyT st.uniq v

/-- `v` is known to the base renamer -/
def Known (o : Opts) (st : St) (v : String) : Prop :=
  v ≠ "" ∧ (if o.rename then v ∈ st.shortKeys else (st.uniq.lookup v).isSome = true)

/-- the state with the conflict layer's tables replaced -/
def withConf (st : St) (r : List (String × Option String) × List String) : St :=
  { st with attrRen := r.1, namesUsed := r.2 }

/-- a request for a known value only touches the conflict layer -/
theorem translateVar_known (o : Opts) (st : St) (hm : QuietRemaps st) (v : String) (hk : Known o st v) :
    translateVar o st v =
      ((conflictStep st.attrRen st.namesUsed (baseName o st v)).1,
       withConf st (conflictStep st.attrRen st.namesUsed (baseName o st v)).2) := by
  obtain ⟨hv, hk⟩ := hk
  unfold translateVar withConf
  have : (v == "") = false := by simpa using hv
  simp only [this, Bool.false_eq_true, if_false, hm v, newRenamer, baseName]
  cases hr : o.rename
  · simp only [hr, Bool.false_eq_true, if_false] at hk ⊢
    obtain ⟨r, hl⟩ := Option.isSome_iff_exists.mp hk
    simp only [uniqueName, uniqStep, hl, pyT, hv, if_false, Option.getD_some]
  · simp only [hr, if_true] at hk ⊢
    simp only [shortName, shortStep, if_pos hk]

theorem translateVars_known (o : Opts) : ∀ (vs : List String) (st : St), QuietRemaps st → (∀ v ∈ vs, Known o st v) →
    translateVars o st vs =
      ((conflictRun st.attrRen st.namesUsed (vs.map (baseName o st))).1,
       withConf st (conflictRun st.attrRen st.namesUsed (vs.map (baseName o st))).2)
  | [], st, _, _ => rfl
  | v :: vs, st, hm, hk => by
    have h1 := translateVar_known o st hm v (hk v (by simp))
    have ih := translateVars_known o vs (withConf st (conflictStep st.attrRen st.namesUsed (baseName o st v)).2)
      hm (fun w hw => hk w (by simp [hw]))
    simp only [translateVars, h1, ih, List.map_cons, conflictRun]
    rfl



theorem translateVars_short_state (o : Opts) (hr : o.rename = true) :
    ∀ (ns : List String) (st : St), st.attrRen = [] → QuietRemaps st → (∀ n ∈ ns, n ≠ "") →
      translateVars o st ns =
        ((shortRun st.shortKeys ns).1.map (fun k => "v" ++ Nat.repr (k + 1)),
         { st with shortKeys := (shortRun st.shortKeys ns).2 })
  | [], st, _, _, _ => rfl
  | n :: ns, st, ha, hm, hne => by
    have ih := translateVars_short_state o hr ns
      { st with shortKeys := (shortStep st.shortKeys n).2 } ha hm (fun x hx => hne x (by simp [hx]))
    simp only [translateVars, translateVar_fresh_short o st n hr ha hm (hne n (by simp)), List.map_cons, shortRun, ih]

/-- the indices the short mapper hands out are the positions in its final key list -/
theorem shortRun_indices (ks keys : List String) (hnd : keys.Nodup) :
    (shortRun keys ks).1 = ks.map (fun k => (shortRun keys ks).2.idxOf k) ∧ ∀ k ∈ ks, k ∈ (shortRun keys ks).2 := by
  obtain ⟨_, _, hlen, hall⟩ := shortRun_spec ks keys hnd
  constructor
  · apply List.ext_getElem
    · simp [hlen]
    · intro i h1 h2
      have hi : i < ks.length := by simpa [hlen] using h1
      simp only [List.getElem_map]
      exact (hall i hi h1).2
  · intro k hk
    obtain ⟨i, hi, rfl⟩ := List.getElem_of_mem hk
    exact (hall i hi (by rw [hlen]; exact hi)).1



theorem plain_attr_nil {st : St} (h : Plain st) : Plain { st with attrRen := [], constants := [] } :=
  ⟨rfl, h.remap, rfl, h.fns⟩

/-- `funcState` under `rename=False` -/
theorem funcState_uniq (o : Opts) (hr : o.rename = false) (d : Nat) (f : FunctionP) (st0 : St) (hp : Plain st0) :
    (funcState o d f st0).attrRen = f.attrs.reverse.map (·, none)
    ∧ (funcState o d f st0).namesUsed = f.attrs.reverse ++ f.usedOrder.map (pyT (uniqRun st0.uniq f.usedOrder))
    ∧ (funcState o d f st0).uniq = uniqRun st0.uniq f.usedOrder
    ∧ QuietRemaps (funcState o d f st0) := by
  unfold funcState
  simp only [translateVars_uniq o hr f.usedOrder _ (plain_attr_nil hp), List.append_nil]
  exact ⟨trivial, trivial, trivial, hp.remap⟩

/-- `funcState` under `rename=True` -/
theorem funcState_short (o : Opts) (hr : o.rename = true) (d : Nat) (f : FunctionP) (st0 : St) (hp : Plain st0)
    (hne : ∀ v ∈ f.usedOrder, v ≠ "") :
    (funcState o d f st0).attrRen = f.attrs.reverse.map (·, none)
    ∧ (funcState o d f st0).namesUsed = f.attrs.reverse ++
        (shortRun st0.shortKeys f.usedOrder).1.map (fun k => "v" ++ Nat.repr (k + 1))
    ∧ (funcState o d f st0).shortKeys = (shortRun st0.shortKeys f.usedOrder).2
    ∧ QuietRemaps (funcState o d f st0) := by
  unfold funcState
  simp only [translateVars_short_state o hr f.usedOrder { st0 with attrRen := [], constants := [] } rfl hp.remap hne, List.append_nil]
  exact ⟨trivial, trivial, trivial, hp.remap⟩



/-- the conflict layer composed with an injective base renamer `B` -/
theorem conflict_compose (A N0 : List String) (hA : ∀ a ∈ A, a ∈ N0) (hnd : A.Nodup) (B : String → String)
    (vs : List String) (hN : ∀ v ∈ vs, B v ∈ N0) (hB : ∀ a ∈ vs, ∀ b ∈ vs, B a = B b → a = b) :
    (conflictRun (A.map (·, none)) N0 (vs.map B)).1.length = vs.length
    ∧ (∀ r ∈ (conflictRun (A.map (·, none)) N0 (vs.map B)).1, r ∉ A)
    ∧ ∀ i j (hi : i < vs.length) (hj : j < vs.length),
        ((conflictRun (A.map (·, none)) N0 (vs.map B)).1[i]? = (conflictRun (A.map (·, none)) N0 (vs.map B)).1[j]?
          ↔ vs[i] = vs[j]) := by
  obtain ⟨hinv, _, hrs, hset, hna⟩ :=
    conflictRun_spec hA (vs.map B) _ _ (confInv_start A N0 hA hnd)
      (fun n hn => by obtain ⟨v, hv, rfl⟩ := List.mem_map.mp hn; exact hN v hv)
  refine ⟨by rw [hrs]; simp, hna, ?_⟩
  intro i j hi hj
  rw [hrs]
  have hi' : i < (vs.map B).length := by simpa using hi
  have hj' : j < (vs.map B).length := by simpa using hj
  simp only [List.getElem?_map, List.getElem?_eq_getElem hi, List.getElem?_eq_getElem hj, Option.map_some,
    Option.some.injEq]
  constructor
  · intro e
    have hmi : B vs[i] ∈ vs.map B := List.mem_map.mpr ⟨_, List.getElem_mem hi, rfl⟩
    have hmj : B vs[j] ∈ vs.map B := List.mem_map.mpr ⟨_, List.getElem_mem hj, rfl⟩
    have := confRes_inj hinv (hN _ (List.getElem_mem hi)) (hN _ (List.getElem_mem hj)) (hset _ hmi) (hset _ hmj) e
    exact hB _ (List.getElem_mem hi) _ (List.getElem_mem hj) this
  · intro e; rw [e]



theorem function_names_injective_aux (o : Opts) (d : Nat) (f : FunctionP) (st0 : St)
    (hp : Plain st0) (hT : TblInv st0.uniq) (hK : st0.shortKeys.Nodup)
    (hattrs : f.attrs.Nodup) (hne : ∀ v ∈ f.usedOrder, v ≠ "")
    (vs : List String) (hvs : ∀ v ∈ vs, v ∈ f.usedOrder) :
    (translateVars o (funcState o d f st0) vs).1.length = vs.length
    ∧ (∀ r ∈ (translateVars o (funcState o d f st0) vs).1, r ∉ f.attrs)
    ∧ ∀ i j (hi : i < vs.length) (hj : j < vs.length),
        ((translateVars o (funcState o d f st0) vs).1[i]? = (translateVars o (funcState o d f st0) vs).1[j]?
          ↔ vs[i] = vs[j]) := by
  have hndA : f.attrs.reverse.Nodup := (List.reverse_perm f.attrs).nodup_iff.mpr hattrs
  have hnotin : ∀ r, r ∉ f.attrs.reverse → r ∉ f.attrs := fun r h hr => h (List.mem_reverse.mpr hr)
  cases hr : o.rename
  · -- the unique-name mapper
    obtain ⟨hA, hN, hU, hQ⟩ := funcState_uniq o hr d f st0 hp
    have hTT : TblInv (uniqRun st0.uniq f.usedOrder) := tblInv_uniqRun _ hT
    have hpres : ∀ v ∈ f.usedOrder, ((uniqRun st0.uniq f.usedOrder).lookup v).isSome = true := by
      intro v hv
      rcases present_uniqRun f.usedOrder st0.uniq v hv with h | h
      · exact absurd h (hne v hv)
      · exact h
    have hknown : ∀ v ∈ vs, Known o (funcState o d f st0) v := by
      intro v hv
      refine ⟨hne v (hvs v hv), ?_⟩
      simp only [hr, Bool.false_eq_true, if_false, hU]
      exact hpres v (hvs v hv)
    have hbase : ∀ v, baseName o (funcState o d f st0) v = pyT (uniqRun st0.uniq f.usedOrder) v := by
      intro v; simp only [baseName, hr, Bool.false_eq_true, if_false, hU]
    rw [translateVars_known o vs _ hQ hknown, hA, hN, funext hbase]
    have := conflict_compose f.attrs.reverse (f.attrs.reverse ++ f.usedOrder.map (pyT (uniqRun st0.uniq f.usedOrder)))
      (fun a ha => List.mem_append_left _ ha) hndA (pyT (uniqRun st0.uniq f.usedOrder)) vs
      (fun v hv => List.mem_append_right _ (List.mem_map.mpr ⟨v, hvs v hv, rfl⟩))
      (fun a ha b hb e => pyT_inj hTT (hne a (hvs a ha)) (hne b (hvs b hb))
        (Or.inr (hpres a (hvs a ha))) (Or.inr (hpres b (hvs b hb))) e)
    exact ⟨this.1, fun r hr' => hnotin r (this.2.1 r hr'), this.2.2⟩
  · -- the short-name mapper
    obtain ⟨hA, hN, hS, hQ⟩ := funcState_short o hr d f st0 hp hne
    obtain ⟨hidx, hmem⟩ := shortRun_indices f.usedOrder st0.shortKeys hK
    have hknown : ∀ v ∈ vs, Known o (funcState o d f st0) v := by
      intro v hv
      refine ⟨hne v (hvs v hv), ?_⟩
      simp only [hr, if_true, hS]
      exact hmem v (hvs v hv)
    have hbase : ∀ v, baseName o (funcState o d f st0) v =
        "v" ++ Nat.repr ((shortRun st0.shortKeys f.usedOrder).2.idxOf v + 1) := by
      intro v; simp only [baseName, hr, if_true, hS]
    rw [translateVars_known o vs _ hQ hknown, hA, hN, funext hbase]
    have hren : (shortRun st0.shortKeys f.usedOrder).1.map (fun k => "v" ++ Nat.repr (k + 1)) =
        f.usedOrder.map (fun v => "v" ++ Nat.repr ((shortRun st0.shortKeys f.usedOrder).2.idxOf v + 1)) := by
      rw [hidx, List.map_map]; rfl
    rw [hren]
    have := conflict_compose f.attrs.reverse
      (f.attrs.reverse ++ f.usedOrder.map (fun v => "v" ++ Nat.repr ((shortRun st0.shortKeys f.usedOrder).2.idxOf v + 1)))
      (fun a ha => List.mem_append_left _ ha) hndA
      (fun v => "v" ++ Nat.repr ((shortRun st0.shortKeys f.usedOrder).2.idxOf v + 1)) vs
      (fun v hv => List.mem_append_right _ (List.mem_map.mpr ⟨v, hvs v hv, rfl⟩))
      (fun a ha b hb e => idxOf_inj (hmem a (hvs a ha)) (hmem b (hvs b hb)) (short_label_inj e))
    exact ⟨this.1, fun r hr' => hnotin r (this.2.1 r hr'), this.2.2⟩


end OV.C13
