import OV.Lemmas.C09Bcast
/-! Reshape / Expand identity, materialisation, shape pieces — helper lemmas for C09 (core Lean only). -/
set_option linter.unusedSimpArgs false
namespace OV.C09

/-! ### Expand identity -/

theorem bcastN_self : ∀ (l : List Int), bcastN l.length l l = some l
  | [] => rfl
  | a :: t => by
    simp only [List.length_cons, bcastN, List.headD_cons, List.tail_cons, bdim_self, Option.bind_some,
      bcastN_self t, Option.map_some]

theorem broadcast_self (l : List Int) : broadcast l l = some l := by
  have := bcastN_self l.reverse
  simp only [List.length_reverse] at this
  simp only [broadcast, Nat.max_self, this, Option.map_some, List.reverse_reverse]

/-! ### Reshape with the input's own shape -/

theorem filter_neg1_nil {l : List Int} (h : ∀ d ∈ l, 0 ≤ d) : l.filter (· == -1) = [] := by
  rw [List.filter_eq_nil_iff]
  intro a ha hc
  have := h a ha
  simp only [beq_iff_eq] at hc
  omega

theorem any_lt_neg1_false {l : List Int} (h : ∀ d ∈ l, 0 ≤ d) : l.any (· < -1) = false := by
  rw [List.any_eq_false]
  intro a ha hc
  have := h a ha
  simp only [decide_eq_true_eq] at hc
  omega

theorem contains_neg1_false {l : List Int} (h : ∀ d ∈ l, 0 ≤ d) : l.contains (-1) = false := by
  cases hc : l.contains (-1) with
  | false => rfl
  | true =>
    have hm : (-1 : Int) ∈ l := List.contains_iff_mem.mp hc
    have := h _ hm
    omega

theorem resolveZeros_self : ∀ (pre l : List Int), resolveZeros (pre ++ l) l pre.length = some l
  | _, [] => rfl
  | pre, d :: t => by
    have ih := resolveZeros_self (pre ++ [d]) t
    simp only [List.append_assoc, List.singleton_append, List.length_append, List.length_singleton] at ih
    have hget : (pre ++ d :: t)[pre.length]? = some d := by
      simp only [List.getElem?_append_right (Nat.le_refl _), Nat.sub_self, List.getElem?_cons_zero]
    simp only [resolveZeros, hget, ih]
    by_cases hd : d = 0 <;> simp [hd]

/-- `Reshape(x, shape_of_x)` is the identity on shapes, with and without `allowzero` (zeros copy
themselves; there is no `-1`). -/
theorem reshapeTarget_self (l : List Int) (h : ∀ d ∈ l, 0 ≤ d) (az : Bool) : reshapeTarget l l az = some l := by
  have hz := resolveZeros_self [] l
  simp only [List.nil_append, List.length_nil] at hz
  have hm : ¬ ((-1 : Int) ∈ l) := fun hm => by have := h _ hm; omega
  unfold reshapeTarget
  cases az <;>
    simp [filter_neg1_nil h, any_lt_neg1_false h, contains_neg1_false h, hz, hm]

/-! ### allInts -/

theorem allInts_admits {σ : String → Nat} : ∀ {s : Shape} {c l : List Int}, allInts s = some c → Admits σ s l → l = c
  | [], c, [], h, _ => by simp only [allInts, Option.some.injEq] at h; exact h
  | [], _, _ :: _, _, h => by simp only [Admits] at h
  | _ :: _, _, [], _, h => by simp only [Admits] at h
  | .known n :: s, c, v :: l, h, ha => by
    simp only [allInts, Option.map_eq_some_iff] at h
    obtain ⟨c', hc', rfl⟩ := h
    simp only [Admits, Dim.Admits] at ha
    rw [allInts_admits hc' ha.2, ha.1]
  | .sym _ :: s, c, v :: l, h, _ => by simp only [allInts] at h; cases h
  | .unknown :: s, c, v :: l, h, _ => by simp only [allInts] at h; cases h

theorem allInts_eq_map {s : Shape} {c : List Int} (h : allInts s = some c) : s = c.map Dim.known := by
  induction s generalizing c with
  | nil => simp only [allInts, Option.some.injEq] at h; subst h; rfl
  | cons d s ih =>
    cases d with
    | known n =>
      simp only [allInts, Option.map_eq_some_iff] at h
      obtain ⟨c', hc', rfl⟩ := h
      simp only [List.map_cons, ih hc']
    | sym a => simp only [allInts] at h; cases h
    | unknown => simp only [allInts] at h; cases h

theorem admits_map_known {σ : String → Nat} : ∀ {t l : List Int}, Admits σ (t.map Dim.known) l → l = t
  | [], [], _ => rfl
  | [], _ :: _, h => by simp only [List.map_nil, Admits] at h
  | _ :: _, [], h => by simp only [List.map_cons, Admits] at h
  | a :: t, v :: l, h => by
    simp only [List.map_cons, Admits, Dim.Admits] at h
    rw [admits_map_known h.2, h.1]

/-! ### take / drop / index preserve truthfulness -/

theorem admits_take {σ : String → Nat} : ∀ (n : Nat) {s : Shape} {l : List Int}, Admits σ s l → Admits σ (s.take n) (l.take n)
  | 0, _, _, _ => by simp only [List.take_zero, Admits]
  | n + 1, [], [], _ => by simp only [List.take_nil, Admits]
  | _ + 1, [], _ :: _, h => by simp only [Admits] at h
  | _ + 1, _ :: _, [], h => by simp only [Admits] at h
  | n + 1, d :: s, v :: l, h => by
    simp only [Admits] at h
    simp only [List.take_succ_cons, Admits]
    exact ⟨h.1, admits_take n h.2⟩

theorem admits_drop {σ : String → Nat} : ∀ (n : Nat) {s : Shape} {l : List Int}, Admits σ s l → Admits σ (s.drop n) (l.drop n)
  | 0, _, _, h => by simpa only [List.drop_zero] using h
  | n + 1, [], [], _ => by simp only [List.drop_nil, Admits]
  | _ + 1, [], _ :: _, h => by simp only [Admits] at h
  | _ + 1, _ :: _, [], h => by simp only [Admits] at h
  | n + 1, d :: s, v :: l, h => by
    simp only [Admits] at h
    simp only [List.drop_succ_cons]
    exact admits_drop n h.2

theorem admits_getElem? {σ : String → Nat} : ∀ (n : Nat) {s : Shape} {l : List Int} {d : Dim}, Admits σ s l →
    s[n]? = some d → ∃ v, l[n]? = some v ∧ d.Admits σ v
  | _, [], [], _, _, h => by simp only [List.getElem?_nil] at h; cases h
  | _, [], _ :: _, _, h, _ => by simp only [Admits] at h
  | _, _ :: _, [], _, h, _ => by simp only [Admits] at h
  | 0, d' :: s, v :: l, d, h, hd => by
    simp only [Admits] at h
    simp only [List.getElem?_cons_zero, Option.some.injEq] at hd
    subst hd
    exact ⟨v, by simp only [List.getElem?_cons_zero], h.1⟩
  | n + 1, d' :: s, v :: l, d, h, hd => by
    simp only [Admits] at h
    simp only [List.getElem?_cons_succ] at hd ⊢
    exact admits_getElem? n h.2 hd

theorem admits_pySlice {σ : String → Nat} {s : Shape} {l : List Int} (h : Admits σ s l) (a b : Option Int) :
    Admits σ (pySlice s a b) (pySlice l a b) := by
  have hl := admits_length h
  simp only [pySlice, hl]
  exact admits_drop _ (admits_take _ h)

theorem admits_pyIndex {σ : String → Nat} {s : Shape} {l : List Int} {d : Dim} (h : Admits σ s l) (i : Int)
    (hd : pyIndex s i = some d) : ∃ v, pyIndex l i = some v ∧ d.Admits σ v := by
  have hl := admits_length h
  simp only [pyIndex, hl] at hd ⊢
  by_cases hneg : (if i < 0 then i + (l.length : Int) else i) < 0
  · simp only [hneg, if_true] at hd; cases hd
  · simp only [hneg, if_false] at hd ⊢
    exact admits_getElem? _ h hd

/-- Python's `shape[start:end]` is the operator specification's `Shape(start, end)`. -/
theorem onnxShapeSlice_eq_pySlice (l : List Int) (st : Int) (en : Option Int) :
    onnxShapeSlice l st en = pySlice l (some st) en := by
  have hc : ∀ i : Int, (max 0 (min (l.length : Int) (if i < 0 then i + (l.length : Int) else i))).toNat
      = pyClamp l.length i := by
    intro i
    unfold pyClamp
    by_cases hi : i < 0
    · simp only [hi, if_true]; omega
    · simp only [hi, if_false]; omega
  unfold onnxShapeSlice pySlice
  cases en with
  | none => simp only [hc]
  | some e => simp only [hc]

/-! ### products -/

theorem prodInt_pos {l : List Int} (h : ∀ d ∈ l, 0 < d) : 0 < prodInt l := by
  induction l with
  | nil => simp only [prodInt, List.foldr_nil]; omega
  | cons a t ih =>
    rw [prodInt_cons]
    exact Int.mul_pos (h a (List.mem_cons_self ..)) (ih (fun d hd => h d (List.mem_cons_of_mem _ hd)))

theorem prodInt_ne_zero {l : List Int} (h : ∀ d ∈ l, d ≠ 0) : prodInt l ≠ 0 := by
  induction l with
  | nil => simp only [prodInt, List.foldr_nil]; omega
  | cons a t ih =>
    rw [prodInt_cons]
    exact Int.mul_ne_zero (h a (List.mem_cons_self ..)) (ih (fun d hd => h d (List.mem_cons_of_mem _ hd)))

end OV.C09
