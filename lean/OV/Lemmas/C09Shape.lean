import OV.Model.C09Shape
/-! Helper lemmas for C09 (core Lean only). -/
namespace OV.C09

/-! ### `seqOpt` -/

theorem seqOpt_some_length {α} : ∀ (l : List (Option α)) (r : List α), seqOpt l = some r → r.length = l.length
  | [], r, h => by simp only [seqOpt, Option.some.injEq] at h; subst h; rfl
  | none :: t, r, h => by simp only [seqOpt] at h; cases h
  | some a :: t, r, h => by
    simp only [seqOpt, Option.map_eq_some_iff] at h
    obtain ⟨r', hr', rfl⟩ := h
    simp only [List.length_cons, seqOpt_some_length t r' hr']

/-! ### `Admits` -/

theorem Dim.admits_det {σ : String → Nat} {d : Dim} {v w : Int} (hd : d.isUnknown = false)
    (h1 : d.Admits σ v) (h2 : d.Admits σ w) : v = w := by
  cases d with
  | known k => simp only [Dim.Admits] at h1 h2; omega
  | sym a => simp only [Dim.Admits] at h1 h2; omega
  | unknown => simp only [Dim.isUnknown] at hd; cases hd

theorem admits_length {σ : String → Nat} : ∀ {s : Shape} {l : List Int}, Admits σ s l → s.length = l.length
  | [], [], _ => rfl
  | [], _ :: _, h => by simp only [Admits] at h
  | _ :: _, [], h => by simp only [Admits] at h
  | _ :: s, _ :: l, h => by
    simp only [Admits] at h
    simp only [List.length_cons, admits_length h.2]

/-- A shape without unnamed dims determines the concrete list. -/
theorem admits_det {σ : String → Nat} : ∀ {s : Shape} {l1 l2 : List Int}, hasUnknown s = false →
    Admits σ s l1 → Admits σ s l2 → l1 = l2
  | [], [], [], _, _, _ => rfl
  | [], _ :: _, _, _, h, _ => by simp only [Admits] at h
  | [], [], _ :: _, _, _, h => by simp only [Admits] at h
  | _ :: _, [], _, _, h, _ => by simp only [Admits] at h
  | _ :: _, _ :: _, [], _, _, h => by simp only [Admits] at h
  | d :: s, v :: l1, w :: l2, hu, h1, h2 => by
    simp only [hasUnknown, List.any_cons, Bool.or_eq_false_iff] at hu
    simp only [Admits] at h1 h2
    have := Dim.admits_det hu.1 h1.1 h2.1
    have := admits_det (s := s) hu.2 h1.2 h2.2
    subst_vars; rfl

theorem Dim.val_admits {σ : String → Nat} {d : Dim} {v : Int} (h : d.val σ = some v) : d.Admits σ v := by
  cases d with
  | known k => simp only [Dim.val, Option.some.injEq] at h; exact h
  | sym a => simp only [Dim.val, Option.some.injEq] at h; exact h
  | unknown => simp only [Dim.val] at h; cases h

theorem Dim.val_isSome {σ : String → Nat} {d : Dim} (h : d.isUnknown = false) : ∃ v, d.val σ = some v := by
  cases d with
  | known k => exact ⟨k, rfl⟩
  | sym a => exact ⟨σ a, rfl⟩
  | unknown => simp only [Dim.isUnknown] at h; cases h

/-- Without unnamed dims the denotation exists … -/
theorem denote_isSome {σ : String → Nat} : ∀ {s : Shape}, hasUnknown s = false → ∃ l, denote σ s = some l
  | [], _ => ⟨[], rfl⟩
  | d :: s, hu => by
    simp only [hasUnknown, List.any_cons, Bool.or_eq_false_iff] at hu
    obtain ⟨v, hv⟩ := Dim.val_isSome (σ := σ) hu.1
    obtain ⟨l, hl⟩ := denote_isSome (σ := σ) (s := s) hu.2
    refine ⟨v :: l, ?_⟩
    simp only [denote] at hl
    simp only [denote, List.map_cons, hv, seqOpt, hl, Option.map_some]

/-- … and is the unique list the annotation admits. -/
theorem denote_admits {σ : String → Nat} : ∀ {s : Shape} {l : List Int}, denote σ s = some l → Admits σ s l
  | [], l, h => by
    simp only [denote, List.map_nil, seqOpt, Option.some.injEq] at h; subst h; simp only [Admits]
  | d :: s, l, h => by
    simp only [denote, List.map_cons] at h
    cases hv : d.val σ with
    | none => simp only [hv, seqOpt] at h; cases h
    | some v =>
      simp only [hv, seqOpt, Option.map_eq_some_iff] at h
      obtain ⟨l', hl', rfl⟩ := h
      simp only [Admits]
      exact ⟨Dim.val_admits hv, denote_admits (s := s) (by simpa only [denote] using hl')⟩

/-! ### numeric broadcasting, dimension level -/

theorem bdim_self (a : Int) : bdim a a = some a := by
  unfold bdim; by_cases h : a = 1 <;> simp [h]

theorem bdim_one_left (a : Int) : bdim 1 a = some a := by
  unfold bdim; simp

theorem bdim_one_right (a : Int) : bdim a 1 = some a := by
  unfold bdim; by_cases h : a = 1 <;> simp [h]

/-! ### products -/

theorem prodInt_cons (a : Int) (l : List Int) : prodInt (a :: l) = a * prodInt l := rfl

theorem prodInt_append (a b : List Int) : prodInt (a ++ b) = prodInt a * prodInt b := by
  induction a with
  | nil => simp only [List.nil_append, prodInt, List.foldr_nil, Int.one_mul]
  | cons x t ih =>
    simp only [List.cons_append, prodInt_cons, ih, Int.mul_assoc]

end OV.C09
