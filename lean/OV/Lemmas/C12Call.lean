import OV.Model.C12Call
/-! Exact characterisation of the inputs `separate` returns. -/
namespace OV.Call

def Param.isInput : Param → Bool
  | .input .. => true
  | .attr .. => false

def Param.isPlainInput : Param → Bool
  | .input false _ => true
  | _ => false

def isNoneB : Option Src → Bool
  | none => true
  | some _ => false

/-- Number of `None` placeholders at the end. -/
def trail (l : List (Option Src)) : Nat := (l.reverse.takeWhile isNoneB).length

/-- `del onnx_inputs[-trailing_placeholders:]`. -/
def trimNone (l : List (Option Src)) : List (Option Src) := l.take (l.length - trail l)

/-- What stands at input position `j` before trimming: the `j`-th positional argument, else the keyword argument
for parameter `j`, else the placeholder. -/
def slot (n : Nat) (kws : List Nat) (j : Nat) : Option Src :=
  if j < n then some (.pos j) else if kws.contains j then some (.kw j) else none

theorem trail_append_some (l : List (Option Src)) (x : Src) : trail (l ++ [some x]) = 0 := by
  simp [trail, List.reverse_append, List.takeWhile, isNoneB]

theorem trail_append_none (l : List (Option Src)) : trail (l ++ [none]) = trail l + 1 := by
  simp [trail, List.reverse_append, List.takeWhile, isNoneB]

theorem trail_append_somes (l : List (Option Src)) (f : Nat → Src) (xs : List Nat) (hx : xs ≠ []) :
    trail (l ++ xs.map (fun k => some (f k))) = 0 := by
  unfold trail
  rw [List.reverse_append, ← List.map_reverse]
  cases hr : xs.reverse with
  | nil => exact absurd (List.reverse_eq_nil_iff.mp hr) hx
  | cons y ys => simp [List.takeWhile, isNoneB]

theorem sepFrom_attrs (kws : List Nat) : ∀ (attrs : List Param) (i n : Nat) (acc r : Sep),
    (∀ p ∈ attrs, p.isInput = false) → sepFrom kws attrs i n acc = .ok r →
    r.inputs = acc.inputs ∧ r.pending = acc.pending
  | [], _, _, acc, r, _, h => by simp only [sepFrom, Except.ok.injEq] at h; rw [← h]; exact ⟨rfl, rfl⟩
  | .input v q :: rest, _, _, _, _, hp, _ => by
    have := hp (.input v q) List.mem_cons_self
    simp [Param.isInput] at this
  | .attr req dflt :: rest, i, n, acc, r, hp, h => by
    have hr : ∀ p ∈ rest, p.isInput = false := fun p hp' => hp p (List.mem_cons_of_mem _ hp')
    simp only [sepFrom] at h
    by_cases h1 : i < n
    · simp only [h1, if_true] at h
      exact sepFrom_attrs kws rest (i + 1) n { acc with attrs := acc.attrs ++ [(i, .pos i)] } r hr h
    · simp only [h1, if_false] at h
      cases h2 : kws.contains i with
      | true =>
        simp only [h2, if_true] at h
        exact sepFrom_attrs kws rest (i + 1) n { acc with attrs := acc.attrs ++ [(i, .kw i)] } r hr h
      | false =>
        simp only [h2, Bool.false_eq_true, if_false] at h
        cases dflt with
        | true => exact sepFrom_attrs kws rest (i + 1) n acc r hr (by simpa using h)
        | false =>
          cases req with
          | true => simp at h
          | false => exact sepFrom_attrs kws rest (i + 1) n acc r hr (by simpa using h)

/-- Non-variadic inputs: one slot per parameter, in parameter order. -/
theorem sepFrom_plain (kws : List Nat) : ∀ (ins : List Param) (rest : List Param) (i n : Nat) (acc r : Sep),
    (∀ p ∈ ins, p.isPlainInput = true) → acc.pending = trail acc.inputs →
    sepFrom kws (ins ++ rest) i n acc = .ok r →
    ∃ acc', sepFrom kws rest (i + ins.length) n acc' = .ok r ∧
      acc'.inputs = acc.inputs ++ (List.range' i ins.length).map (slot n kws) ∧ acc'.pending = trail acc'.inputs
  | [], rest, i, n, acc, r, _, hp, h => ⟨acc, by simpa using h, by simp, hp⟩
  | .attr q d :: _, _, _, _, _, _, hi, _, _ => by
    have := hi (.attr q d) List.mem_cons_self
    simp [Param.isPlainInput] at this
  | .input true q :: _, _, _, _, _, _, hi, _, _ => by
    have := hi (.input true q) List.mem_cons_self
    simp [Param.isPlainInput] at this
  | .input false req :: ins, rest, i, n, acc, r, hi, hp, h => by
    have hr : ∀ p ∈ ins, p.isPlainInput = true := fun p hp' => hi p (List.mem_cons_of_mem _ hp')
    simp only [List.cons_append, sepFrom] at h
    have step : ∀ (acc1 : Sep), acc1.inputs = acc.inputs ++ [slot n kws i] → acc1.pending = trail acc1.inputs →
        sepFrom kws (ins ++ rest) (i + 1) n acc1 = .ok r →
        ∃ acc', sepFrom kws rest (i + (ins.length + 1)) n acc' = .ok r ∧
          acc'.inputs = acc.inputs ++ (List.range' i (ins.length + 1)).map (slot n kws) ∧ acc'.pending = trail acc'.inputs := by
      intro acc1 h1 h2 h3
      obtain ⟨acc', ha, hb, hc⟩ := sepFrom_plain kws ins rest (i + 1) n acc1 r hr h2 h3
      refine ⟨acc', by rw [← ha]; congr 1; omega, ?_, hc⟩
      rw [hb, h1, List.range'_succ, List.map_cons, List.append_assoc, List.singleton_append]
    by_cases h1 : i < n
    · simp only [h1, if_true] at h
      exact step { acc with inputs := acc.inputs ++ [some (.pos i)], pending := 0 }
        (by simp only [slot, h1, if_true]) (by simp only [trail_append_some]) h
    · simp only [h1, if_false] at h
      cases h2 : kws.contains i with
      | true =>
        simp only [h2, if_true] at h
        exact step { acc with inputs := acc.inputs ++ [some (.kw i)], pending := 0 }
          (by simp only [slot, h1, h2, if_false, if_true]) (by simp only [trail_append_some]) h
      | false =>
        simp only [h2, Bool.false_eq_true, if_false] at h
        cases req with
        | true => simp at h
        | false =>
          simp only [Bool.false_eq_true, if_false] at h
          exact step { acc with inputs := acc.inputs ++ [none], pending := acc.pending + 1 }
            (by simp only [slot, h1, h2, Bool.false_eq_true, if_false]) (by simp only [trail_append_none, hp]) h

theorem trail_nil : trail [] = 0 := rfl

theorem separate_plain (ins attrs : List Param) (hi : ∀ p ∈ ins, p.isPlainInput = true)
    (ha : ∀ p ∈ attrs, p.isInput = false) (n : Nat) (kws : List Nat) (ae : Bool)
    (inp : List (Option Src)) (at' : List (Nat × Src))
    (h : separate (ins ++ attrs) n kws ae = .ok (inp, at')) :
    inp = trimNone ((List.range ins.length).map (slot n kws)) := by
  unfold separate at h
  cases hs : sepFrom kws (ins ++ attrs) 0 n ⟨[], [], 0⟩ with
  | error e => rw [hs] at h; cases h
  | ok r =>
    rw [hs] at h
    obtain ⟨acc', h1, h2, h3⟩ := sepFrom_plain kws ins attrs 0 n ⟨[], [], 0⟩ r hi rfl hs
    obtain ⟨h4, h5⟩ := sepFrom_attrs kws attrs _ n acc' r ha h1
    simp only [] at h
    by_cases hc : (!ae && !hasVariadic (ins ++ attrs) && decide ((ins ++ attrs).length < n)) = true
    · rw [if_pos hc] at h; cases h
    · rw [if_neg hc] at h
      simp only [Except.ok.injEq, Prod.mk.injEq] at h
      rw [← h.1, h4, h5, h3, h2]
      simp [trimNone, List.range_eq_range']

theorem separate_variadic_last (ins attrs : List Param) (q : Bool) (hi : ∀ p ∈ ins, p.isPlainInput = true)
    (ha : ∀ p ∈ attrs, p.isInput = false) (n : Nat) (kws : List Nat) (ae : Bool)
    (inp : List (Option Src)) (at' : List (Nat × Src))
    (h : separate (ins ++ (.input true q :: attrs)) n kws ae = .ok (inp, at')) :
    inp = trimNone ((List.range ins.length).map (slot n kws) ++
      (List.range' ins.length (n - ins.length)).map (fun j => some (.pos j))) := by
  unfold separate at h
  cases hs : sepFrom kws (ins ++ (.input true q :: attrs)) 0 n ⟨[], [], 0⟩ with
  | error e => rw [hs] at h; cases h
  | ok r =>
    rw [hs] at h
    obtain ⟨acc', h1, h2, h3⟩ := sepFrom_plain kws ins (.input true q :: attrs) 0 n ⟨[], [], 0⟩ r hi rfl hs
    simp only [sepFrom, Nat.zero_add] at h1
    obtain ⟨h4, h5⟩ := sepFrom_attrs kws attrs _ 0 _ r ha h1
    have hmap : (List.range (n - ins.length)).map (fun k => some (Src.pos (k + ins.length)))
        = (List.range' ins.length (n - ins.length)).map (fun j => some (Src.pos j)) := by
      rw [List.range'_eq_map_range, List.map_map]
      apply List.map_congr_left
      intro a _
      simp [Nat.add_comm]
    simp only [] at h
    by_cases hc : (!ae && !hasVariadic (ins ++ (.input true q :: attrs)) && decide ((ins ++ (.input true q :: attrs)).length < n)) = true
    · rw [if_pos hc] at h; cases h
    · rw [if_neg hc] at h
      simp only [Except.ok.injEq, Prod.mk.injEq] at h
      rw [← h.1, h4, h5]
      have hX : acc'.inputs ++ (List.range (n - ins.length)).map (fun k => some (Src.pos (k + ins.length)))
          = (List.range ins.length).map (slot n kws) ++
            (List.range' ins.length (n - ins.length)).map (fun j => some (Src.pos j)) := by
        rw [hmap, h2]; simp [List.range_eq_range']
      have hP : (if n - ins.length = 0 then acc'.pending else 0)
          = trail (acc'.inputs ++ (List.range (n - ins.length)).map (fun k => some (Src.pos (k + ins.length)))) := by
        by_cases hz : n - ins.length = 0
        · simp only [hz, if_true, List.range_zero, List.map_nil, List.append_nil]; exact h3
        · simp only [hz, if_false]
          have hne : List.range (n - ins.length) ≠ [] := by
            intro he
            have := congrArg List.length he
            simp at this
            exact hz this
          exact (trail_append_somes _ (fun k => Src.pos (k + ins.length)) _ hne).symm
      simp only [hP, hX, trimNone]


/-! positional calls (no keywords) -/

theorem slots_nokw (n : Nat) : ∀ k, (List.range k).map (slot n []) =
    (List.range (min n k)).map (fun j => some (Src.pos j)) ++ List.replicate (k - min n k) none
  | 0 => by simp
  | k + 1 => by
    rw [List.range_succ, List.map_append, slots_nokw n k]
    by_cases h : k < n
    · have e1 : min n (k + 1) = k + 1 := by omega
      have e2 : min n k = k := by omega
      simp only [e1, e2, Nat.sub_self, List.replicate_zero, List.append_nil, List.map_cons, List.map_nil, slot, h, if_true]
      rw [List.range_succ, List.map_append]; rfl
    · have e1 : min n (k + 1) = n := by omega
      have e2 : min n k = n := by omega
      have e3 : k + 1 - n = (k - n) + 1 := by omega
      simp only [e1, e2, e3, List.map_cons, List.map_nil, slot, h, if_false, List.contains_nil, Bool.false_eq_true]
      rw [List.append_assoc, List.replicate_succ']

theorem trail_somes_replicate (f : Nat → Src) (xs : List Nat) : ∀ p,
    trail (xs.map (fun k => some (f k)) ++ List.replicate p none) = p
  | 0 => by
    simp only [List.replicate_zero, List.append_nil]
    cases xs with
    | nil => rfl
    | cons x rest => simpa using trail_append_somes [] f (x :: rest) (by simp)
  | p + 1 => by
    rw [List.replicate_succ', ← List.append_assoc, trail_append_none, trail_somes_replicate f xs p]

theorem trimNone_somes_replicate (f : Nat → Src) (xs : List Nat) (p : Nat) :
    trimNone (xs.map (fun k => some (f k)) ++ List.replicate p none) = xs.map (fun k => some (f k)) := by
  unfold trimNone
  rw [trail_somes_replicate]
  simp


end OV.Call
