import OV.Model.C12Call
/-! Positional arguments become inputs as an order-preserving prefix. -/
namespace OV.Call

def Param.isInput : Param → Bool
  | .input .. => true
  | .attr .. => false

theorem sepFrom_attrs : ∀ (attrs : List Param) (i n : Nat) (acc r : Sep),
    (∀ p ∈ attrs, p.isInput = false) → sepFrom attrs i n acc = .ok r → r.inputs = acc.inputs
  | [], _, _, acc, r, _, h => by simp only [sepFrom, Except.ok.injEq] at h; rw [← h]
  | .input v q :: rest, _, _, _, _, hp, _ => by
    have := hp (.input v q) List.mem_cons_self
    simp [Param.isInput] at this
  | .attr req dflt :: rest, i, n, acc, r, hp, h => by
    have hr : ∀ p ∈ rest, p.isInput = false := fun p hp' => hp p (List.mem_cons_of_mem _ hp')
    simp only [sepFrom] at h
    by_cases h1 : i < n
    · simp only [h1, if_true] at h
      exact sepFrom_attrs rest (i + 1) n { acc with attrs := acc.attrs ++ [(i, i)] } r hr h
    · simp only [h1, if_false] at h
      cases dflt with
      | true => exact sepFrom_attrs rest (i + 1) n _ r hr (by simpa using h)
      | false =>
        cases req with
        | true => simp at h
        | false => exact sepFrom_attrs rest (i + 1) n _ r hr (by simpa using h)

theorem range_map_add (i m : Nat) : (List.range m).map (· + i) = List.range' i m := by
  rw [List.range'_eq_map_range]
  apply List.map_congr_left
  intro a _
  exact Nat.add_comm a i

theorem sepFrom_prefix : ∀ (ins : List Param) (attrs : List Param) (i n : Nat) (acc r : Sep),
    (∀ p ∈ ins, p.isInput = true) → (∀ p ∈ attrs, p.isInput = false) →
    sepFrom (ins ++ attrs) i n acc = .ok r →
    ∃ m, m ≤ n - i ∧ r.inputs = acc.inputs ++ List.range' i m
  | [], attrs, i, n, acc, r, _, ha, h => by
    refine ⟨0, Nat.zero_le _, ?_⟩
    simp only [List.nil_append] at h
    simp [sepFrom_attrs attrs i n acc r ha h]
  | .attr q d :: rest, _, _, _, _, _, hi, _, _ => by
    have := hi (.attr q d) List.mem_cons_self
    simp [Param.isInput] at this
  | .input true req :: rest, attrs, i, n, acc, r, hi, ha, h => by
    have hr : ∀ p ∈ rest, p.isInput = true := fun p hp' => hi p (List.mem_cons_of_mem _ hp')
    simp only [List.cons_append, sepFrom] at h
    obtain ⟨m, hm, hin⟩ := sepFrom_prefix rest attrs (i + 1) 0 _ r hr ha h
    have : m = 0 := by omega
    subst this
    refine ⟨n - i, Nat.le_refl _, ?_⟩
    simp only [hin, range_map_add, List.range'_zero, List.append_nil]
  | .input false req :: rest, attrs, i, n, acc, r, hi, ha, h => by
    have hr : ∀ p ∈ rest, p.isInput = true := fun p hp' => hi p (List.mem_cons_of_mem _ hp')
    simp only [List.cons_append, sepFrom] at h
    by_cases h1 : i < n
    · simp only [h1, if_true] at h
      obtain ⟨m, hm, hin⟩ := sepFrom_prefix rest attrs (i + 1) n _ r hr ha h
      refine ⟨m + 1, by omega, ?_⟩
      simp only [hin, List.append_assoc, List.singleton_append]
      rw [List.range'_succ]
    · simp only [h1, if_false] at h
      cases req with
      | true => simp at h
      | false =>
        obtain ⟨m, hm, hin⟩ := sepFrom_prefix rest attrs (i + 1) n _ r hr ha (by simpa using h)
        have : m = 0 := by omega
        subst this
        exact ⟨0, Nat.zero_le _, by simpa using hin⟩

end OV.Call
