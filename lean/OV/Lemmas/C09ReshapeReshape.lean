import OV.Model.C09Shape
import OV.Lemmas.C09Shape
import OV.Lemmas.C09Reshape
/-! Helper lemmas for `reshape_reshape_sound` (`ReshapeReshape.check` against `reshapeTarget`). Core Lean only. -/
namespace OV.C09

/-- The value a `-1` entry stands for. -/
def sub1 (v : Int) (d : Int) : Int := if d = -1 then v else d

/-- number of `-1` entries -/
def cntNeg (l : List Int) : Nat := (l.filter (· == -1)).length

/-- Second half of `reshapeTarget`: infer the `-1` from the element count `P` / compare the element counts. -/
def inferNeg (P : Int) (t1 : List Int) : Option (List Int) :=
  if t1.contains (-1) then
    if prodInt (t1.filter (· != -1)) = 0 then none
    else if P % prodInt (t1.filter (· != -1)) ≠ 0 then none
    else some (t1.map (fun d => if d = -1 then P / prodInt (t1.filter (· != -1)) else d))
  else if prodInt t1 = P then some t1 else none

theorem reshapeTarget_eq (inp tgt : List Int) (az : Bool) : reshapeTarget inp tgt az =
    if (tgt.filter (· == -1)).length > 1 then none
    else if tgt.any (· < -1) then none
    else if az && tgt.contains 0 && tgt.contains (-1) then none
    else (if az then some tgt else resolveZeros inp tgt 0).bind (inferNeg (prodInt inp)) := by
  unfold reshapeTarget inferNeg
  split
  · rfl
  split
  · rfl
  split
  · rfl
  cases (if az = true then some tgt else resolveZeros inp tgt 0) <;> rfl

/-- Pointwise relation between two lists of the same length. -/
def PW2 (p : Int → Int → Prop) : List Int → List Int → Prop
  | [], [] => True
  | a :: as, b :: bs => p a b ∧ PW2 p as bs
  | _, _ => False

theorem PW2.mono {p q : Int → Int → Prop} (h : ∀ a b, p a b → q a b) :
    ∀ {l₁ l₂ : List Int}, PW2 p l₁ l₂ → PW2 q l₁ l₂
  | [], [], _ => trivial
  | _ :: _, _ :: _, ⟨h1, h2⟩ => ⟨h _ _ h1, PW2.mono h h2⟩
  | [], _ :: _, hf => hf.elim
  | _ :: _, [], hf => hf.elim

theorem PW2.refl_eq : ∀ (l : List Int), PW2 (fun a b => a = b) l l
  | [] => trivial
  | _ :: t => ⟨rfl, PW2.refl_eq t⟩

/-! ### `inferNeg` -/

theorem mem_of_contains {l : List Int} {x : Int} (h : l.contains x = true) : x ∈ l := by
  simpa using h

theorem contains_of_mem {l : List Int} {x : Int} (h : x ∈ l) : l.contains x = true := by
  simpa using h

theorem cntNeg_zero_iff {l : List Int} : cntNeg l = 0 ↔ (-1 : Int) ∉ l := by
  induction l with
  | nil => simp [cntNeg]
  | cons a t ih =>
    unfold cntNeg at ih ⊢
    by_cases ha : a = -1
    · subst ha; simp
    · have : (a == (-1 : Int)) = false := by simpa using ha
      simp only [List.filter_cons, this, List.mem_cons]
      constructor
      · intro h hm
        rcases hm with hm | hm
        · exact ha hm.symm
        · exact (ih.mp h) hm
      · intro h
        exact ih.mpr (fun hm => h (Or.inr hm))

theorem map_sub1_of_not_mem (v : Int) {l : List Int} (h : (-1 : Int) ∉ l) : l.map (sub1 v) = l := by
  induction l with
  | nil => rfl
  | cons a t ih =>
    have ha : a ≠ -1 := fun e => h (by simp [e])
    have ht : (-1 : Int) ∉ t := fun e => h (by simp [e])
    simp [sub1, ha, ih ht]

theorem filter_ne_of_not_mem {l : List Int} (h : (-1 : Int) ∉ l) : l.filter (· != -1) = l := by
  induction l with
  | nil => rfl
  | cons a t ih =>
    have ha : a ≠ -1 := fun e => h (by simp [e])
    have ht : (-1 : Int) ∉ t := fun e => h (by simp [e])
    simp [ha, ih ht]

/-- exactly one `-1`: the product of the resolved list is `k * v`. -/
theorem prod_sub1_one (v : Int) : ∀ (l : List Int), cntNeg l = 1 →
    prodInt (l.map (sub1 v)) = prodInt (l.filter (· != -1)) * v := by
  intro l
  induction l with
  | nil => intro h; simp [cntNeg] at h
  | cons a t ih =>
    intro h
    by_cases ha : a = -1
    · subst ha
      have h0 : cntNeg t = 0 := by
        unfold cntNeg at h ⊢
        simp only [List.filter_cons, show ((-1 : Int) == -1) = true from rfl, if_true, List.length_cons] at h
        omega
      have hm := cntNeg_zero_iff.mp h0
      simp only [List.map_cons, sub1, if_true, prodInt_cons, map_sub1_of_not_mem v hm]
      have : ((-1 : Int) :: t).filter (· != -1) = t.filter (· != -1) := by simp
      rw [this, filter_ne_of_not_mem hm, Int.mul_comm]
    · have h1 : cntNeg t = 1 := by
        have : (a == (-1 : Int)) = false := by simpa using ha
        unfold cntNeg at h ⊢; simpa [List.filter_cons, this] using h
      have hf : (a :: t).filter (· != -1) = a :: t.filter (· != -1) := by simp [ha]
      simp only [List.map_cons, sub1, ha, if_false, prodInt_cons, hf, ih h1, Int.mul_assoc]

theorem inferNeg_nec {P : Int} {t1 res : List Int} (h : inferNeg P t1 = some res) :
    ∃ v, res = t1.map (sub1 v) ∧
      (((-1 : Int) ∉ t1 ∧ prodInt t1 = P) ∨
       ((-1 : Int) ∈ t1 ∧ prodInt (t1.filter (· != -1)) ≠ 0 ∧ P = prodInt (t1.filter (· != -1)) * v)) := by
  unfold inferNeg at h
  split at h
  · rename_i hc
    split at h
    · cases h
    · rename_i hk
      split at h
      · cases h
      · rename_i hm
        refine ⟨P / prodInt (t1.filter (· != -1)), ?_, Or.inr ⟨mem_of_contains hc, hk, ?_⟩⟩
        · cases h; rfl
        · have hm' : P % prodInt (t1.filter (· != -1)) = 0 := by simpa using hm
          exact (Int.mul_ediv_cancel' (Int.dvd_of_emod_eq_zero hm')).symm
  · rename_i hc
    have hnm : (-1 : Int) ∉ t1 := fun hm => hc (contains_of_mem hm)
    split at h
    · rename_i hp
      cases h
      exact ⟨0, (map_sub1_of_not_mem 0 hnm).symm, Or.inl ⟨hnm, hp⟩⟩
    · cases h

theorem inferNeg_suf_neg {P v : Int} {w : List Int} (hm : (-1 : Int) ∈ w)
    (hk : prodInt (w.filter (· != -1)) ≠ 0) (hP : P = prodInt (w.filter (· != -1)) * v) :
    inferNeg P w = some (w.map (sub1 v)) := by
  unfold inferNeg
  rw [if_pos (contains_of_mem hm), if_neg hk]
  have h1 : P % prodInt (w.filter (· != -1)) = 0 := by rw [hP]; exact Int.mul_emod_right _ _
  have h2 : P / prodInt (w.filter (· != -1)) = v := by rw [hP]; exact Int.mul_ediv_cancel_left _ hk
  rw [if_neg (by simpa using h1), h2]
  rfl

theorem inferNeg_suf_lit {P : Int} {w : List Int} (hm : (-1 : Int) ∉ w) (hP : prodInt w = P) :
    inferNeg P w = some w := by
  unfold inferNeg
  have : w.contains (-1) = false := by
    cases hc : w.contains (-1)
    · rfl
    · exact (hm (mem_of_contains hc)).elim
  rw [this]
  simp [hP]

/-- `resolveZeros` is the identity on a target without zeros. -/
theorem resolveZeros_no_zero (inp : List Int) : ∀ (l : List Int) (i : Nat), (0 : Int) ∉ l → resolveZeros inp l i = some l := by
  intro l
  induction l with
  | nil => intro i _; rfl
  | cons a t ih =>
    intro i h
    have ha : a ≠ 0 := fun e => h (by simp [e])
    have ht : (0 : Int) ∉ t := fun e => h (by simp [e])
    simp [resolveZeros, ha, ih (i + 1) ht]

/-- What `resolveZeros` does, pointwise (input dims are non-negative). -/
theorem resolveZeros_pw (inp : List Int) (hnn : ∀ d ∈ inp, 0 ≤ d) : ∀ (l t1 : List Int) (i : Nat),
    resolveZeros inp l i = some t1 → PW2 (fun x a => (x = 0 ∧ 0 ≤ a) ∨ x = a) l t1 := by
  intro l
  induction l with
  | nil => intro t1 i h; simp [resolveZeros] at h; subst h; trivial
  | cons a t ih =>
    intro t1 i h
    unfold resolveZeros at h
    split at h
    · rename_i v r hv hr
      cases h
      refine ⟨?_, ih r (i + 1) hr⟩
      by_cases ha : a = 0
      · simp only [ha, if_true] at hv
        exact Or.inl ⟨ha, hnn _ (List.mem_of_getElem? hv)⟩
      · simp only [ha, if_false] at hv
        cases hv; exact Or.inr rfl
    · cases h

/-! ### pointwise facts about the updated target -/

/-- `u = sub1 v a > 0` (entry taken from the output annotation) or `u = a` (entry kept). -/
def QK (v : Int) (a u : Int) : Prop := (u = sub1 v a ∧ 0 < sub1 v a) ∨ u = a

/-- … or a `0` that stayed in the target. -/
def QZ (v : Int) (a u : Int) : Prop := (u = sub1 v a ∧ 0 < sub1 v a) ∨ u = a ∨ u = 0

theorem rrUpdate_pw {σ : String → Nat} (f : Int → Int) (E : Int → Int → Prop) :
    ∀ (out : Shape) (t t1 u : List Int), rrUpdate out t = .ret u → Admits σ out (t1.map f) → PW2 E t t1 →
      PW2 (fun a u => (u = f a ∧ 0 < f a) ∨ ∃ x, E x a ∧ u = x) t1 u := by
  intro out
  induction out with
  | nil =>
    intro t t1 u h ha hE
    cases t1 with
    | nil =>
      cases t with
      | nil => simp [rrUpdate] at h; subst h; trivial
      | cons _ _ => exact hE.elim
    | cons _ _ => exact ha.elim
  | cons d o ih =>
    intro t t1 u h ha hE
    cases t1 with
    | nil => exact ha.elim
    | cons a t1' =>
      cases t with
      | nil => exact hE.elim
      | cons x t' =>
        simp only [rrUpdate] at h
        split at h
        · cases h
        · rename_i r hr
          cases h
          obtain ⟨had, hat⟩ := ha
          obtain ⟨hE1, hE2⟩ := hE
          refine ⟨?_, ih t' t1' r hr hat hE2⟩
          cases d with
          | known n =>
            by_cases hn : 0 < n
            · simp only [Dim.posInt?, hn, if_true]
              have : n = f a := had
              exact Or.inl ⟨this, this ▸ hn⟩
            · simp only [Dim.posInt?, hn, if_false]
              exact Or.inr ⟨x, hE1, rfl⟩
          | sym s => exact Or.inr ⟨x, hE1, rfl⟩
          | unknown => exact Or.inr ⟨x, hE1, rfl⟩

theorem pw_length {p : Int → Int → Prop} : ∀ {l₁ l₂ : List Int}, PW2 p l₁ l₂ → l₁.length = l₂.length
  | [], [], _ => rfl
  | _ :: _, _ :: _, ⟨_, h2⟩ => by simp [pw_length h2]
  | [], _ :: _, hf => hf.elim
  | _ :: _, [], hf => hf.elim

/-- guards carry over from the original target to the resolved one -/
theorem pw_resolve_guards : ∀ {t t1 : List Int}, PW2 (fun x a => (x = 0 ∧ 0 ≤ a) ∨ x = a) t t1 →
    cntNeg t1 = cntNeg t ∧ t1.any (· < -1) = t.any (· < -1)
  | [], [], _ => ⟨rfl, rfl⟩
  | x :: t, a :: t1, ⟨h1, h2⟩ => by
    obtain ⟨ih1, ih2⟩ := pw_resolve_guards h2
    unfold cntNeg at ih1 ⊢
    rcases h1 with ⟨hx, ha⟩ | hx
    · subst hx
      have e1 : (a == (-1 : Int)) = false := by simp; omega
      have e2 : decide (a < -1) = false := by simp; omega
      simp [e1, e2, ih1, ih2]
    · subst hx
      simp only [List.filter_cons, List.any_cons, ih2]
      split <;> simp [ih1]
  | [], _ :: _, hf => hf.elim
  | _ :: _, [], hf => hf.elim

/-- guards of the updated target -/
theorem pw_update_guards (v : Int) : ∀ {t1 u : List Int}, PW2 (QZ v) t1 u → t1.any (· < -1) = false →
    cntNeg u ≤ cntNeg t1 ∧ u.any (· < -1) = false
  | [], [], _, _ => ⟨Nat.le_refl _, rfl⟩
  | a :: t1, b :: u, ⟨h1, h2⟩, hg => by
    simp only [List.any_cons, Bool.or_eq_false_iff, decide_eq_false_iff_not] at hg
    obtain ⟨ih1, ih2⟩ := pw_update_guards v h2 hg.2
    unfold cntNeg at ih1 ⊢
    have hb : ¬ b < -1 := by
      rcases h1 with ⟨_, hp⟩ | hb | hb <;> omega
    have hcnt : (if (b == (-1 : Int)) = true then 1 else 0) ≤ (if (a == (-1 : Int)) = true then 1 else 0) := by
      rcases h1 with ⟨hb, hp⟩ | hb | hb
      · have : (b == (-1 : Int)) = false := by simp; omega
        simp [this]
      · subst hb; exact Nat.le_refl _
      · subst hb; simp
    refine ⟨?_, by simp [hb, ih2]⟩
    simp only [List.filter_cons]
    split <;> split <;> simp_all <;> omega
  | [], _ :: _, hf, _ => hf.elim
  | _ :: _, [], hf, _ => hf.elim

theorem pw_qz_to_qk (v : Int) : ∀ {t1 u : List Int}, PW2 (QZ v) t1 u → (0 : Int) ∉ u → PW2 (QK v) t1 u
  | [], [], _, _ => trivial
  | a :: t1, b :: u, ⟨h1, h2⟩, h0 => by
    have hb : b ≠ 0 := fun e => h0 (by simp [e])
    have hu : (0 : Int) ∉ u := fun e => h0 (by simp [e])
    refine ⟨?_, pw_qz_to_qk v h2 hu⟩
    rcases h1 with h | h | h
    · exact Or.inl h
    · exact Or.inr h
    · exact (hb h).elim
  | [], _ :: _, hf, _ => hf.elim
  | _ :: _, [], hf, _ => hf.elim

/-- no `-1` in the (resolved) target: nothing can change. -/
theorem pw_qk_zero (v : Int) : ∀ {t1 u : List Int}, PW2 (QK v) t1 u → (-1 : Int) ∉ t1 → u = t1
  | [], [], _, _ => rfl
  | a :: t1, b :: u, ⟨h1, h2⟩, hm => by
    have ha : a ≠ -1 := fun e => hm (by simp [e])
    have ht : (-1 : Int) ∉ t1 := fun e => hm (by simp [e])
    have hb : b = a := by
      rcases h1 with ⟨h, _⟩ | h
      · simpa [sub1, ha] using h
      · exact h
    rw [hb, pw_qk_zero v h2 ht]
  | [], _ :: _, hf, _ => hf.elim
  | _ :: _, [], hf, _ => hf.elim

/-- at most one `-1`: the updated target is the old target, or the complete (all positive at the `-1`) result. -/
theorem pw_qk_choice (v : Int) : ∀ {t1 u : List Int}, PW2 (QK v) t1 u → cntNeg t1 ≤ 1 →
    u = t1 ∨ (u = t1.map (sub1 v) ∧ 0 < v ∧ (-1 : Int) ∈ t1 ∧ (-1 : Int) ∉ u)
  | [], [], _, _ => Or.inl rfl
  | a :: t1, b :: u, ⟨h1, h2⟩, hc => by
    by_cases ha : a = -1
    · subst ha
      have h0 : cntNeg t1 = 0 := by
        unfold cntNeg at hc ⊢
        simp only [List.filter_cons, show ((-1 : Int) == -1) = true from rfl, if_true, List.length_cons] at hc
        omega
      have hm := cntNeg_zero_iff.mp h0
      have hu := pw_qk_zero v h2 hm
      subst hu
      rcases h1 with ⟨hb, hp⟩ | hb
      · simp only [sub1, if_true] at hb hp
        right
        refine ⟨by simp [sub1, hb, map_sub1_of_not_mem v hm], hp, by simp, ?_⟩
        intro hmem
        rcases List.mem_cons.mp hmem with e | e
        · omega
        · exact hm e
      · left; rw [hb]
    · have hc1 : cntNeg t1 ≤ 1 := by
        have : (a == (-1 : Int)) = false := by simpa using ha
        unfold cntNeg at hc ⊢; simpa [List.filter_cons, this] using hc
      have hb : b = a := by
        rcases h1 with ⟨h, _⟩ | h
        · simpa [sub1, ha] using h
        · exact h
      subst hb
      rcases pw_qk_choice v h2 hc1 with h | ⟨h, hv, hm, hn⟩
      · left; rw [h]
      · right
        refine ⟨by simp [sub1, ha, h], hv, by simp [hm], ?_⟩
        intro hmem
        rcases List.mem_cons.mp hmem with e | e
        · exact ha e.symm
        · exact hn e
  | [], _ :: _, hf, _ => hf.elim
  | _ :: _, [], hf, _ => hf.elim

/-- `np.where(new_shape == 0, -1, new_shape)` -/
def zeroToNeg (d : Int) : Int := if d = 0 then -1 else d

def cntZero (l : List Int) : Nat := (l.filter (· == 0)).length

/-- no zero left and no negative entry: the updated target *is* the result. -/
theorem pw_qz_nozero (v : Int) : ∀ {t1 u : List Int}, PW2 (QZ v) t1 u → (∀ d ∈ u, 0 ≤ d) → cntZero u = 0 →
    t1.map (sub1 v) = u ∧ u.map zeroToNeg = u ∧ (∀ d ∈ u, 0 < d)
  | [], [], _, _, _ => ⟨rfl, rfl, by simp⟩
  | a :: t1, b :: u, ⟨h1, h2⟩, hn, hz => by
    have hb0 : b ≠ 0 := by
      intro e; subst e; unfold cntZero at hz; simp at hz
    have hz' : cntZero u = 0 := by
      have : (b == (0 : Int)) = false := by simpa using hb0
      unfold cntZero at hz ⊢; simpa [List.filter_cons, this] using hz
    have hbn : 0 ≤ b := hn b (by simp)
    obtain ⟨i1, i2, i3⟩ := pw_qz_nozero v h2 (fun d hd => hn d (by simp [hd])) hz'
    have hb : sub1 v a = b := by
      rcases h1 with ⟨h, _⟩ | h | h
      · exact h.symm
      · subst h
        have : b ≠ -1 := by omega
        simp [sub1, this]
      · exact (hb0 h).elim
    refine ⟨by simp [hb, i1], by simp [zeroToNeg, hb0, i2], ?_⟩
    intro d hd
    rcases List.mem_cons.mp hd with e | e
    · omega
    · exact i3 d e
  | [], _ :: _, hf, _, _ => hf.elim
  | _ :: _, [], hf, _, _ => hf.elim

/-- exactly one zero left and no negative entry: after `0 ↦ -1` the target has exactly one `-1`, every other
entry is the (positive) result entry. -/
theorem pw_qz_onezero (v : Int) : ∀ {t1 u : List Int}, PW2 (QZ v) t1 u → (∀ d ∈ u, 0 ≤ d) → cntZero u = 1 →
    ∃ v', t1.map (sub1 v) = (u.map zeroToNeg).map (sub1 v') ∧ cntNeg (u.map zeroToNeg) = 1 ∧
      (0 : Int) ∉ u.map zeroToNeg ∧ (u.map zeroToNeg).any (· < -1) = false ∧
      0 < prodInt ((u.map zeroToNeg).filter (· != -1))
  | [], [], _, _, hz => by simp [cntZero] at hz
  | a :: t1, b :: u, ⟨h1, h2⟩, hn, hz => by
    have hbn : 0 ≤ b := hn b (by simp)
    have hn' : ∀ d ∈ u, 0 ≤ d := fun d hd => hn d (by simp [hd])
    by_cases hb0 : b = 0
    · subst hb0
      have hz' : cntZero u = 0 := by
        unfold cntZero at hz ⊢
        simp only [List.filter_cons, show ((0 : Int) == 0) = true from rfl, if_true, List.length_cons] at hz
        omega
      obtain ⟨i1, i2, i3⟩ := pw_qz_nozero v h2 hn' hz'
      have hm : (-1 : Int) ∉ u := fun hm => by have := i3 _ hm; omega
      have h0 : (0 : Int) ∉ u := fun hm => by have := i3 _ hm; omega
      refine ⟨sub1 v a, ?_, ?_, ?_, ?_, ?_⟩
      · simp [zeroToNeg, i2, sub1, map_sub1_of_not_mem _ hm, i1]
      · have := cntNeg_zero_iff.mpr hm
        unfold cntNeg at this ⊢; simp [zeroToNeg, i2, this]
      · simp [zeroToNeg, i2, h0]
      · simp only [List.map_cons, zeroToNeg, if_true, i2, List.any_cons]
        have : u.any (· < -1) = false := by
          simp only [List.any_eq_false, decide_eq_true_eq]
          intro d hd; have := i3 d hd; omega
        simp [this]
      · have : ((0 : Int) :: u).map zeroToNeg = -1 :: u := by simp [zeroToNeg, i2]
        rw [this]
        have : ((-1 : Int) :: u).filter (· != -1) = u.filter (· != -1) := by simp
        rw [this, filter_ne_of_not_mem hm]
        exact prodInt_pos i3
    · have hz' : cntZero u = 1 := by
        have : (b == (0 : Int)) = false := by simpa using hb0
        unfold cntZero at hz ⊢; simpa [List.filter_cons, this] using hz
      obtain ⟨v', j1, j2, j3, j4, j5⟩ := pw_qz_onezero v h2 hn' hz'
      have hbm : b ≠ -1 := by omega
      have hb : sub1 v a = b := by
        rcases h1 with ⟨h, _⟩ | h | h
        · exact h.symm
        · subst h; simp [sub1, hbm]
        · exact (hb0 h).elim
      have hzb : zeroToNeg b = b := by simp [zeroToNeg, hb0]
      refine ⟨v', ?_, ?_, ?_, ?_, ?_⟩
      · show sub1 v a :: t1.map (sub1 v) = (zeroToNeg b :: u.map zeroToNeg).map (sub1 v')
        rw [hzb, hb, j1]
        simp [sub1, hbm]
      · have e : (b == (-1 : Int)) = false := by simpa using hbm
        unfold cntNeg at j2 ⊢; simpa [List.filter_cons, hzb, e] using j2
      · intro hm
        rcases List.mem_cons.mp hm with e | e
        · rw [hzb] at e; exact hb0 e.symm
        · exact j3 e
      · have : decide (b < -1) = false := by simp; omega
        simp [hzb, this, j4]
      · have : (b :: u.map zeroToNeg).filter (· != -1) = b :: (u.map zeroToNeg).filter (· != -1) := by simp [hbm]
        simp only [List.map_cons, hzb, this, prodInt_cons]
        exact Int.mul_pos (by omega) j5
  | [], _ :: _, hf, _, _ => hf.elim
  | _ :: _, [], hf, _, _ => hf.elim

theorem pw_flip (f : Int → Int) (E : Int → Int → Prop) : ∀ {t t1 : List Int}, PW2 E t t1 →
    PW2 (fun a u => (u = f a ∧ 0 < f a) ∨ ∃ x, E x a ∧ u = x) t1 t
  | [], [], _ => trivial
  | x :: _, _ :: _, ⟨h1, h2⟩ => ⟨Or.inr ⟨x, h1, rfl⟩, pw_flip f E h2⟩
  | [], _ :: _, hf => hf.elim
  | _ :: _, [], hf => hf.elim

theorem map_zeroToNeg_of_not_mem {l : List Int} (h : (0 : Int) ∉ l) : l.map zeroToNeg = l := by
  induction l with
  | nil => rfl
  | cons a t ih =>
    have ha : a ≠ 0 := fun e => h (by simp [e])
    have ht : (0 : Int) ∉ t := fun e => h (by simp [e])
    simp [zeroToNeg, ha, ih ht]

theorem cntZero_zero_iff {l : List Int} : cntZero l = 0 ↔ (0 : Int) ∉ l := by
  induction l with
  | nil => simp [cntZero]
  | cons a t ih =>
    unfold cntZero at ih ⊢
    by_cases ha : a = 0
    · subst ha; simp
    · have : (a == (0 : Int)) = false := by simpa using ha
      simp only [List.filter_cons, this, List.mem_cons]
      constructor
      · intro h hm
        rcases hm with hm | hm
        · exact ha hm.symm
        · exact (ih.mp h) hm
      · intro h
        exact ih.mpr (fun hm => h (Or.inr hm))

/-- the resolved result has the element count of the input -/
theorem prod_resolved {P v : Int} {t1 : List Int} (hc : cntNeg t1 ≤ 1)
    (hcase : ((-1 : Int) ∉ t1 ∧ prodInt t1 = P) ∨
       ((-1 : Int) ∈ t1 ∧ prodInt (t1.filter (· != -1)) ≠ 0 ∧ P = prodInt (t1.filter (· != -1)) * v)) :
    prodInt (t1.map (sub1 v)) = P := by
  rcases hcase with ⟨hm, hp⟩ | ⟨hm, _, hP⟩
  · rw [map_sub1_of_not_mem v hm, hp]
  · have h1 : cntNeg t1 = 1 := by
      have : cntNeg t1 ≠ 0 := fun e => (cntNeg_zero_iff.mp e) hm
      omega
    rw [prod_sub1_one v t1 h1, hP]

/-- No `0` left in the updated target: `Reshape(x, u)` gives the result of the original second `Reshape`. -/
theorem rr_nozero {inp t1 u res : List Int} {v : Int} (hpw : PW2 (QK v) t1 u) (hc : cntNeg t1 ≤ 1)
    (hg : t1.any (· < -1) = false) (h0 : (0 : Int) ∉ u) (hres : res = t1.map (sub1 v))
    (hcase : ((-1 : Int) ∉ t1 ∧ prodInt t1 = prodInt inp) ∨
       ((-1 : Int) ∈ t1 ∧ prodInt (t1.filter (· != -1)) ≠ 0 ∧
         prodInt inp = prodInt (t1.filter (· != -1)) * v)) :
    reshapeTarget inp u false = some res := by
  have hqz : PW2 (QZ v) t1 u := PW2.mono (fun a b h => by
    rcases h with h | h
    · exact Or.inl h
    · exact Or.inr (Or.inl h)) hpw
  obtain ⟨g1, g2⟩ := pw_update_guards v hqz hg
  rw [reshapeTarget_eq]
  have g1' : ¬ (u.filter (· == -1)).length > 1 := by unfold cntNeg at g1 hc; omega
  rw [if_neg g1', g2]
  simp only [Bool.false_eq_true, if_false, Bool.false_and]
  rw [resolveZeros_no_zero inp u 0 h0]
  show inferNeg (prodInt inp) u = some res
  rcases pw_qk_choice v hpw hc with hu | ⟨hu, hv, hm, hnu⟩
  · subst hu
    rcases hcase with ⟨hm, hp⟩ | ⟨hm, hk, hP⟩
    · rw [hres, map_sub1_of_not_mem v hm]; exact inferNeg_suf_lit hm hp
    · rw [hres]; exact inferNeg_suf_neg hm hk hP
  · have hp := prod_resolved hc hcase
    rw [hres, ← hu]
    rw [← hu] at hp
    exact inferNeg_suf_lit hnu hp

/-- Exactly one `0` left and no negative entry: `Reshape(x, where(u == 0, -1, u))` gives the result of the original
second `Reshape`. -/
theorem rr_onezero {inp t1 u res : List Int} {v : Int} (hpw : PW2 (QZ v) t1 u) (hn : ∀ d ∈ u, 0 ≤ d)
    (hz : cntZero u = 1) (hres : res = t1.map (sub1 v)) (hprod : prodInt res = prodInt inp) :
    reshapeTarget inp (u.map zeroToNeg) false = some res := by
  obtain ⟨v', j1, j2, j3, j4, j5⟩ := pw_qz_onezero v hpw hn hz
  rw [reshapeTarget_eq]
  have g1' : ¬ ((u.map zeroToNeg).filter (· == -1)).length > 1 := by unfold cntNeg at j2; omega
  rw [if_neg g1', j4]
  simp only [Bool.false_eq_true, if_false, Bool.false_and]
  rw [resolveZeros_no_zero inp _ 0 j3]
  show inferNeg (prodInt inp) (u.map zeroToNeg) = some res
  have hm : (-1 : Int) ∈ u.map zeroToNeg := by
    apply Classical.byContradiction
    intro hm
    have := cntNeg_zero_iff.mpr hm
    omega
  have hP : prodInt inp = prodInt ((u.map zeroToNeg).filter (· != -1)) * v' := by
    rw [← hprod, hres, j1, prod_sub1_one v' _ j2]
  rw [hres, j1]
  exact inferNeg_suf_neg hm (by omega) hP

theorem prodInt_nonneg' {l : List Int} (h : ∀ d ∈ l, 0 ≤ d) : 0 ≤ prodInt l := by
  induction l with
  | nil => decide
  | cons a t ih =>
    rw [prodInt_cons]
    exact Int.mul_nonneg (h a (by simp)) (ih (fun d hd => h d (by simp [hd])))

/-- What a successful `Reshape` returns: non-negative dims with the element count of the input. -/
theorem reshapeTarget_out {inp t mid : List Int} {az : Bool} (hnn : ∀ d ∈ inp, 0 ≤ d)
    (h : reshapeTarget inp t az = some mid) : prodInt mid = prodInt inp ∧ ∀ d ∈ mid, 0 ≤ d := by
  rw [reshapeTarget_eq] at h
  split at h
  · cases h
  rename_i g1
  split at h
  · cases h
  rename_i g2
  split at h
  · cases h
  obtain ⟨t1, ht1, hinf⟩ := Option.bind_eq_some_iff.mp h
  obtain ⟨v, hres, hcase⟩ := inferNeg_nec hinf
  have g2' : t.any (· < -1) = false := by simpa using g2
  have g1' : cntNeg t ≤ 1 := by unfold cntNeg; omega
  have hg : cntNeg t1 ≤ 1 ∧ t1.any (· < -1) = false := by
    cases az with
    | true => simp at ht1; subst ht1; exact ⟨g1', g2'⟩
    | false =>
      simp only [Bool.false_eq_true, if_false] at ht1
      obtain ⟨c1, c2⟩ := pw_resolve_guards (resolveZeros_pw inp hnn t t1 0 ht1)
      exact ⟨c1 ▸ g1', c2 ▸ g2'⟩
  obtain ⟨c1, c2⟩ := hg
  refine ⟨hres ▸ prod_resolved c1 hcase, ?_⟩
  have hge : ∀ a ∈ t1, a ≠ -1 → 0 ≤ a := by
    intro a ha hne
    have := (List.any_eq_false.mp c2) a ha
    simp only [decide_eq_true_eq] at this
    omega
  intro d hd
  rw [hres] at hd
  obtain ⟨a, ha, rfl⟩ := List.mem_map.mp hd
  unfold sub1
  split
  · rename_i ha1
    rcases hcase with ⟨hm, _⟩ | ⟨_, hk, hP⟩
    · exact (hm (ha1 ▸ ha)).elim
    · have hk0 : 0 ≤ prodInt (t1.filter (· != -1)) := by
        apply prodInt_nonneg'
        intro d hd
        have ⟨h1, h2⟩ := List.mem_filter.mp hd
        exact hge d h1 (by simpa using h2)
      have hP0 : 0 ≤ prodInt inp := prodInt_nonneg' hnn
      apply Classical.byContradiction
      intro hv
      have := Int.mul_neg_of_pos_of_neg (show 0 < prodInt (t1.filter (· != -1)) by omega) (show v < 0 by omega)
      omega
  · rename_i ha1
    exact hge a ha ha1

end OV.C09
