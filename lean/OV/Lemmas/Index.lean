import OV.Model.Index
/-! Helper lemmas for C11 (not property statements). -/
namespace OV.Index

theorem enumerate_nil {α} (s st : Int) (n : Nat) : enumerate ([] : List α) s st n = [] := by
  induction n generalizing s with
  | zero => rfl
  | succ n ih => simp [enumerate, ih]

theorem sliceLen_one (i : Int) : sliceLen i (i + 1) 1 = 1 := by
  unfold sliceLen
  have h1 : (1 : Int) > 0 := by decide
  have h2 : i < i + 1 := by omega
  simp only [h1, h2, if_true]
  have : (i + 1 - i - 1) / 1 + 1 = 1 := by omega
  rw [this]; rfl

theorem sliceLen_empty_pos (s e st : Int) (h : st > 0) (he : e ≤ s) : sliceLen s e st = 0 := by
  unfold sliceLen
  have : ¬ s < e := by omega
  simp [h, this]

theorem enumerate_one {α} (l : List α) (s st : Int) :
    enumerate l s st 1 = (if 0 ≤ s then (l[s.toNat]?).toList else []) := by
  simp only [enumerate, List.append_nil]

end OV.Index
