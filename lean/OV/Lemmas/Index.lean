import OV.Model.Index
/-! Helper lemmas for C11 (not property statements). -/
namespace OV.Index

theorem enumerate_nil {α} (s st : Int) (n : Nat) : enumerate ([] : List α) s st n = [] := by
  induction n generalizing s with
  | zero => rfl
  | succ n ih => simp [enumerate, ih]

theorem sliceLen_one (i : Int) : sliceLen i (i + 1) 1 = 1 := by
  unfold sliceLen
  have h1 : (1 : Int) > 0 := by decide
  have h2 : i < i + 1 := by omega
  simp only [h1, h2, if_true]
  have : (i + 1 - i - 1) / 1 + 1 = 1 := by omega
  rw [this]; rfl

theorem sliceLen_empty_pos (s e st : Int) (h : st > 0) (he : e ≤ s) : sliceLen s e st = 0 := by
  unfold sliceLen
  have : ¬ s < e := by omega
  simp [h, this]

theorem enumerate_one {α} (l : List α) (s st : Int) :
    enumerate l s st 1 = (if 0 ≤ s then (l[s.toNat]?).toList else []) := by
  simp only [enumerate, List.append_nil]

end OV.Index

namespace OV.Index

theorem enumerate_drop {α} (l : List α) (k n : Nat) (h : k + n = l.length) :
    enumerate l (k : Int) 1 n = l.drop k := by
  induction n generalizing k with
  | zero =>
    have : k = l.length := by omega
    subst this; simp [enumerate]
  | succ n ih =>
    have hk : k < l.length := by omega
    have h0 : (0 : Int) ≤ (k : Int) := by omega
    have hcast : ((k : Int) + 1) = ((k + 1 : Nat) : Int) := by omega
    simp only [enumerate, h0, if_true, Int.toNat_natCast]
    rw [hcast, ih (k + 1) (by omega)]
    rw [List.getElem?_eq_getElem hk]
    simp only [Option.toList_some, List.singleton_append]
    exact (List.drop_eq_getElem_cons hk).symm

theorem pySliceList_full {α} (l : List α) : pySliceList l none none 1 = l := by
  unfold pySliceList pyAdjust sliceLen
  have h1 : ¬ ((1 : Int) < 0) := by decide
  have h2 : (1 : Int) > 0 := by decide
  simp only [h1, h2, if_true, if_false]
  by_cases hl : (0 : Int) < (l.length : Int)
  · simp only [hl, if_true]
    have : ((l.length : Int) - 0 - 1) / 1 + 1 = (l.length : Int) := by omega
    rw [this, Int.toNat_natCast]
    have := enumerate_drop l 0 l.length (by omega)
    simpa using this
  · have : l = [] := by
      cases l with
      | nil => rfl
      | cons a t => exact absurd (by simp only [List.length_cons]; omega) hl
    subst this; simp [enumerate]


/-! ### Facts used for eager mode's `slice.indices`-based bounds -/

theorem sliceLen_pos_step (s e st : Int) (h : st > 0) : sliceLen s e st = 0 ↔ e ≤ s := by
  unfold sliceLen
  simp only [h, if_true]
  constructor
  · intro hz
    by_cases hlt : s < e
    · simp only [hlt, if_true] at hz
      have h1 : 0 ≤ (e - s - 1) / st := Int.ediv_nonneg (by omega) (by omega)
      omega
    · omega
  · intro hle
    have : ¬ s < e := by omega
    simp [this]

theorem sliceLen_neg_step (s e st : Int) (h : st < 0) : sliceLen s e st = 0 ↔ s ≤ e := by
  unfold sliceLen
  have h1 : ¬ st > 0 := by omega
  simp only [h1, h, if_true, if_false]
  constructor
  · intro hz
    by_cases hlt : e < s
    · simp only [hlt, if_true] at hz
      have h2 : 0 ≤ (s - e - 1) / (-st) := Int.ediv_nonneg (by omega) (by omega)
      omega
    · omega
  · intro hle
    have : ¬ e < s := by omega
    simp [this]

/-- Range of CPython's adjusted bounds, positive step. -/
theorem pyAdjust_bounds_pos (d : Int) (lo hi : Option Int) (st : Int) (hd : 0 ≤ d) (h1 : st > 0) :
    0 ≤ (pyAdjust d lo hi st).1 ∧ (pyAdjust d lo hi st).1 ≤ d ∧
    0 ≤ (pyAdjust d lo hi st).2 ∧ (pyAdjust d lo hi st).2 ≤ d := by
  have h2 : ¬ st < 0 := by omega
  unfold pyAdjust
  rcases lo with _ | x <;> rcases hi with _ | y <;> simp only [h2, if_false] <;>
    (refine ⟨?_, ?_, ?_, ?_⟩ <;> (repeat' split) <;> omega)

/-- Range of CPython's adjusted bounds, negative step. -/
theorem pyAdjust_bounds_neg (d : Int) (lo hi : Option Int) (st : Int) (hd : 0 ≤ d) (h2 : st < 0) :
    -1 ≤ (pyAdjust d lo hi st).1 ∧ (pyAdjust d lo hi st).1 ≤ d - 1 ∧
    -1 ≤ (pyAdjust d lo hi st).2 ∧ (pyAdjust d lo hi st).2 ≤ d - 1 := by
  unfold pyAdjust
  rcases lo with _ | x <;> rcases hi with _ | y <;> simp only [h2, if_true] <;>
    (refine ⟨?_, ?_, ?_, ?_⟩ <;> (repeat' split) <;> omega)

end OV.Index
