import OV.Lemmas.C06SoundOr
import OV.Model.C06Exc
/-!
  C06 — the exception-aware matcher (`OV.Model.C06Exc`) against the total one (`OV.Model.C06Match`).

  * `Keeps`: every helper of the matcher leaves the partial matches below the current one alone and, when it
    returns `True`, does not touch the success flag of the current one.
  * `StepX B …`: for patterns without tagged dispatch-OR (`B`), started on a successful current partial match:
    the exception-aware function does not raise, returns what the total function returns, on a stack
    `c :: rest` the result is `c' :: rest`, and a `True` result keeps the current partial match successful.
    (Outside `B` the two models differ also where nothing is raised: `nodeStepX` refuses every new node once
    the current partial match is failed — the truth value of the `MatchResult` that `NodePattern.matches`
    returns — while `nodeStep` goes on; both end in "no match".)
-/
namespace OV.C06

/-- result on `c :: rest`: the stack below is untouched, `True` keeps the success flag -/
def Keeps (c : Partial) (rest : Stack) (r : R) : Prop :=
  ∃ c', r.2 = c' :: rest ∧ (r.1 = true → c'.ok = c.ok)

theorem Keeps.refl (c : Partial) (rest : Stack) : Keeps c rest (true, c :: rest) := ⟨c, rfl, fun _ => rfl⟩

theorem Keeps.failed (c : Partial) (rest : Stack) : Keeps c rest (fail (c :: rest)) :=
  ⟨_, rfl, fun h => by simp [fail] at h⟩

theorem Keeps.seq {c : Partial} {rest : Stack} {r1 : R} (h1 : Keeps c rest r1) {f : Stack → R}
    (hf : ∀ c1, Keeps c1 rest (f (c1 :: rest))) : Keeps c rest (if !r1.1 then r1 else f r1.2) := by
  obtain ⟨c1, e1, k1⟩ := h1
  cases hb : r1.1
  · exact ⟨c1, by simpa using e1, fun h => by simp [hb] at h⟩
  · obtain ⟨c2, e2, k2⟩ := hf c1
    simp only [Bool.not_true, Bool.false_eq_true, ↓reduceIte, e1]
    exact ⟨c2, e2, fun h => (k2 h).trans (k1 hb)⟩

theorem bind_keeps (c : Partial) (rest : Stack) (k : String) (b : Bound) : Keeps c rest (bind (c :: rest) k b) := by
  unfold bind
  split
  · split
    · exact Keeps.refl c rest
    · exact Keeps.failed c rest
  · exact ⟨_, rfl, fun _ => rfl⟩

theorem bindValue_keeps (p : GPat) (c : Partial) (rest : Stack) (vp : VPat) (v : Option ValueId) :
    Keeps c rest (bindValue p (c :: rest) vp v) := by
  unfold bindValue
  split
  · exact bind_keeps c rest _ _
  · split
    · exact Keeps.refl c rest
    · split
      · split
        · exact Keeps.refl c rest
        · exact Keeps.failed c rest
      · exact ⟨_, rfl, fun _ => rfl⟩

theorem bindValue2_keeps (f2 : Bool) (p : GPat) (c : Partial) (rest : Stack) (vp : VPat) (v : Option ValueId) :
    Keeps c rest (bindValue2 f2 p (c :: rest) vp v) := by
  unfold bindValue2
  have h := bindValue_keeps p c rest vp v
  dsimp only
  split
  · next hc =>
    simp only [Bool.and_eq_true] at hc
    obtain ⟨c1, e1, k1⟩ := h
    split
    · split
      · rw [e1]
        exact ⟨_, rfl, fun _ => k1 hc.1.1.2⟩
      · exact ⟨c1, e1, k1⟩
    · exact ⟨c1, e1, k1⟩
  · exact h

theorem matchConstant_keeps (E : Env) (k : ConstPat) (x : ValueId) (c : Partial) (rest : Stack) :
    Keeps c rest (matchConstant E k x (c :: rest)) := by
  unfold matchConstant
  split
  · exact Keeps.failed c rest
  · split
    · exact Keeps.refl c rest
    · exact Keeps.failed c rest

theorem attrsLoop_keeps (n : GNode) : ∀ (l : List (String × APat)) (c : Partial) (rest : Stack),
    Keeps c rest (attrsLoop n l (c :: rest))
  | [], c, rest => Keeps.refl c rest
  | (name, ap) :: more, c, rest => by
    unfold attrsLoop
    split
    · exact Keeps.failed c rest
    · split
      · exact Keeps.seq (bind_keeps c rest _ _) (fun c1 => attrsLoop_keeps n more c1 rest)
      · exact attrsLoop_keeps n more c rest

theorem nodeMatches_keeps (np : NPat) (n : GNode) (c : Partial) (rest : Stack) :
    Keeps c rest (nodeMatches np n (c :: rest)) := by
  unfold nodeMatches
  split
  · exact Keeps.failed c rest
  · split
    · exact Keeps.failed c rest
    · dsimp only
      obtain ⟨c1, e1, k1⟩ := attrsLoop_keeps n np.attrs c rest
      split
      · exact ⟨c1, e1, k1⟩
      · next ht =>
        split
        · rw [e1]
          exact ⟨_, rfl, fun h => by simp [fail] at h⟩
        · exact ⟨c1, e1, k1⟩

theorem bindOutputs_keeps (fix : Bool) (p : GPat) (np : NPId) (gouts : List ValueId) :
    ∀ (l : List (Option String)) (i : Nat) (c : Partial) (rest : Stack),
    Keeps c rest (bindOutputs fix p np gouts l i (c :: rest))
  | [], _, c, rest => Keeps.refl c rest
  | _ :: more, i, c, rest => by
    unfold bindOutputs
    split
    · split
      · exact Keeps.failed c rest
      · exact ⟨c, rfl, fun h => by simp at h⟩
    · exact Keeps.seq (bindValue_keeps p c rest _ _) (fun c1 => bindOutputs_keeps fix p np gouts more (i + 1) c1 rest)

/-! ## the exception-aware functions against the total ones -/

/-- `x` (exception-aware) against `pr` (total) on the stack `c :: rest`; `B` = "no tagged dispatch-OR here" -/
structure StepX (B : Prop) (x : RX) (pr : R) (c : Partial) (rest : Stack) : Prop where
  ref : B → c.ok = true → ∀ r, x = .ok r → pr = r ∧ ∃ c', r.2 = c' :: rest ∧ (r.1 = true → c'.ok = true)
  tot : B → c.ok = true → ∃ r, x = .ok r

theorem StepX.mk' {B : Prop} {x : RX} {pr : R} {c : Partial} {rest : Stack}
    (h : B → c.ok = true → ∃ r, x = .ok r ∧ pr = r ∧ ∃ c', r.2 = c' :: rest ∧ (r.1 = true → c'.ok = true)) :
    StepX B x pr c rest :=
  ⟨fun hb h0 r he => by
      obtain ⟨r', hx, hp, hs⟩ := h hb h0
      rw [hx] at he
      cases he
      exact ⟨hp, hs⟩,
    fun hb h0 => let ⟨r, hx, _⟩ := h hb h0; ⟨r, hx⟩⟩

theorem StepX.run {B : Prop} {x : RX} {pr : R} {c : Partial} {rest : Stack} (h : StepX B x pr c rest)
    (hb : B) (h0 : c.ok = true) :
    ∃ r, x = .ok r ∧ pr = r ∧ ∃ c', r.2 = c' :: rest ∧ (r.1 = true → c'.ok = true) := by
  obtain ⟨r, hx⟩ := h.tot hb h0
  exact ⟨r, hx, h.ref hb h0 r hx⟩

theorem StepX.ofKeeps {B : Prop} {c : Partial} {rest : Stack} {r : R} (h : Keeps c rest r) :
    StepX B (.ok r) r c rest := by
  obtain ⟨c', e, k⟩ := h
  exact ⟨fun _ hc r' he => by cases he; exact ⟨rfl, c', e, fun ht => (k ht).trans hc⟩, fun _ _ => ⟨r, rfl⟩⟩

/-- a `False` result, whatever the stack top: nothing to show about the flag -/
theorem StepX.ofFalse {B : Prop} {c c1 : Partial} {rest : Stack} : StepX B (.ok (false, c1 :: rest)) (false, c1 :: rest) c rest :=
  ⟨(fun _ _ r he => by cases he; exact ⟨rfl, c1, rfl, fun h => by simp at h⟩), fun _ _ => ⟨_, rfl⟩⟩

theorem StepX.weaken {B B' : Prop} {x : RX} {pr : R} {c : Partial} {rest : Stack} (h : StepX B x pr c rest)
    (hb : B' → B) : StepX B' x pr c rest :=
  ⟨fun b hc r he => h.ref (hb b) hc r he, fun b => h.tot (hb b)⟩

def RecX (E : Env) (recX : NPId → NodeId → Stack → RX) (rec : NPId → NodeId → Stack → R) : Prop :=
  ∀ np n c rest, StepX (E.p.backOk = true) (recX np n (c :: rest)) (rec np n (c :: rest)) c rest

theorem matchNodeOutputX_spec (E : Env) {recX : NPId → NodeId → Stack → RX} {rec : NPId → NodeId → Stack → R}
    (hrec : RecX E recX rec) (np : NPId) (idx : Nat) (x : ValueId) (c : Partial) (rest : Stack) :
    StepX (E.p.backOk = true) (matchNodeOutputX E recX np idx x (c :: rest))
      (matchNodeOutput E rec np idx x (c :: rest)) c rest := by
  unfold matchNodeOutputX matchNodeOutput
  cases hp : E.g.producer x with
  | none => exact StepX.ofKeeps (Keeps.failed c rest)
  | some n =>
    dsimp only
    by_cases hi : (E.g.index x != some idx) = true
    · simp only [hi, ↓reduceIte]
      exact StepX.ofKeeps (Keeps.failed c rest)
    · simp only [hi, ↓reduceIte]
      exact hrec np n c rest

theorem Keeps.elim {c : Partial} {rest : Stack} {r : R} (h : Keeps c rest r) :
    ∃ b c1, r = (b, c1 :: rest) ∧ (b = true → c1.ok = c.ok) := by
  obtain ⟨c1, e, k⟩ := h
  refine ⟨r.1, c1, ?_, k⟩
  cases r
  simp_all

theorem StepX.ite {B : Prop} {cond : Prop} [Decidable cond] {x1 x2 : RX} {p1 p2 : R} {c : Partial} {rest : Stack}
    (h1 : cond → StepX B x1 p1 c rest) (h2 : ¬cond → StepX B x2 p2 c rest) :
    StepX B (if cond then x1 else x2) (if cond then p1 else p2) c rest := by
  by_cases h : cond
  · simp only [h, ↓reduceIte]; exact h1 h
  · simp only [h, ↓reduceIte]; exact h2 h

/-- change the partial match the success-flag clauses refer to -/
theorem StepX.reref {B : Prop} {x : RX} {pr : R} {c0 c1 : Partial} {rest : Stack}
    (hc : B → c0.ok = true → c1.ok = true) (h : StepX B x pr c1 rest) : StepX B x pr c0 rest :=
  ⟨fun b h0 r he => h.ref b (hc b h0) r he, fun b h0 => h.tot b (hc b h0)⟩

/-- an exception-aware sub-call first -/
theorem StepX.bind {B : Prop} {x : RX} {pr : R} {c : Partial} {rest : Stack} (h : StepX B x pr c rest)
    {K : R → RX} {Kp : R → R}
    (hk : ∀ b c1, (B → c.ok = true → b = true → c1.ok = true) →
      StepX B (K (b, c1 :: rest)) (Kp (b, c1 :: rest)) c rest) :
    StepX B (match x with | .error e => .error e | .ok r2 => K r2) (Kp pr) c rest := by
  refine StepX.mk' (fun hb h0 => ?_)
  obtain ⟨r2, hx, hp, c1, e1, k1⟩ := h.run hb h0
  have hr2 : r2 = (r2.1, c1 :: rest) := by cases r2; simp_all
  rw [hx, hp]
  dsimp only
  rw [hr2]
  exact (hk r2.1 c1 (fun _ _ => k1)).run hb h0

theorem tagBind_eq (tagVar : Option String) (t : Int) (st : Stack) : tagBind tagVar t st = (tagBindR tagVar t st).2 := by
  cases tagVar <;> rfl

theorem tagBindR_keeps (tagVar : Option String) (t : Int) (c : Partial) (rest : Stack) :
    Keeps c rest (tagBindR tagVar t (c :: rest)) := by
  cases tagVar with
  | none => exact Keeps.refl c rest
  | some tv => exact bind_keeps c rest tv _

theorem bind_false (c : Partial) (rest : Stack) (k : String) (b : Bound) (h : (bind (c :: rest) k b).1 = false) :
    topOk (bind (c :: rest) k b).2 = false := by
  unfold bind at h ⊢
  split
  · next b' h1 =>
    rw [h1] at h
    dsimp only at h
    by_cases he : (b' == b) = true
    · simp [he] at h
    · simp only [he]
      rfl
  · next hn => simp [hn] at h

theorem tagBindR_false (tagVar : Option String) (t : Int) (c : Partial) (rest : Stack)
    (h : (tagBindR tagVar t (c :: rest)).1 = false) : topOk (tagBindR tagVar t (c :: rest)).2 = false := by
  cases tagVar with
  | none => simp [tagBindR] at h
  | some tv => exact bind_false c rest tv _ h

theorem merge_ok (fix3 : Bool) (prev cur : Partial) :
    (if fix3 then prev.mergeAll cur else prev.merge cur).ok = prev.ok := by
  cases fix3 <;> rfl

mutual
theorem matchValueX_spec (E : Env) (recX : NPId → NodeId → Stack → RX) (rec : NPId → NodeId → Stack → R)
    (hrec : RecX E recX rec) (hf8 : E.fixF8 = true) :
    ∀ (vp : VPat) (v : Option ValueId) (c : Partial) (rest : Stack),
      StepX (E.p.backOk = true ∧ vp.backOk = true) (matchValueX E recX vp v (c :: rest))
        (matchValue E rec vp v (c :: rest)) c rest
  | .any, v, c, rest => by
    unfold matchValueX matchValue
    exact StepX.ite (fun _ => .ofKeeps (Keeps.failed c rest)) (fun _ => .ofKeeps (Keeps.refl c rest))
  | .var id name isVar canNone check, v, c, rest => by
    unfold matchValueX matchValue
    refine StepX.ite (fun _ => .ofKeeps (Keeps.failed c rest)) (fun _ => ?_)
    dsimp only
    have h1 := bindValue2_keeps E.fixF2 E.p c rest (.var id name isVar canNone check) v
    generalize bindValue2 E.fixF2 E.p (c :: rest) (.var id name isVar canNone check) v = r1 at h1 ⊢
    obtain ⟨b, c1, rfl, k⟩ := h1.elim
    cases b
    · simp only [Bool.not_false, ↓reduceIte]
      exact .ofKeeps ⟨c1, rfl, fun h => by simp at h⟩
    · simp only [Bool.not_true, Bool.false_eq_true, ↓reduceIte]
      refine StepX.reref (fun _ h0 => (k rfl).trans h0) ?_
      exact StepX.ite (fun _ => .ofKeeps (Keeps.failed c1 rest)) (fun _ => .ofKeeps (Keeps.refl c1 rest))
  | .const id kc, v, c, rest => by
    unfold matchValueX matchValue
    refine StepX.ite (fun _ => .ofKeeps (Keeps.failed c rest)) (fun _ => ?_)
    dsimp only
    have h1 := bindValue_keeps E.p c rest (.const id kc) v
    generalize bindValue E.p (c :: rest) (.const id kc) v = r1 at h1 ⊢
    obtain ⟨b, c1, rfl, k⟩ := h1.elim
    cases b
    · simp only [Bool.not_false, ↓reduceIte]
      exact .ofKeeps ⟨c1, rfl, fun h => by simp at h⟩
    · simp only [Bool.not_true, Bool.false_eq_true, ↓reduceIte]
      refine StepX.reref (fun _ h0 => (k rfl).trans h0) ?_
      cases v with
      | none => exact .ofKeeps (Keeps.failed c1 rest)
      | some x => exact .ofKeeps (matchConstant_keeps E kc x c1 rest)
  | .out np idx, v, c, rest => by
    unfold matchValueX matchValue
    refine StepX.ite (fun _ => .ofKeeps (Keeps.failed c rest)) (fun _ => ?_)
    dsimp only
    have h1 := bindValue_keeps E.p c rest (.out np idx) v
    generalize bindValue E.p (c :: rest) (.out np idx) v = r1 at h1 ⊢
    obtain ⟨b, c1, rfl, k⟩ := h1.elim
    cases b
    · simp only [Bool.not_false, ↓reduceIte]
      exact .ofKeeps ⟨c1, rfl, fun h => by simp at h⟩
    · simp only [Bool.not_true, Bool.false_eq_true, ↓reduceIte]
      refine StepX.reref (fun _ h0 => (k rfl).trans h0) ?_
      cases v with
      | none => exact .ofKeeps (Keeps.failed c1 rest)
      | some x => exact (matchNodeOutputX_spec E hrec np idx x c1 rest).weaken And.left
  | .orD id name tagVar alts, v, c, rest => by
    unfold matchValueX matchValue
    refine StepX.ite (fun _ => .ofKeeps (Keeps.failed c rest)) (fun _ => ?_)
    dsimp only
    have h1 := bindValue_keeps E.p c rest (.orD id name tagVar alts) v
    generalize bindValue E.p (c :: rest) (.orD id name tagVar alts) v = r1 at h1 ⊢
    obtain ⟨b, c1, rfl, k⟩ := h1.elim
    cases b
    · simp only [Bool.not_false, ↓reduceIte]
      exact .ofKeeps ⟨c1, rfl, fun h => by simp at h⟩
    · simp only [Bool.not_true, Bool.false_eq_true, ↓reduceIte]
      refine StepX.reref (fun _ h0 => (k rfl).trans h0) ?_
      cases v with
      | none => exact .ofKeeps (Keeps.failed c1 rest)
      | some x =>
        dsimp only
        cases hd : getDispatch E.g alts x with
        | none => exact .ofKeeps (Keeps.failed c1 rest)
        | some a =>
          dsimp only
          have h2 := bindValue_keeps E.p c1 rest (.out a.np a.idx) (some x)
          generalize bindValue E.p (c1 :: rest) (.out a.np a.idx) (some x) = r2 at h2 ⊢
          obtain ⟨b2, c2, rfl, k2⟩ := h2.elim
          cases b2
          · simp only [Bool.not_false, ↓reduceIte]
            exact .ofKeeps ⟨c2, rfl, fun h => by simp at h⟩
          · simp only [Bool.not_true, Bool.false_eq_true, ↓reduceIte]
            refine StepX.reref (fun _ h0 => (k2 rfl).trans h0) ?_
            cases tagVar with
            | none =>
              dsimp only
              refine StepX.bind (K := fun r2 => if r2.1 = true then .ok r2 else .ok r2)
                (Kp := fun r2 => if r2.1 = true then r2 else r2)
                ((matchNodeOutputX_spec E hrec a.np a.idx x c2 rest).weaken And.left) ?_
              intro b3 c3 k3
              simp only [ite_self]
              exact ⟨(fun hb h0 r he => by cases he; exact ⟨rfl, c3, rfl, k3 hb h0⟩), fun _ _ => ⟨_, rfl⟩⟩
            | some t =>
              dsimp only
              refine StepX.bind (K := fun r2 => if r2.1 = true then .ok (true, (bind r2.2 t (.tag a.tag)).2) else .ok r2)
                (Kp := fun r2 => if r2.1 = true then (true, (bind r2.2 t (.tag a.tag)).2) else r2)
                ((matchNodeOutputX_spec E hrec a.np a.idx x c2 rest).weaken And.left) ?_
              intro b3 c3 k3
              cases b3
              · simp only [Bool.false_eq_true, ↓reduceIte]
                exact StepX.ofFalse
              · simp only [↓reduceIte]
                obtain ⟨c4, e4, _⟩ := bind_keeps c3 rest t (.tag a.tag)
                exact ⟨(fun hb _ r he => by
                  cases he
                  exact absurd hb.2 (by simp [VPat.backOk])), fun _ _ => ⟨_, rfl⟩⟩
  | .orB id name tagVar tags alts, v, c, rest => by
    unfold matchValueX matchValue
    refine StepX.ite (fun _ => .ofKeeps (Keeps.failed c rest)) (fun _ => ?_)
    dsimp only
    have h1 := bindValue_keeps E.p c rest (.orB id name tagVar tags alts) v
    generalize bindValue E.p (c :: rest) (.orB id name tagVar tags alts) v = r1 at h1 ⊢
    obtain ⟨b, c1, rfl, k⟩ := h1.elim
    cases b
    · simp only [Bool.not_false, ↓reduceIte]
      exact .ofKeeps ⟨c1, rfl, fun h => by simp at h⟩
    · simp only [Bool.not_true, Bool.false_eq_true, ↓reduceIte]
      refine StepX.reref (fun _ h0 => (k rfl).trans h0) ?_
      exact (matchAltsX_spec E recX rec hrec hf8 alts tags tagVar v c1 rest).weaken
        (fun h => ⟨h.1, by simpa [VPat.backOk] using h.2⟩)
theorem matchAltsX_spec (E : Env) (recX : NPId → NodeId → Stack → RX) (rec : NPId → NodeId → Stack → R)
    (hrec : RecX E recX rec) (hf8 : E.fixF8 = true) :
    ∀ (alts : List VPat) (tags : List Int) (tagVar : Option String) (v : Option ValueId) (c : Partial)
      (rest : Stack),
      StepX (E.p.backOk = true ∧ backOkL alts = true) (matchAltsX E recX alts tags tagVar v (c :: rest))
        (matchAlts E rec alts tags tagVar v (c :: rest)) c rest
  | [], tags, tagVar, v, c, rest => by
    unfold matchAltsX matchAlts
    exact .ofKeeps (Keeps.failed c rest)
  | a :: more, tags, tagVar, v, c, rest => by
    have iha : StepX (E.p.backOk = true ∧ a.backOk = true) (matchValueX E recX a v (enter (c :: rest)))
        (matchValue E rec a v (enter (c :: rest))) {} (c :: rest) :=
      matchValueX_spec E recX rec hrec hf8 a v {} (c :: rest)
    have ihm := (matchAltsX_spec E recX rec hrec hf8 more tags.tail tagVar v c rest).weaken
      (B' := E.p.backOk = true ∧ backOkL (a :: more) = true)
      (fun h => ⟨h.1, by have := h.2; simp only [backOkL, Bool.and_eq_true] at this; exact this.2⟩)
    have hBa : (E.p.backOk = true ∧ backOkL (a :: more) = true) → (E.p.backOk = true ∧ a.backOk = true) :=
      fun h => ⟨h.1, by have := h.2; simp only [backOkL, Bool.and_eq_true] at this; exact this.1⟩
    refine StepX.mk' (fun hb h0 => ?_)
    obtain ⟨ra, hx, hp, cur, ecur, kcur⟩ := iha.run (hBa hb) rfl
    unfold matchAltsX matchAlts
    dsimp only
    rw [hx]
    obtain ⟨b1, st1⟩ := ra
    dsimp only at ecur kcur
    subst ecur
    rw [hp, tagBind_eq]
    dsimp only
    cases b1
    · simp only [Bool.false_eq_true, ↓reduceIte, abandon]
      exact ihm.run hb h0
    · simp only [↓reduceIte]
      have hcur : cur.ok = true := kcur rfl
      have h2 := tagBindR_keeps tagVar (tags.headD 0) cur (c :: rest)
      have h2f := tagBindR_false tagVar (tags.headD 0) cur (c :: rest)
      generalize tagBindR tagVar (tags.headD 0) (cur :: c :: rest) = rb at h2 h2f ⊢
      obtain ⟨b2, cur2, rfl, k2⟩ := h2.elim
      cases b2
      · have : topOk (cur2 :: c :: rest) = false := h2f rfl
        simp only [Bool.false_eq_true, ↓reduceIte, this, hf8, abandon]
        exact ihm.run hb h0
      · simp only [↓reduceIte]
        have hcur2 : cur2.ok = true := (k2 rfl).trans hcur
        unfold mergeTopX
        have htop : topOk (cur2 :: c :: rest) = cur2.ok := rfl
        rw [htop]
        simp only [hcur2, h0, Bool.not_true, Bool.false_eq_true, ↓reduceIte, mergeTop]
        exact ⟨_, rfl, rfl, _, rfl, fun _ => by rw [merge_ok]; exact h0⟩
end

theorem matchInputsX_spec {B : Prop} (mvX : VPat → Option ValueId → Stack → RX) (mv : VPat → Option ValueId → Stack → R) :
    ∀ (pairs : List (Option ValueId × Option VPat)) (c : Partial) (rest : Stack),
      (∀ v vp, (v, some vp) ∈ pairs → ∀ c rest, StepX B (mvX vp v (c :: rest)) (mv vp v (c :: rest)) c rest) →
      StepX B (matchInputsX mvX pairs (c :: rest)) (matchInputs mv pairs (c :: rest)) c rest
  | [], c, rest, _ => by
    unfold matchInputsX matchInputs
    exact .ofKeeps (Keeps.refl c rest)
  | (v, none) :: more, c, rest, h => by
    unfold matchInputsX matchInputs
    exact StepX.ite (fun _ => matchInputsX_spec mvX mv more c rest (fun v vp hm => h v vp (List.mem_cons_of_mem _ hm)))
      (fun _ => .ofKeeps (Keeps.failed c rest))
  | (v, some vp) :: more, c, rest, h => by
    unfold matchInputsX matchInputs
    dsimp only
    refine StepX.bind (K := fun r => if (!r.1) = true then .ok r else matchInputsX mvX more r.2)
      (Kp := fun r => if (!r.1) = true then r else matchInputs mv more r.2)
      (h v vp (List.mem_cons_self ..) c rest) ?_
    intro b c1 k
    cases b
    · simp only [Bool.not_false, ↓reduceIte]
      exact StepX.ofFalse
    · simp only [Bool.not_true, Bool.false_eq_true, ↓reduceIte]
      exact (matchInputsX_spec mvX mv more c1 rest (fun v vp hm => h v vp (List.mem_cons_of_mem _ hm))).reref
        (fun hb h0 => k hb h0 rfl)

theorem nodeStepX_spec (E : Env) (mvX : VPat → Option ValueId → Stack → RX) (mv : VPat → Option ValueId → Stack → R)
    (hmv : ∀ vp, (E.p.backOk = true → vp.backOk = true) → ∀ v c rest,
      StepX (E.p.backOk = true) (mvX vp v (c :: rest)) (mv vp v (c :: rest)) c rest)
    (npid : NPId) (n : NodeId) (c : Partial) (rest : Stack) :
    StepX (E.p.backOk = true) (nodeStepX E mvX npid n (c :: rest)) (nodeStep E mv npid n (c :: rest)) c rest := by
  unfold nodeStepX nodeStep
  cases hl : lookupNode (c :: rest) npid with
  | some m =>
    dsimp only
    exact StepX.ite (fun _ => .ofKeeps (Keeps.refl c rest)) (fun _ => .ofKeeps (Keeps.failed c rest))
  | none =>
    dsimp only
    cases hP : E.p.nodes[npid]? with
    | none => exact .ofKeeps (Keeps.failed c rest)
    | some np =>
      cases hG : E.g.nodes[n]? with
      | none => exact .ofKeeps (Keeps.failed c rest)
      | some gn =>
        dsimp only
        have h1 := nodeMatches_keeps np gn c rest
        generalize nodeMatches np gn (c :: rest) = r1 at h1 ⊢
        obtain ⟨b, c1, rfl, k⟩ := h1.elim
        cases b
        · simp only [Bool.false_and, Bool.not_false, ↓reduceIte]
          exact .ofKeeps ⟨_, rfl, fun h => by simp [fail] at h⟩
        · have htop : topOk (c1 :: rest) = c1.ok := rfl
          rw [htop]
          cases hc1 : c1.ok
          · -- the current partial match is failed: impossible when started successful (`k`)
            exact StepX.mk' (fun _ h0 => by rw [← k rfl, hc1] at h0; cases h0)
          simp only [Bool.and_self, Bool.not_true, Bool.false_eq_true, ↓reduceIte]
          refine StepX.reref (fun _ h0 => (k rfl).trans h0) ?_
          have hbn : bindNode (c1 :: rest) npid n =
              { c1 with nodes := c1.nodes ++ [n], nb := c1.nb ++ [(npid, n)] } :: rest := rfl
          rw [hbn]
          refine StepX.reref (c1 := { c1 with nodes := c1.nodes ++ [n], nb := c1.nb ++ [(npid, n)] })
            (fun _ h0 => h0) ?_
          generalize ({ c1 with nodes := c1.nodes ++ [n], nb := c1.nb ++ [(npid, n)] } : Partial) = c2
          refine StepX.ite (fun _ => StepX.ofFalse) (fun _ => ?_)
          refine StepX.bind (K := fun r2 => if (!r2.1) = true then .ok r2 else
              .ok (bindOutputs E.fixF1 E.p npid gn.outputs np.outputs 0 r2.2))
            (Kp := fun r2 => if (!r2.1) = true then r2 else bindOutputs E.fixF1 E.p npid gn.outputs np.outputs 0 r2.2)
            (matchInputsX_spec mvX mv (zipPad gn.inputs np.inputs) c2 rest (fun v vp hm c' rest' =>
              hmv vp (fun hb => backOk_input hb hP (zipPad_mem_snd _ _ _ _ hm)) v c' rest')) ?_
          intro b3 c3 k3
          cases b3
          · simp only [Bool.not_false, ↓reduceIte]
            exact StepX.ofFalse
          · simp only [Bool.not_true, Bool.false_eq_true, ↓reduceIte]
            exact (StepX.ofKeeps (bindOutputs_keeps E.fixF1 E.p npid gn.outputs np.outputs 0 c3 rest)).reref
              (fun hb h0 => k3 hb h0 rfl)

theorem matchNodeX_spec (E : Env) (hf8 : E.fixF8 = true) : ∀ f, RecX E (matchNodeX E f) (matchNode E f)
  | 0 => fun np n c rest => by
    unfold matchNodeX matchNode
    exact .ofKeeps (Keeps.failed c rest)
  | f + 1 => fun np n c rest => by
    unfold matchNodeX matchNode
    exact nodeStepX_spec E _ _ (fun vp hvp v c rest =>
      (matchValueX_spec E _ _ (matchNodeX_spec E hf8 f) hf8 vp v c rest).weaken (fun hb => ⟨hb, hvp hb⟩)) np n c rest

theorem matchOutputNodesX_spec (E : Env) (hf8 : E.fixF8 = true) :
    ∀ (l : List (NPId × NodeId)) (c : Partial) (rest : Stack),
      StepX (E.p.backOk = true) (matchOutputNodesX E l (c :: rest)) (matchOutputNodes E l (c :: rest)) c rest
  | [], c, rest => by
    unfold matchOutputNodesX matchOutputNodes
    exact .ofKeeps (Keeps.refl c rest)
  | (np, n) :: more, c, rest => by
    unfold matchOutputNodesX matchOutputNodes
    dsimp only
    refine StepX.bind (K := fun r => if (!r.1) = true then .ok r else matchOutputNodesX E more r.2)
      (Kp := fun r => if (!r.1) = true then r else matchOutputNodes E more r.2)
      (matchNodeX_spec E hf8 E.p.fuel np n c rest) ?_
    intro b c1 k
    cases b
    · simp only [Bool.not_false, ↓reduceIte]
      exact StepX.ofFalse
    · simp only [Bool.not_true, Bool.false_eq_true, ↓reduceIte]
      exact (matchOutputNodesX_spec E hf8 more c1 rest).reref (fun hb h0 => k hb h0 rfl)

/-! ## top level -/

theorem multiMatchX_ref (E : Env) (hf8 : E.fixF8 = true) (hb : E.p.backOk = true) (rm : Bool) (combo : List NodeId)
    (m : Result) (h : multiMatchX E rm combo = .ok m) : multiMatch E rm combo = m := by
  unfold multiMatchX at h
  unfold multiMatch
  cases hx : matchOutputNodesX E (E.p.outputNodes.zip combo) [{}] with
  | error e => rw [hx] at h; cases h
  | ok r =>
    rw [hx] at h
    cases h
    rw [((matchOutputNodesX_spec E hf8 _ {} []).ref hb rfl r hx).1]

theorem multiMatchX_tot (E : Env) (hf8 : E.fixF8 = true) (hb : E.p.backOk = true) (rm : Bool) (combo : List NodeId) :
    ∃ m, multiMatchX E rm combo = .ok m := by
  obtain ⟨r, hr⟩ := (matchOutputNodesX_spec E hf8 (E.p.outputNodes.zip combo) {} []).tot hb rfl
  exact ⟨finish E rm r, by unfold multiMatchX; rw [hr]⟩

theorem firstMatchX_ref (E : Env) (hf8 : E.fixF8 = true) (hb : E.p.backOk = true) (rm : Bool) :
    ∀ (l : List (List NodeId)) (last : Option Result) (m : Result),
      firstMatchX E rm l last = .ok m → firstMatch E rm l last = m
  | [], last, m, h => by
    unfold firstMatchX at h
    cases h
    rfl
  | c :: cs, last, m, h => by
    unfold firstMatchX at h
    unfold firstMatch
    cases hx : multiMatchX E rm c with
    | error e => rw [hx] at h; cases h
    | ok m1 =>
      rw [hx] at h
      dsimp only at h ⊢
      rw [multiMatchX_ref E hf8 hb rm c m1 hx]
      split at h
      · next hok => cases h; simp only [hok, ↓reduceIte]
      · next hok =>
        simp only [hok, ↓reduceIte]
        exact firstMatchX_ref E hf8 hb rm cs _ m h

theorem firstMatchX_tot (E : Env) (hf8 : E.fixF8 = true) (hb : E.p.backOk = true) (rm : Bool) :
    ∀ (l : List (List NodeId)) (last : Option Result), ∃ m, firstMatchX E rm l last = .ok m
  | [], last => ⟨_, by unfold firstMatchX; rfl⟩
  | c :: cs, last => by
    obtain ⟨m1, h1⟩ := multiMatchX_tot E hf8 hb rm c
    unfold firstMatchX
    rw [h1]
    dsimp only
    split
    · exact ⟨_, rfl⟩
    · exact firstMatchX_tot E hf8 hb rm cs _

theorem matcherMatchX_ref (E : Env) (hf8 : E.fixF8 = true) (hb : E.p.backOk = true) (root : NodeId) (rm : Bool)
    (m : Result) (h : matcherMatchX E root rm = .ok m) : matcherMatch E root rm = m := by
  unfold matcherMatchX at h
  unfold matcherMatch
  split at h
  · next np hon =>
    rw [hon]
    dsimp only
    cases hx : matchNodeX E E.p.fuel np root [{}] with
    | error e => rw [hx] at h; cases h
    | ok r =>
      rw [hx] at h
      cases h
      rw [((matchNodeX_spec E hf8 E.p.fuel np root {} []).ref hb rfl r hx).1]
  · next hne =>
    split
    · next np hon => exact absurd hon (hne np)
    · exact firstMatchX_ref E hf8 hb rm _ none m h

theorem matcherMatchX_tot (E : Env) (hf8 : E.fixF8 = true) (hb : E.p.backOk = true) (root : NodeId) (rm : Bool) :
    ∃ m, matcherMatchX E root rm = .ok m := by
  unfold matcherMatchX
  split
  · next np hon =>
    obtain ⟨r, hr⟩ := (matchNodeX_spec E hf8 E.p.fuel np root {} []).tot hb rfl
    rw [hr]
    exact ⟨_, rfl⟩
  · exact firstMatchX_tot E hf8 hb rm _ none

theorem patternMatch_post (E : Env) (root : NodeId) (rm : Bool) :
    patternMatch E root rm = postMatch E (matcherMatch E root rm) := rfl

end OV.C06
