import OV.Model.C01Export
/-! The meaning of the main graph `to_model_proto` builds: the function's graph read with every attribute
reference resolved to the attribute's default (C01/C02, 3382c7a). -/
namespace OV.C01
variable {V : Type}

/-- The operator meaning `S` with the attribute parameters at their defaults `ds`: a reference `@p` an operator
receives is first replaced by the default of `p` (left alone when `p` has none). -/
def Sem.atDefaults (S : Sem V) (ds : List (Name × Option String)) : Sem V where
  op := fun d n ins attrs => S.op d n ins (attrs.map (exportAttr ds))
  truth := S.truth
  natOf := S.natOf
  ofNat := S.ofNat
  ofBool := S.ofBool
  attrLit := S.attrLit
  pyVars := S.pyVars

theorem loopIter_atDefaults (S : Sem V) (ds : List (Name × Option String))
    (body : Nat → V → List V → Option (V × List V)) :
    ∀ (fuel : Nat) (left : Option Nat) (i : Nat) (c : V) (st : List V),
      loopIter (S.atDefaults ds) body fuel left i c st = loopIter S body fuel left i c st := by
  intro fuel
  induction fuel with
  | zero => intro left i c st; rfl
  | succ n ih =>
    intro left i c st
    unfold loopIter
    cases left with
    | none =>
      simp only [Sem.atDefaults]
      cases S.truth c with
      | none => rfl
      | some b =>
        cases b with
        | false => rfl
        | true =>
          cases body i c st with
          | none => rfl
          | some p => exact ih _ _ _ _
    | some k =>
      cases k with
      | zero => rfl
      | succ k =>
        simp only [Sem.atDefaults]
        cases S.truth c with
        | none => rfl
        | some b =>
          cases b with
          | false => rfl
          | true =>
            cases body i c st with
            | none => rfl
            | some p => exact ih _ _ _ _

theorem loopResult_atDefaults (S : Sem V) (ds : List (Name × Option String))
    (body : Nat → V → List V → Option (V × List V)) (fuel : Nat) (bv cv : Option V) (st0 : List V) :
    loopResult (S.atDefaults ds) body fuel bv cv st0 = loopResult S body fuel bv cv st0 := by
  unfold loopResult
  have h1 : loopTrip (S.atDefaults ds) bv = loopTrip S bv := rfl
  have h2 : loopCond0 (S.atDefaults ds) cv = loopCond0 S cv := by cases cv <;> rfl
  rw [h1, h2]
  cases loopTrip S bv with
  | none => rfl
  | some left => exact loopIter_atDefaults S ds body fuel left 0 _ st0

theorem loopBodyFn_atDefaults (S : Sem V) (ds : List (Name × Option String)) (ev : Env V → Option (Env V))
    (ρ : Env V) (bi bo : List Name) :
    loopBodyFn (S.atDefaults ds) ev ρ bi bo = loopBodyFn S ev ρ bi bo := rfl

mutual
theorem exportNode_eval (S : Sem V) (ds : List (Name × Option String)) :
    ∀ (n : Node) (fuel : Nat) (ρ : Env V),
      evalNode S fuel ρ (exportNode ds n) = evalNode (S.atDefaults ds) fuel ρ n
  | .op dom name ins outs attrs, fuel, ρ => by
    simp only [exportNode, evalNode, Sem.atDefaults]
  | .ifN c outs tn to en eo, fuel, ρ => by
    simp only [exportNode, evalNode, exportNodes_eval S ds tn fuel ρ, exportNodes_eval S ds en fuel ρ]
    rfl
  | .loop b c inits outs bi bn bo, fuel, ρ => by
    cases fuel with
    | zero => simp only [exportNode, evalNode]
    | succ f =>
      simp only [exportNode, evalNode]
      have hb : (fun e => evalNodes S f e (exportNodes ds bn)) = (fun e => evalNodes (S.atDefaults ds) f e bn) :=
        funext (fun e => exportNodes_eval S ds bn f e)
      rw [hb, loopBodyFn_atDefaults]
      cases ρ.getOpt b <;> cases ρ.getOpt c <;> cases ρ.getMany inits <;>
        simp only [loopResult_atDefaults]
theorem exportNodes_eval (S : Sem V) (ds : List (Name × Option String)) :
    ∀ (ns : List Node) (fuel : Nat) (ρ : Env V),
      evalNodes S fuel ρ (exportNodes ds ns) = evalNodes (S.atDefaults ds) fuel ρ ns
  | [], fuel, ρ => by simp only [exportNodes, evalNodes]
  | n :: ns, fuel, ρ => by
    simp only [exportNodes, evalNodes, exportNode_eval S ds n fuel ρ]
    cases evalNode (S.atDefaults ds) fuel ρ n with
    | none => rfl
    | some ρ' => exact exportNodes_eval S ds ns fuel ρ'
end

/-- The main graph of the exported model means what the function's graph means with the attribute parameters at
their defaults. -/
theorem exportModel_eval (S : Sem V) {ds : List (Name × Option String)} {g g' : Graph}
    (h : exportModel ds g = .ok g') (fuel : Nat) (args : List V) :
    evalGraph S fuel g' args = evalGraph (S.atDefaults ds) fuel g args := by
  unfold exportModel at h
  cases hb : ds.any (fun d => d.2.isNone) with
  | true => simp [hb] at h
  | false =>
    simp only [hb, Bool.false_eq_true, if_false] at h
    cases h
    unfold evalGraph
    simp only [exportNodes_eval]

end OV.C01
