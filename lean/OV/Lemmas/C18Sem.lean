import OV.Model.C18Sem
import OV.Lemmas.C18WF
import Mathlib.Data.List.Nodup
import Mathlib.Data.List.Range
/-! Helper lemmas for C18 semantics: α-renaming (inlined body = function body), frame lemmas for
`evalNodes`, and the simulation between `build` and `replay`. -/
namespace OV.C18

variable {α : Type}

/-! ## environments -/

theorem bindOuts_other (e : Env α) : ∀ (os : List Nat) (vs : List α) (i : Nat), i ∉ os →
    bindOuts e os vs i = e i
  | [], _, _, _ => rfl
  | o :: os, vs, i, h => by
    simp only [List.mem_cons, not_or] at h
    simp only [bindOuts]
    rw [bindOuts_other _ os vs.tail i h.2]
    simp [Env.set, h.1]

theorem bindNames_other (e : NEnv α) : ∀ (os : List String) (vs : List α) (x : String), x ∉ os →
    bindNames e os vs x = e x
  | [], _, _, _ => rfl
  | o :: os, vs, x, h => by
    simp only [List.mem_cons, not_or] at h
    simp only [bindNames]
    rw [bindNames_other _ os vs.tail x h.2]
    simp [NEnv.set, h.1]

/-- binding distinct names / distinct ids position by position gives the same value at matching positions. -/
theorem bind_zip (e : Env α) (ne : NEnv α) : ∀ (names : List String) (ids : List Nat) (vs : List α),
    names.length = ids.length → names.Nodup → ids.Nodup →
    ∀ (x : String) (i : Nat), (x, i) ∈ names.zip ids → bindOuts e ids vs i = bindNames ne names vs x
  | [], [], _, _, _, _, x, i, h => by simp at h
  | [], _ :: _, _, hl, _, _, _, _, _ => by simp at hl
  | _ :: _, [], _, hl, _, _, _, _, _ => by simp at hl
  | n :: ns, d :: ds, vs, hl, hn, hd, x, i, h => by
    simp only [List.zip_cons_cons, List.mem_cons, Prod.mk.injEq] at h
    simp only [List.nodup_cons] at hn hd
    simp only [List.length_cons, Nat.add_right_cancel_iff] at hl
    simp only [bindOuts, bindNames]
    rcases h with ⟨rfl, rfl⟩ | h
    · rw [bindOuts_other _ ds _ _ hd.1, bindNames_other _ ns _ _ hn.1]
      simp [Env.set, NEnv.set]
    · exact bind_zip _ _ ns ds vs.tail hl hn.2 hd.2 x i h

/-! ## the inliner's value map -/

theorem vmapGet_cons (k : String) (v : Option Nat) (m : VMap) (x : String) :
    vmapGet ((k, v) :: m) x = if k = x then v else vmapGet m x := by
  unfold vmapGet
  by_cases h : k = x <;> simp [List.find?_cons, h]

theorem vmapGet_zip_miss : ∀ (names : List String) (ids : List Nat) (m : VMap) (x : String), x ∉ names →
    vmapGet ((names.zip (ids.map some)) ++ m) x = vmapGet m x
  | [], _, _, _, _ => by simp
  | _ :: _, [], _, _, _ => by simp
  | n :: ns, d :: ds, m, x, h => by
    simp only [List.mem_cons, not_or] at h
    simp only [List.map_cons, List.zip_cons_cons, List.cons_append, vmapGet_cons]
    rw [if_neg (fun e => h.1 e.symm)]
    exact vmapGet_zip_miss ns ds m x h.2

theorem vmapGet_zip_hit : ∀ (names : List String) (ids : List Nat) (m : VMap) (x : String),
    names.length = ids.length → x ∈ names →
    ∃ i, (x, i) ∈ names.zip ids ∧ vmapGet ((names.zip (ids.map some)) ++ m) x = some i
  | [], _, _, _, _, h => by simp at h
  | _ :: _, [], _, _, hl, _ => by simp at hl
  | n :: ns, d :: ds, m, x, hl, h => by
    simp only [List.length_cons, Nat.add_right_cancel_iff] at hl
    simp only [List.map_cons, List.zip_cons_cons, List.cons_append, vmapGet_cons, List.mem_cons,
      Prod.mk.injEq]
    by_cases e : n = x
    · exact ⟨d, Or.inl ⟨e.symm, rfl⟩, by simp [e]⟩
    · simp only [List.mem_cons] at h
      rcases h with h | h
      · exact absurd h.symm e
      · obtain ⟨i, hi, hv⟩ := vmapGet_zip_hit ns ds m x hl h
        exact ⟨i, Or.inr hi, by simp [e, hv]⟩

/-- the id-environment and the name-environment agree through the value map. -/
def Rel (m : VMap) (e : Env α) (ne : NEnv α) : Prop := ∀ x, (vmapGet m x).bind e = ne x

theorem range_add_nodup (n L : Nat) : ((List.range n).map (· + L)).Nodup := by
  refine List.Nodup.map_on ?_ List.nodup_range
  intro a _ b _ h
  omega

theorem newValues_ids (st : St) (names : List String) :
    (newValues st names).2 = (List.range names.length).map (· + st.L) ∧
    (newValues st names).1.L = st.L + names.length := by
  unfold newValues
  obtain ⟨a1, a2, _⟩ := newValuesK_spec (names.map VKey.raw) st
  simp only [List.length_map] at a1 a2
  exact ⟨a1, a2⟩

theorem clone_ins_vals (m : VMap) (e : Env α) (ne : NEnv α) (h : Rel m e ne) (ins : List (Option String)) :
    (ins.map (mapIn m)).map (fun i => i.bind e)
      = ins.map (fun i => i.bind ne) := by
  simp only [List.map_map]
  apply List.map_congr_left
  intro i _
  cases i with
  | none => rfl
  | some x => exact h x

theorem cloneNode_sim (S : OpSem α) (st : St) (m : VMap) (np : String) (n : FNode) (e : Env α) (ne : NEnv α)
    (hb : ∀ x id, vmapGet m x = some id → id < st.L) (hr : Rel m e ne) (hn : n.outs.Nodup) :
    Rel (cloneNode st m np n).2.1 (evalNode S e (cloneNode st m np n).2.2) (evalFNode S ne n) ∧
    (∀ x id, vmapGet (cloneNode st m np n).2.1 x = some id → id < (cloneNode st m np n).1.L) ∧
    (∀ i, i < st.L → evalNode S e (cloneNode st m np n).2.2 i = e i) ∧
    st.L ≤ (cloneNode st m np n).1.L := by
  obtain ⟨i1, i2⟩ := newValues_ids st (n.outs.map (fun o => if o = "" then "" else np ++ o))
  simp only [List.length_map] at i1 i2
  simp only [cloneNode, evalNode, evalFNode]
  rw [clone_ins_vals m e ne hr n.ins]
  generalize S.op n.domain n.op "" (plainAttrs n.attrs) (n.ins.map (fun i => i.bind ne)) = vs
  have hlen : n.outs.length = (newValues st (n.outs.map (fun o => if o = "" then "" else np ++ o))).2.length := by
    rw [i1]; simp
  have hnd : (newValues st (n.outs.map (fun o => if o = "" then "" else np ++ o))).2.Nodup := by
    rw [i1]; exact range_add_nodup _ _
  have hge : ∀ i ∈ (newValues st (n.outs.map (fun o => if o = "" then "" else np ++ o))).2, st.L ≤ i := by
    intro i hi
    rw [i1] at hi
    simp only [List.mem_map, List.mem_range] at hi
    obtain ⟨j, _, rfl⟩ := hi
    omega
  have hlt : ∀ i ∈ (newValues st (n.outs.map (fun o => if o = "" then "" else np ++ o))).2,
      i < st.L + n.outs.length := by
    intro i hi
    rw [i1] at hi
    simp only [List.mem_map, List.mem_range] at hi
    obtain ⟨j, hj, rfl⟩ := hi
    omega
  refine ⟨?_, ?_, ?_, by rw [i2]; omega⟩
  · intro x
    by_cases hx : x ∈ n.outs
    · obtain ⟨i, hi, hv⟩ := vmapGet_zip_hit n.outs _ m x hlen hx
      rw [hv]
      exact bind_zip e ne n.outs _ vs hlen hn hnd x i hi
    · rw [vmapGet_zip_miss n.outs _ m x hx, bindNames_other _ _ _ _ hx]
      cases hv : vmapGet m x with
      | none => have := hr x; simp only [hv] at this; exact this
      | some id =>
        have hid := hb x id hv
        have := hr x
        simp only [hv, Option.bind_some] at this ⊢
        rw [bindOuts_other _ _ _ _ (fun hc => by have := hge id hc; omega)]
        exact this
  · intro x id hv
    rw [i2]
    by_cases hx : x ∈ n.outs
    · obtain ⟨i, hi, hv'⟩ := vmapGet_zip_hit n.outs _ m x hlen hx
      rw [hv'] at hv
      have hid : i = id := Option.some.inj hv
      rw [← hid]
      exact hlt i (List.of_mem_zip hi).2
    · rw [vmapGet_zip_miss n.outs _ m x hx] at hv
      have := hb x id hv
      omega
  · intro i hi
    exact bindOuts_other _ _ _ _ (fun hc => by have := hge i hc; omega)

theorem cloneNodes_sim (S : OpSem α) (np : String) : ∀ (nodes : List FNode) (st : St) (m : VMap)
    (e : Env α) (ne : NEnv α),
    (∀ x id, vmapGet m x = some id → id < st.L) → Rel m e ne → (∀ n ∈ nodes, n.outs.Nodup) →
    Rel (cloneNodes st m np nodes).2.1 (evalNodes S e (cloneNodes st m np nodes).2.2)
      (nodes.foldl (evalFNode S) ne) ∧
    (∀ i, i < st.L → evalNodes S e (cloneNodes st m np nodes).2.2 i = e i) ∧
    st.L ≤ (cloneNodes st m np nodes).1.L
  | [], st, m, e, ne, _, hr, _ => by
    simp only [cloneNodes, evalNodes, List.foldl_nil]
    exact ⟨hr, fun _ _ => trivial, Nat.le_refl _⟩
  | n :: r, st, m, e, ne, hb, hr, hn => by
    obtain ⟨c1, c2, c3, c4⟩ := cloneNode_sim S st m np n e ne hb hr (hn n (by simp))
    obtain ⟨d1, d2, d3⟩ := cloneNodes_sim S np r (cloneNode st m np n).1 (cloneNode st m np n).2.1
      (evalNode S e (cloneNode st m np n).2.2) (evalFNode S ne n) c2 c1 (fun k hk => hn k (by simp [hk]))
    simp only [cloneNodes, evalNodes, List.foldl_cons] at d1 d2 d3 ⊢
    refine ⟨d1, ?_, Nat.le_trans c4 d3⟩
    intro i hi
    rw [d2 i (Nat.lt_of_lt_of_le hi c4)]
    exact c3 i hi

/-- formals bound to actuals: the initial value map and the initial name environment agree. -/
theorem rel_formals (e : Env α) : ∀ (formals : List String) (actuals : List (Option Nat)),
    Rel (formals.zip actuals) e (bindFormals formals (actuals.map (fun a => a.bind e)))
  | [], _ => by intro x; simp [vmapGet, bindFormals]
  | _ :: _, [] => by intro x; simp [vmapGet, bindFormals]
  | f :: fs, a :: as => by
    intro x
    simp only [List.zip_cons_cons, vmapGet_cons, List.map_cons, bindFormals, NEnv.set]
    by_cases h : f = x
    · simp [h]
    · have : ¬ x = f := fun h' => h h'.symm
      simp only [h, this, if_false]
      exact rel_formals e fs as x

theorem vmapGet_zip_bound (formals : List String) (actuals : List (Option Nat)) (L : Nat)
    (hb : ∀ i, some i ∈ actuals → i < L) : ∀ x id, vmapGet (formals.zip actuals) x = some id → id < L := by
  intro x id h
  unfold vmapGet at h
  cases hf : (formals.zip actuals).find? (fun e => e.1 = x) with
  | none => simp [hf] at h
  | some p =>
    simp only [hf] at h
    have hm := List.mem_of_find?_eq_some hf
    have := (List.of_mem_zip (a := p.1) (b := p.2) hm).2
    exact hb id (h ▸ this)

/-! ## what `doInline` appends -/

theorem cloneNodes_csd (np : String) : ∀ (nodes : List FNode) (st : St) (m : VMap),
    (cloneNodes st m np nodes).1.cur = st.cur
  | [], st, m => rfl
  | n :: r, st, m => by
    simp only [cloneNodes]
    rw [cloneNodes_csd np r]
    simp only [cloneNode, newValues]
    exact (newValuesK_csd _ st).1

theorem addInlined_nodes (finals : List Nat) : ∀ (nodes : List Node) (st : St),
    (addInlined st finals nodes).cur.nodes = st.cur.nodes ++ nodes
  | [], st => by simp [addInlined]
  | n :: r, st => by
    simp only [addInlined]
    rw [addInlined_nodes finals r]
    have hc : SameCore st (n.outs.foldl (fun s o =>
        if nameOf s o ≠ "" ∧ o ∉ finals then renameValue s o (qualifyValue s.cur) else s) st) := by
      apply SameCore.foldl
      intro s o
      split
      · exact SameCore.rename s o _
      · simp [SameCore]
    simp only [addNode, hc.2.2.2.2.1, List.append_assoc, List.singleton_append]

theorem renameFinals_core (guard : Nat → Bool) (st : St) (outs : List (Option Nat)) (d : Option (List String)) :
    SameCore st (renameFinals guard st outs d) := by
  cases d with
  | some desired =>
    simp only [renameFinals]
    apply SameCore.foldl
    intro s x
    cases x.1 with
    | none => simp [SameCore]
    | some id =>
      simp only []
      split
      · exact SameCore.rename s id _
      · simp [SameCore]
  | none =>
    simp only [renameFinals]
    apply SameCore.foldl
    intro s o
    cases o with
    | none => simp [SameCore]
    | some id =>
      simp only []
      split
      · exact SameCore.rename s id _
      · simp [SameCore]

theorem popScope_nodes (st : St) : (popScope st).cur.nodes = st.cur.nodes := by
  unfold popScope fail
  split
  · split <;> rfl
  · rfl

theorem cloneNodes_cache (np : String) : ∀ (nodes : List FNode) (st : St) (m : VMap),
    (cloneNodes st m np nodes).1.cache = st.cache
  | [], st, m => rfl
  | n :: r, st, m => by
    simp only [cloneNodes]
    rw [cloneNodes_cache np r]
    simp only [cloneNode, newValues]
    exact (newValuesK_spec _ st).2.2.2.1

theorem cloneNodes_inits (np : String) : ∀ (nodes : List FNode) (st : St) (m : VMap),
    (cloneNodes st m np nodes).1.inits = st.inits
  | [], st, m => rfl
  | n :: r, st, m => by
    simp only [cloneNodes]
    rw [cloneNodes_inits np r]
    simp only [cloneNode, newValues]
    exact (newValuesK_spec _ st).2.2.2.2.1

theorem cloneNodes_L_le (np : String) : ∀ (nodes : List FNode) (st : St) (m : VMap),
    st.L ≤ (cloneNodes st m np nodes).1.L
  | [], st, m => Nat.le_refl _
  | n :: r, st, m => by
    simp only [cloneNodes]
    refine Nat.le_trans ?_ (cloneNodes_L_le np r _ _)
    simp only [cloneNode, newValues]
    rw [(newValuesK_spec _ st).2.1]
    omega

theorem cloneNodes_handles (np : String) : ∀ (nodes : List FNode) (st : St) (m : VMap),
    (cloneNodes st m np nodes).1.handles = st.handles
  | [], st, m => rfl
  | n :: r, st, m => by
    simp only [cloneNodes]
    rw [cloneNodes_handles np r]
    simp only [cloneNode, newValues]
    exact (newValuesK_spec _ st).2.2.1

theorem addInlined_handles (finals : List Nat) : ∀ (nodes : List Node) (st : St),
    (addInlined st finals nodes).handles = st.handles
  | [], st => by simp [addInlined]
  | n :: r, st => by
    simp only [addInlined]
    rw [addInlined_handles finals r]
    have hc : SameCore st (n.outs.foldl (fun s o =>
        if nameOf s o ≠ "" ∧ o ∉ finals then renameValue s o (qualifyValue s.cur) else s) st) := by
      apply SameCore.foldl
      intro s o
      split
      · exact SameCore.rename s o _
      · simp [SameCore]
    simp only [addNode, hc.2.1]

theorem popScope_handles (st : St) : (popScope st).handles = st.handles := by
  unfold popScope fail
  split
  · split <;> rfl
  · rfl

theorem resolveArgs_refs : ∀ (args : List Arg) (st : St), args.all isRef = true → (resolveArgs st args).1 = st
  | [], _, _ => rfl
  | .ref _ :: r, st, h => by
    simp only [List.all_cons, isRef, Bool.true_and] at h
    simp only [resolveArgs]; exact resolveArgs_refs r st h
  | .none :: r, st, h => by
    simp only [List.all_cons, isRef, Bool.true_and] at h
    simp only [resolveArgs]; exact resolveArgs_refs r st h
  | .lit _ :: _, _, h => by simp [isRef] at h

theorem inlineRun_spec (total : Bool) (st0 : St) (f : Fn) (actuals : List (Option Nat))
    (desired : Option (List String)) :
    (inlineRun total st0 f actuals desired).1.cur.nodes = st0.cur.nodes ++ (inlineClones total st0 f actuals).2.2 ∧
    (inlineRun total st0 f actuals desired).1.handles = st0.handles ∧
    (inlineRun total st0 f actuals desired).2 = f.outputs.map (vmapGet (inlineClones total st0 f actuals).2.1) := by
  unfold inlineRun
  simp only []
  have hc := renameFinals_core
    (fun id => !total || ((inlineClones total st0 f actuals).2.2.flatMap (·.outs)).contains id)
    (addInlined (inlineClones total st0 f actuals).1
      ((f.outputs.map (vmapGet (inlineClones total st0 f actuals).2.1)).filterMap id)
      (inlineClones total st0 f actuals).2.2)
    (f.outputs.map (vmapGet (inlineClones total st0 f actuals).2.1)) desired
  refine ⟨?_, ?_, trivial⟩
  · rw [hc.2.2.2.2.1, addInlined_nodes]
    unfold inlineClones
    rw [cloneNodes_csd]
  · rw [hc.2.1, addInlined_handles]
    unfold inlineClones
    rw [cloneNodes_handles]

/-- on the success path `call_inline` appends exactly the clones of the body to the current graph and
    returns the values the function's outputs are mapped to. -/
theorem doInline_appends (total : Bool) (fns : List Fn) (st : St) (fi : Nat) (args : List Arg)
    (outs : Option (List String)) (pfx : String) (as : List (String × AVal)) (f : Fn) (hf : fns[fi]? = some f)
    (h1 : args.all isRef = true) (h2 : ¬ args.length > f.formals.length)
    (h3 : outsMismatch outs f = false) :
    (doInline total fns st fi args outs pfx as).cur.nodes = st.cur.nodes ++
      (inlineClones total (if pfx = "" then st else pushScope st pfx) (resolveFn (effectiveAttrs total f as) f)
        (resolveArgs (if pfx = "" then st else pushScope st pfx) args).2).2.2 ∧
    (doInline total fns st fi args outs pfx as).handles = st.handles ++ f.outputs.map (vmapGet
      (inlineClones total (if pfx = "" then st else pushScope st pfx) (resolveFn (effectiveAttrs total f as) f)
        (resolveArgs (if pfx = "" then st else pushScope st pfx) args).2).2.1) := by
  have hst0 : (if pfx = "" then st else pushScope st pfx).cur.nodes = st.cur.nodes := by
    split <;> simp [pushScope]
  have hst0h : (if pfx = "" then st else pushScope st pfx).handles = st.handles := by
    split <;> simp [pushScope]
  obtain ⟨r1, r2, r3⟩ := inlineRun_spec total (if pfx = "" then st else pushScope st pfx)
    (resolveFn (effectiveAttrs total f as) f)
    (resolveArgs (if pfx = "" then st else pushScope st pfx) args).2
    (outs.map (fun o => o.map (qualifyValue st.cur)))
  have hout : (resolveFn (effectiveAttrs total f as) f).outputs = f.outputs := rfl
  rw [hout] at r3
  unfold doInline doInlineWith
  simp only [hf, h1, Bool.not_true, Bool.and_false, Bool.false_eq_true, if_false, h2, h3,
    resolveArgs_refs args _ h1]
  by_cases hp : pfx = ""
  · simp only [hp, if_true] at r1 r2 r3 ⊢
    exact ⟨r1, by rw [r2, r3]⟩
  · simp only [hp, if_false] at r1 r2 r3 hst0 hst0h ⊢
    exact ⟨by rw [popScope_nodes, r1, hst0], by rw [popScope_handles, r2, r3, hst0h]⟩

theorem promote_frame (st : St) (l : Lit) : (promote st l).1.cur = st.cur ∧ (promote st l).1.handles = st.handles := by
  unfold promote
  split
  · exact ⟨rfl, rfl⟩
  · simp [newValue, newValueK]

theorem resolveArgs_frame : ∀ (a : List Arg) (st : St),
    (resolveArgs st a).1.cur = st.cur ∧ (resolveArgs st a).1.handles = st.handles
  | [], st => ⟨rfl, rfl⟩
  | .ref _ :: r, st => by simp only [resolveArgs]; exact resolveArgs_frame r st
  | .none :: r, st => by simp only [resolveArgs]; exact resolveArgs_frame r st
  | .lit l :: r, st => by
    simp only [resolveArgs]
    obtain ⟨a1, a2⟩ := resolveArgs_frame r (promote st l).1
    obtain ⟨b1, b2⟩ := promote_frame st l
    exact ⟨a1.trans b1, a2.trans b2⟩

/-! ## frame lemmas for evaluation -/

theorem bindOuts_agree (L : Nat) : ∀ (os : List Nat) (vs : List α) (e1 e2 : Env α),
    (∀ i, i < L → e1 i = e2 i) → ∀ i, i < L → bindOuts e1 os vs i = bindOuts e2 os vs i
  | [], _, _, _, h, i, hi => h i hi
  | o :: os, vs, e1, e2, h, i, hi => by
    simp only [bindOuts]
    apply bindOuts_agree L os vs.tail _ _ _ i hi
    intro j hj
    simp only [Env.set]
    split
    · rfl
    · exact h j hj

theorem evalNodes_agree (S : OpSem α) (L : Nat) : ∀ (ns : List Node) (e1 e2 : Env α),
    (∀ i, i < L → e1 i = e2 i) → (∀ n ∈ ns, ∀ i, some i ∈ n.ins → i < L) →
    ∀ i, i < L → evalNodes S e1 ns i = evalNodes S e2 ns i
  | [], _, _, h, _, i, hi => h i hi
  | n :: r, e1, e2, h, hn, i, hi => by
    simp only [evalNodes, List.foldl_cons]
    apply evalNodes_agree S L r _ _ _ (fun k hk => hn k (by simp [hk])) i hi
    intro j hj
    simp only [evalNode]
    have hins : n.ins.map (fun i => i.bind e1) = n.ins.map (fun i => i.bind e2) := by
      apply List.map_congr_left
      intro o ho
      cases o with
      | none => rfl
      | some k => exact h k (hn n (by simp) k ho)
    rw [hins]
    exact bindOuts_agree L _ _ _ _ h j hj

theorem evalNodes_other (S : OpSem α) : ∀ (ns : List Node) (e : Env α) (i : Nat),
    (∀ n ∈ ns, i ∉ n.outs) → evalNodes S e ns i = e i
  | [], _, _, _ => rfl
  | n :: r, e, i, h => by
    simp only [evalNodes, List.foldl_cons]
    have := evalNodes_other S r (evalNode S e n) i (fun k hk => h k (by simp [hk]))
    simp only [evalNodes] at this
    rw [this]
    exact bindOuts_other _ _ _ _ (h n (by simp))

theorem bindOuts_get (e : Env α) : ∀ (ids : List Nat) (vs : List α), ids.Nodup →
    ids.map (fun i => bindOuts e ids vs i) = takeN vs ids.length
  | [], _, _ => rfl
  | d :: ds, vs, h => by
    simp only [List.nodup_cons] at h
    simp only [List.map_cons, bindOuts, List.length_cons, takeN, List.cons.injEq]
    refine ⟨?_, ?_⟩
    · rw [bindOuts_other _ _ _ _ h.1]; simp [Env.set]
    · rw [← bindOuts_get (e.set d vs.head?) ds vs.tail h.2]

theorem evalNodes_append (S : OpSem α) (e : Env α) (ns : List Node) (n : Node) :
    evalNodes S e (ns ++ [n]) = evalNode S (evalNodes S e ns) n := by
  simp [evalNodes]

/-! ## the base environment under extension -/

theorem posOf_snoc_ne (i L : Nat) (h : i ≠ L) : ∀ l : List Nat, posOf i (l ++ [L]) = posOf i l
  | [] => by simp [posOf, Ne.symm h]
  | x :: xs => by simp only [List.cons_append, posOf]; rw [posOf_snoc_ne i L h xs]

theorem posOf_snoc_new (L : Nat) : ∀ l : List Nat, L ∉ l → posOf L (l ++ [L]) = some l.length
  | [], _ => by simp [posOf]
  | x :: xs, h => by
    simp only [List.mem_cons, not_or] at h
    simp only [List.cons_append, posOf, List.length_cons]
    rw [if_neg (Ne.symm h.1), posOf_snoc_new L xs h.2]
    rfl

theorem baseOf_cache_ext (S : OpSem α) (c : List (CKey × Nat)) (k : CKey) (L : Nat) (ins : List Nat)
    (args : List α) (i : Nat) (h : i ≠ L) : baseOf S (c ++ [(k, L)]) ins args i = baseOf S c ins args i := by
  unfold baseOf
  rw [List.find?_append]
  cases hf : c.find? (fun e => e.2 = i) with
  | some e => simp
  | none => simp [List.find?_cons, Ne.symm h]

theorem baseOf_cache_new (S : OpSem α) (c : List (CKey × Nat)) (k : CKey) (L : Nat) (ins : List Nat)
    (args : List α) (h : ∀ e ∈ c, e.2 ≠ L) : baseOf S (c ++ [(k, L)]) ins args L = some (S.lit k) := by
  unfold baseOf
  rw [List.find?_append]
  have : c.find? (fun e => e.2 = L) = none := by
    apply List.find?_eq_none.mpr
    intro e he
    simpa using h e he
  simp [this, List.find?_cons]

theorem baseOf_input_ext (S : OpSem α) (c : List (CKey × Nat)) (L : Nat) (ins : List Nat)
    (args : List α) (i : Nat) (h : i ≠ L) : baseOf S c (ins ++ [L]) args i = baseOf S c ins args i := by
  unfold baseOf
  rw [posOf_snoc_ne i L h]

theorem baseOf_input_new (S : OpSem α) (c : List (CKey × Nat)) (L : Nat) (ins : List Nat)
    (args : List α) (h : ∀ e ∈ c, e.2 ≠ L) (hi : L ∉ ins) :
    baseOf S c (ins ++ [L]) args L = args[ins.length]? := by
  unfold baseOf
  have : c.find? (fun e => e.2 = L) = none := by
    apply List.find?_eq_none.mpr
    intro e he
    simpa using h e he
  simp [this, posOf_snoc_new L ins hi]

/-- a cached literal's initializer holds the literal's value (ids in the cache are distinct). -/
theorem baseOf_cached (S : OpSem α) (c : List (CKey × Nat)) (ins : List Nat) (args : List α)
    (hn : (c.map (·.2)).Nodup) (k : CKey) (id : Nat) (h : (k, id) ∈ c) :
    baseOf S c ins args id = some (S.lit k) := by
  unfold baseOf
  induction c with
  | nil => simp at h
  | cons e r ih =>
    simp only [List.map_cons, List.nodup_cons] at hn
    simp only [List.mem_cons] at h
    simp only [List.find?_cons]
    rcases h with rfl | h
    · simp
    · have hne : ¬ e.2 = id := by
        intro he
        apply hn.1
        rw [he]
        exact List.mem_map_of_mem (f := (·.2)) h
      simp only [hne, decide_false]
      exact ih hn.2 h

theorem baseOf_cache_exts (S : OpSem α) (c ext : List (CKey × Nat)) (ins : List Nat) (args : List α) (i : Nat)
    (h : ∀ e ∈ ext, e.2 ≠ i) : baseOf S (c ++ ext) ins args i = baseOf S c ins args i := by
  unfold baseOf
  rw [List.find?_append]
  have : ext.find? (fun e => e.2 = i) = none := by
    apply List.find?_eq_none.mpr
    intro e he
    simpa using h e he
  cases hf : c.find? (fun e => e.2 = i) with
  | some e => simp
  | none => simp [this]

/-! ## literal promotion, semantically -/

/-- the cache part of the invariant. -/
structure CacheOK (st : St) : Prop where
  nodup : (st.cache.map (·.2)).Nodup
  inits : st.inits = st.cache.map (·.2)
  bound : ∀ e ∈ st.cache, e.2 < st.L

/-- how an operand is resolved: a handle's value id, the initializer cached under the literal's key, or absent. -/
def ArgOK (handles : List (Option Nat)) (c : List (CKey × Nat)) : Arg → Option Nat → Prop
  | .ref h, o => o = handles.getD h none
  | .lit l, o => ∃ id, o = some id ∧ (litKey l, id) ∈ c
  | .none, o => o = none

theorem ArgOK.mono {hs : List (Option Nat)} {c c' : List (CKey × Nat)} (hc : ∀ e ∈ c, e ∈ c') :
    ∀ {a : Arg} {o : Option Nat}, ArgOK hs c a o → ArgOK hs c' a o
  | .ref _, _, h => h
  | .none, _, h => h
  | .lit _, _, ⟨id, h1, h2⟩ => ⟨id, h1, hc _ h2⟩

theorem cacheFind_key {c : List (CKey × Nat)} {k : CKey} {i : Nat} (h : cacheFind c k = some i) :
    (k, i) ∈ c := by
  unfold cacheFind at h
  cases hf : c.find? (fun e => e.1 = k) with
  | none => simp [hf] at h
  | some e =>
    simp only [hf, Option.map_some, Option.some.injEq] at h
    have hm := List.mem_of_find?_eq_some hf
    have hk : e.1 = k := by simpa using List.find?_some hf
    rw [← hk, ← h]
    exact hm

theorem promote_sem (st : St) (l : Lit) (h : CacheOK st) :
    CacheOK (promote st l).1 ∧
    (∃ ext, (promote st l).1.cache = st.cache ++ ext ∧ ∀ e ∈ ext, st.L ≤ e.2) ∧
    (litKey l, (promote st l).2) ∈ (promote st l).1.cache ∧
    (promote st l).1.cur = st.cur ∧ (promote st l).1.handles = st.handles ∧ st.L ≤ (promote st l).1.L := by
  unfold promote
  split
  · rename_i id hc
    exact ⟨h, ⟨[], by simp, by simp⟩, cacheFind_key hc, rfl, rfl, Nat.le_refl _⟩
  · simp only [newValue, newValueK]
    refine ⟨⟨?_, ?_, ?_⟩, ⟨[(litKey l, st.vnames.length)], rfl, by simp [St.L]⟩, by simp, trivial, trivial, by simp [St.L]⟩
    · simp only [List.map_append, List.map_cons, List.map_nil]
      refine List.Nodup.append h.nodup (by simp) ?_
      intro x hx hx'
      simp only [List.mem_singleton] at hx'
      simp only [List.mem_map] at hx
      obtain ⟨e, he, rfl⟩ := hx
      have := h.bound e he
      simp only [St.L] at this
      omega
    · simp [h.inits]
    · intro e he
      simp only [List.mem_append, List.mem_singleton] at he
      simp only [St.L, List.length_append, List.length_singleton]
      rcases he with he | rfl
      · have := h.bound e he; simp only [St.L] at this; omega
      · simp

theorem resolveArgs_sem : ∀ (args : List Arg) (st : St), CacheOK st →
    CacheOK (resolveArgs st args).1 ∧
    (∃ ext, (resolveArgs st args).1.cache = st.cache ++ ext ∧ ∀ e ∈ ext, st.L ≤ e.2) ∧
    List.Forall₂ (ArgOK st.handles (resolveArgs st args).1.cache) args (resolveArgs st args).2 ∧
    (resolveArgs st args).1.cur = st.cur
  | [], st, h => by
    simp only [resolveArgs]
    exact ⟨h, ⟨[], by simp, by simp⟩, List.Forall₂.nil, trivial⟩
  | .ref hd :: r, st, h => by
    obtain ⟨a1, a2, a3, a4⟩ := resolveArgs_sem r st h
    simp only [resolveArgs]
    exact ⟨a1, a2, List.Forall₂.cons rfl a3, a4⟩
  | .none :: r, st, h => by
    obtain ⟨a1, a2, a3, a4⟩ := resolveArgs_sem r st h
    simp only [resolveArgs]
    exact ⟨a1, a2, List.Forall₂.cons rfl a3, a4⟩
  | .lit l :: r, st, h => by
    obtain ⟨p1, ⟨e1, p2, p3⟩, p4, p5, p6, p7⟩ := promote_sem st l h
    obtain ⟨a1, ⟨e2, a2, a2'⟩, a3, a4⟩ := resolveArgs_sem r (promote st l).1 p1
    simp only [resolveArgs]
    refine ⟨a1, ⟨e1 ++ e2, by rw [a2, p2, List.append_assoc], ?_⟩, ?_, a4.trans p5⟩
    · intro e he
      rcases List.mem_append.mp he with x | x
      · exact p3 e x
      · exact Nat.le_trans p7 (a2' e x)
    · refine List.Forall₂.cons ⟨_, rfl, ?_⟩ (p6 ▸ a3)
      rw [a2]
      exact List.mem_append_left _ p4

/-! ## the simulation invariant -/

structure Sim (S : OpSem α) (args : List α) (st : St) (r : RSt α) : Prop where
  bnd : Bnd st
  cok : CacheOK st
  nin : r.nin = st.cur.inputs.length
  sep : ∀ n ∈ st.cur.nodes, ∀ o ∈ n.outs, o ∉ st.inits
  vals : st.handles.map (fun o => o.bind (evalGraph S st args)) = r.henv

theorem getD_map_bind (l : List (Option Nat)) (e : Env α) (h : Nat) :
    (l.map (fun o => o.bind e)).getD h none = (l.getD h none).bind e := by
  simp only [List.getD_eq_getElem?_getD, List.getElem?_map]
  cases l[h]? <;> rfl

theorem sim_node (S : OpSem α) (args : List α) (st st' : St) (r : RSt α) (n : Node) (a : List Arg)
    (ext : List (CKey × Nat)) (h : Sim S args st r) (hb : Bnd st') (hc : CacheOK st')
    (e1 : st'.cur.nodes = st.cur.nodes ++ [n]) (e2 : st'.cur.inputs = st.cur.inputs)
    (e3 : st'.cache = st.cache ++ ext) (hext : ∀ e ∈ ext, st.L ≤ e.2)
    (e4 : st'.handles = st.handles ++ n.outs.map some)
    (ho1 : n.outs.Nodup) (ho2 : ∀ o ∈ n.outs, st.L ≤ o) (ho3 : ∀ o ∈ n.outs, ∀ e ∈ st'.cache, e.2 ≠ o)
    (hins : List.Forall₂ (ArgOK st.handles st'.cache) a n.ins) :
    Sim S args st' ⟨r.henv ++ takeN (S.op n.domain n.op n.overload n.attrs (a.map (argVal S r.henv))) n.outs.length,
      r.nin⟩ := by
  -- old nodes evaluated in the extended base environment
  have hold : ∀ k ∈ st.cur.nodes, NodeOK st.L st.inits k := h.bnd.nodes st.cur (by simp [St.frames])
  have hA : ∀ i, i < st.L → evalNodes S (baseEnv S st' args) st.cur.nodes i = evalGraph S st args i := by
    intro i hi
    unfold evalGraph
    apply evalNodes_agree S st.L _ _ _ _ (fun k hk j hj => ((hold k hk).2 j hj).1) i hi
    intro j hj
    unfold baseEnv
    rw [e3, e2]
    exact baseOf_cache_exts S _ _ _ _ j (fun e he => by have := hext e he; omega)
  have hlitid : ∀ k id, (k, id) ∈ st'.cache →
      evalNodes S (baseEnv S st' args) st.cur.nodes id = some (S.lit k) := by
    intro k id hm
    rw [evalNodes_other]
    · exact baseOf_cached S _ _ _ hc.nodup k id hm
    · intro nd hnd hcon
      rw [e3] at hm
      rcases List.mem_append.mp hm with x | x
      · exact h.sep nd hnd id hcon (by rw [h.cok.inits]; exact List.mem_map_of_mem (f := (·.2)) x)
      · have := hext _ x
        have := (hold nd hnd).1 id hcon
        omega
  have hB : n.ins.map (fun i => i.bind (evalNodes S (baseEnv S st' args) st.cur.nodes))
      = a.map (argVal S r.henv) := by
    clear ho1 ho2 ho3 e4
    generalize n.ins = insL at hins ⊢
    induction hins with
    | nil => rfl
    | @cons x o xs os hx _ ih =>
      simp only [List.map_cons, List.cons.injEq]
      refine ⟨?_, ih⟩
      cases x with
      | ref hd =>
        simp only [ArgOK] at hx
        simp only [argVal, ← h.vals, getD_map_bind, ← hx]
        cases o with
        | none => rfl
        | some i =>
          simp only [Option.bind_some]
          exact hA i (h.bnd.handles i (getD_mem hx.symm))
      | none => simp only [ArgOK] at hx; simp [hx, argVal]
      | lit l =>
        obtain ⟨id, rfl, hm⟩ := hx
        simp only [Option.bind_some, argVal]
        exact hlitid _ id hm
  have hE : evalGraph S st' args = bindOuts (evalNodes S (baseEnv S st' args) st.cur.nodes) n.outs
      (S.op n.domain n.op n.overload n.attrs (a.map (argVal S r.henv))) := by
    unfold evalGraph
    rw [e1, evalNodes_append]
    simp only [evalNode, hB]
  refine ⟨hb, hc, by simp [h.nin, e2], ?_, ?_⟩
  · intro nd hnd o ho hcon
    rw [hc.inits] at hcon
    simp only [List.mem_map] at hcon
    obtain ⟨e, he, rfl⟩ := hcon
    rw [e1] at hnd
    rcases List.mem_append.mp hnd with x | x
    · rw [e3] at he
      rcases List.mem_append.mp he with y | y
      · exact h.sep nd x e.2 ho (by rw [h.cok.inits]; exact List.mem_map_of_mem (f := (·.2)) y)
      · have := hext e y
        have := (hold nd x).1 e.2 ho
        omega
    · simp only [List.mem_singleton] at x
      subst x
      exact ho3 e.2 ho e he rfl
  · rw [e4, List.map_append, hE]
    congr 1
    · rw [← h.vals]
      apply List.map_congr_left
      intro o ho
      cases o with
      | none => rfl
      | some i =>
        simp only [Option.bind_some]
        have hi := h.bnd.handles i ho
        rw [bindOuts_other _ _ _ _ (fun hc' => by have := ho2 i hc'; omega)]
        exact hA i hi
    · simp only [List.map_map]
      exact bindOuts_get _ n.outs _ ho1

/-! ## shapes of `doOp` / `doCall` -/

theorem outKeys_length (f : Frame) (c : Nat) (op : String) (o : Outs) : (outKeys f c op o).length = outCount o := by
  cases o with
  | named ns => simp [outKeys, outCount]
  | auto n =>
    simp only [outKeys, outCount]
    split
    · rename_i h; simp [h]
    · simp

theorem doOp_shape (total : Bool) (st : St) (t : String) (a : List Arg) (o : Outs) (nn : Option String)
    (g : List Nat) (as : List (String × AVal)) :
    ∃ n : Node, n.domain = "" ∧ n.op = t ∧ n.overload = "" ∧ n.attrs = as ∧ n.ins = (resolveArgs st a).2 ∧
      n.outs = (newValuesK (resolveArgs st a).1
        (outKeys (resolveArgs st a).1.cur (nodeCount total (resolveArgs st a).1) t o)).2 ∧
      (doOp total st t a o nn g as).cur.nodes = (resolveArgs st a).1.cur.nodes ++ [n] ∧
      (doOp total st t a o nn g as).cur.inputs = (resolveArgs st a).1.cur.inputs ∧
      (doOp total st t a o nn g as).cache = (resolveArgs st a).1.cache ∧
      (doOp total st t a o nn g as).inits = (resolveArgs st a).1.inits ∧
      (doOp total st t a o nn g as).handles = (resolveArgs st a).1.handles ++ n.outs.map some ∧
      (doOp total st t a o nn g as).L = (resolveArgs st a).1.L + outCount o := by
  unfold doOp
  split
  rename_i st1 ins hr
  simp only [hr]
  obtain ⟨b1, b2, b3, b4, b5, b6⟩ := newValuesK_spec (outKeys st1.cur (nodeCount total st1) t o) st1
  obtain ⟨c1, c2, c3⟩ := newValuesK_csd (outKeys st1.cur (nodeCount total st1) t o) st1
  refine ⟨⟨nn.getD (autoNodeName st1.cur (nodeCount total st1) t), "", t, ins,
    (newValuesK st1 (outKeys st1.cur (nodeCount total st1) t o)).2, g, "", as⟩,
    rfl, rfl, rfl, rfl, rfl, rfl, ?_, ?_, ?_, ?_, ?_, ?_⟩
  · simp [addNode, c1]
  · simp [addNode, c1]
  · simp [addNode, b4]
  · simp [addNode, b5]
  · simp [addNode, b3]
  · simp only [addNode, St.L] at b2 ⊢
    rw [b2, outKeys_length]

theorem doCall_shape (total : Bool) (fns : List Fn) (st : St) (fi : Nat) (a : List Arg) (o : Option Outs)
    (as : List (String × AVal)) (f : Fn) (hf : fns[fi]? = some f) (keys : List VKey) (st1 : St)
    (hk : keys = outKeys st.cur (nodeCount total st) f.name (o.getD (.auto f.outputs.length)))
    (h1 : st1 = (newValuesK st keys).1) :
    ∃ n : Node, n.domain = f.domain ∧ n.op = f.name ∧ n.overload = f.overload ∧ n.attrs = as ∧
      n.ins = (resolveArgs st1 a).2 ∧ n.outs = (newValuesK st keys).2 ∧
      (doCall total fns st fi a o as).cur.nodes = (resolveArgs st1 a).1.cur.nodes ++ [n] ∧
      (doCall total fns st fi a o as).cur.inputs = (resolveArgs st1 a).1.cur.inputs ∧
      (doCall total fns st fi a o as).cache = (resolveArgs st1 a).1.cache ∧
      (doCall total fns st fi a o as).inits = (resolveArgs st1 a).1.inits ∧
      (doCall total fns st fi a o as).handles = (resolveArgs st1 a).1.handles ++ n.outs.map some ∧
      (doCall total fns st fi a o as).L = (resolveArgs st1 a).1.L := by
  subst h1
  unfold doCall
  simp only [hf, ← hk]
  refine ⟨⟨autoNodeName (resolveArgs (newValuesK st keys).1 a).1.cur
      (nodeCount total (resolveArgs (newValuesK st keys).1 a).1) f.name,
    f.domain, f.name, (resolveArgs (newValuesK st keys).1 a).2, (newValuesK st keys).2, [], f.overload, as⟩,
    rfl, rfl, rfl, rfl, rfl, rfl, ?_, ?_, ?_, ?_, ?_, ?_⟩ <;> simp [addNode, St.L]

/-! ## one step of the simulation -/

theorem CacheOK.grow {st st' : St} (h : CacheOK st) (hc : st'.cache = st.cache) (hi : st'.inits = st.inits)
    (hL : st.L ≤ st'.L) : CacheOK st' :=
  ⟨hc ▸ h.nodup, by rw [hi, hc]; exact h.inits, fun e he => Nat.lt_of_lt_of_le (h.bound e (hc ▸ he)) hL⟩

theorem sim_op (S : OpSem α) (fns : List Fn) (args : List α) (total : Bool) (st : St) (r : RSt α)
    (t : String) (a : List Arg) (o : Outs) (nn : Option String) (g : List Nat) (as : List (String × AVal))
    (h : Sim S args st r) :
    Sim S args (doOp total st t a o nn g as) (replayStep S fns args r (.op t a o nn g as)) := by
  obtain ⟨n, n1, n2, n3, na, n4, n5, s1, s2, s3, s4, s5, s6⟩ := doOp_shape total st t a o nn g as
  obtain ⟨q1, ⟨ext, q2, q3⟩, q4, q5⟩ := resolveArgs_sem a st h.cok
  obtain ⟨w1, w2, w3, w4, w5, w6⟩ := resolveArgs_spec a st h.bnd
  obtain ⟨b1, b2, _⟩ := newValuesK_spec
    (outKeys (resolveArgs st a).1.cur (nodeCount total (resolveArgs st a).1) t o) (resolveArgs st a).1
  rw [outKeys_length] at b1 b2
  have hlen : n.outs.length = outCount o := by rw [n5, b1]; simp
  have hres := sim_node S args st (doOp total st t a o nn g as) r n a ext h
    (Bnd.doOp total st t a o nn g as h.bnd)
    (q1.grow s3 s4 (by rw [s6]; omega))
    (by rw [s1, q5]) (by rw [s2, q5]) (by rw [s3, q2]) q3 (by rw [s5, w2])
    (by rw [n5, b1]; exact range_add_nodup _ _)
    (by
      intro x hx
      rw [n5, b1] at hx
      simp only [List.mem_map, List.mem_range] at hx
      obtain ⟨j, _, rfl⟩ := hx
      omega)
    (by
      intro x hx e he hcon
      rw [s3] at he
      have := q1.bound e he
      rw [n5, b1] at hx
      simp only [List.mem_map, List.mem_range] at hx
      obtain ⟨j, _, rfl⟩ := hx
      omega)
    (by rw [n4, s3]; exact q4)
  simpa [replayStep, n1, n2, n3, na, hlen] using hres

theorem sim_call (S : OpSem α) (fns : List Fn) (args : List α) (total : Bool) (st : St) (r : RSt α)
    (fi : Nat) (a : List Arg) (o : Option Outs) (as : List (String × AVal)) (f : Fn) (hf : fns[fi]? = some f)
    (h : Sim S args st r) :
    Sim S args (doCall total fns st fi a o as) (replayStep S fns args r (.call fi a o as)) := by
  obtain ⟨n, n1, n2, n3, na, n4, n5, s1, s2, s3, s4, s5, s6⟩ :=
    doCall_shape total fns st fi a o as f hf _ _ rfl rfl
  generalize hk : outKeys st.cur (nodeCount total st) f.name (o.getD (.auto f.outputs.length)) = keys
    at n4 n5 s1 s2 s3 s4 s5 s6
  obtain ⟨b1, b2, b3, b4, b5, b6⟩ := newValuesK_spec keys st
  obtain ⟨c1, c2, c3⟩ := newValuesK_csd keys st
  have hkl : keys.length = outCount (o.getD (.auto f.outputs.length)) := by rw [← hk, outKeys_length]
  have hcok1 : CacheOK (newValuesK st keys).1 := h.cok.grow b4 b5 (by rw [b2]; omega)
  obtain ⟨q1, ⟨ext, q2, q3⟩, q4, q5⟩ := resolveArgs_sem a (newValuesK st keys).1 hcok1
  have hb1 := BndP.created keys h.bnd
  obtain ⟨w1, w2, w3, w4, w5, w6⟩ := resolveArgs_spec a (newValuesK st keys).1 hb1
  have hlen : n.outs.length = outCount (o.getD (.auto f.outputs.length)) := by rw [n5, b1]; simp [hkl]
  have hres := sim_node S args st (doCall total fns st fi a o as) r n a ext h
    (Bnd.doCall total fns st fi a o as h.bnd)
    (q1.grow s3 s4 (Nat.le_of_eq s6.symm))
    (by rw [s1, q5, c1]) (by rw [s2, q5, c1]) (by rw [s3, q2, b4])
    (fun e he => by have := q3 e he; rw [b2] at this; omega)
    (by rw [s5, w2, b3])
    (by rw [n5, b1]; exact range_add_nodup _ _)
    (by
      intro x hx
      rw [n5, b1] at hx
      simp only [List.mem_map, List.mem_range] at hx
      obtain ⟨j, _, rfl⟩ := hx
      omega)
    (by
      intro x hx e he hcon
      rw [s3, q2, b4] at he
      rw [n5, b1] at hx
      simp only [List.mem_map, List.mem_range] at hx
      obtain ⟨j, hj, rfl⟩ := hx
      rcases List.mem_append.mp he with y | y
      · have := h.cok.bound e y; omega
      · have := q3 e y; rw [b2] at this; omega)
    (by rw [n4, s3, ← b3]; exact q4)
  simpa [replayStep, hf, n1, n2, n3, na, hlen] using hres

theorem sim_meta (S : OpSem α) (args : List α) (st st' : St) (r : RSt α) (h : Sim S args st r)
    (hb : Bnd st') (hL : st.L ≤ st'.L) (hh : st'.handles = st.handles) (hc : st'.cache = st.cache)
    (hi : st'.inits = st.inits) (h1 : st'.cur.inputs = st.cur.inputs) (h2 : st'.cur.nodes = st.cur.nodes) :
    Sim S args st' r := by
  have hE : evalGraph S st' args = evalGraph S st args := by
    unfold evalGraph baseEnv
    rw [hc, h1, h2]
  exact ⟨hb, h.cok.grow hc hi hL, by rw [h.nin, h1], by rw [h2, hi]; exact h.sep, by rw [hh, hE]; exact h.vals⟩

theorem sim_fail (S : OpSem α) (args : List α) (st : St) (r : RSt α) (e : String) (h : Sim S args st r) :
    Sim S args (fail st e) r := by
  refine sim_meta S args st _ r h (Bnd.fail st e h.bnd) ?_ ?_ ?_ ?_ ?_ ?_ <;>
    (unfold fail; split <;> simp)

theorem sim_input (S : OpSem α) (fns : List Fn) (args : List α) (st : St) (r : RSt α) (nm : String)
    (h : Sim S args st r) : Sim S args (doInput st nm) (replayStep S fns args r (.input nm)) := by
  have hb := Bnd.doInput st nm h.bnd
  have hold : ∀ k ∈ st.cur.nodes, NodeOK st.L st.inits k := h.bnd.nodes st.cur (by simp [St.frames])
  have hcache : ∀ e ∈ st.cache, e.2 ≠ st.L := fun e he => Nat.ne_of_lt (h.cok.bound e he)
  have hnotin : st.L ∉ st.cur.inputs := fun hc =>
    Nat.lt_irrefl _ (h.bnd.finputs st.cur (by simp [St.frames]) _ hc)
  have hshape : (doInput st nm).cur.inputs = st.cur.inputs ++ [st.L] ∧
      (doInput st nm).cur.nodes = st.cur.nodes ∧ (doInput st nm).cache = st.cache ∧
      (doInput st nm).inits = st.inits ∧ (doInput st nm).handles = st.handles ++ [some st.L] ∧
      (doInput st nm).L = st.L + 1 := by
    simp [doInput, newValue, newValueK, St.L]
  obtain ⟨s1, s2, s3, s4, s5, s6⟩ := hshape
  have hE : ∀ i, i < st.L → evalGraph S (doInput st nm) args i = evalGraph S st args i := by
    intro i hi
    unfold evalGraph
    rw [s2]
    apply evalNodes_agree S st.L _ _ _ _ (fun k hk j hj => ((hold k hk).2 j hj).1) i hi
    intro j hj
    unfold baseEnv
    rw [s3, s1]
    exact baseOf_input_ext S _ _ _ _ j (Nat.ne_of_lt hj)
  have hnew : evalGraph S (doInput st nm) args st.L = args[r.nin]? := by
    unfold evalGraph
    rw [s2, evalNodes_other]
    · unfold baseEnv
      rw [s3, s1, baseOf_input_new S _ _ _ _ hcache hnotin, h.nin]
    · intro k hk hc
      exact Nat.lt_irrefl _ ((hold k hk).1 _ hc)
  refine ⟨hb, h.cok.grow s3 s4 (by rw [s6]; omega), by simp [replayStep, h.nin, s1], by rw [s2, s4]; exact h.sep, ?_⟩
  rw [s5, List.map_append]
  simp only [replayStep, List.map_cons, List.map_nil, Option.bind_some, hnew]
  congr 1
  rw [← h.vals]
  apply List.map_congr_left
  intro o ho
  cases o with
  | none => rfl
  | some i => exact hE i (h.bnd.handles i ho)

/-- items of a subgraph-free trace. -/
def simItem : Item → Bool
  | .beginSub _ _ => false
  | .endSub _ _ => false
  | .abortSub => false
  | _ => true

theorem Sim.init (S : OpSem α) (args : List α) : Sim S args St.init ⟨[], 0⟩ := by
  refine ⟨Bnd.init, ⟨by simp [St.init], by simp [St.init], by simp [St.init]⟩, by simp [St.init],
    by simp [St.init], by simp [St.init]⟩

/-! ## well-formedness through `call_inline` -/

/-- everything the invariant reads, except the current graph's node list. -/
def SameBut (st st' : St) : Prop :=
  st'.L = st.L ∧ st'.handles = st.handles ∧ st'.cache = st.cache ∧ st'.inits = st.inits ∧
  st'.cur.inputs = st.cur.inputs ∧ st'.stack = st.stack ∧ st'.done = st.done

theorem SameBut.refl (st : St) : SameBut st st := ⟨rfl, rfl, rfl, rfl, rfl, rfl, rfl⟩

theorem SameBut.trans {a b c : St} (h1 : SameBut a b) (h2 : SameBut b c) : SameBut a c := by
  obtain ⟨a1, a2, a3, a4, a5, a6, a7⟩ := h1
  obtain ⟨b1, b2, b3, b4, b5, b6, b7⟩ := h2
  exact ⟨b1.trans a1, b2.trans a2, b3.trans a3, b4.trans a4, b5.trans a5, b6.trans a6, b7.trans a7⟩

theorem SameCore.but {a b : St} (h : SameCore a b) : SameBut a b := by
  obtain ⟨a1, a2, a3, a4, a5, a6, a7⟩ := h
  exact ⟨a1, a2, a3, a4, by rw [a5], a6, a7⟩

theorem addInlined_but (finals : List Nat) : ∀ (nodes : List Node) (st : St),
    SameBut st (addInlined st finals nodes)
  | [], st => SameBut.refl st
  | n :: r, st => by
    simp only [addInlined]
    have hc : SameCore st (n.outs.foldl (fun s o =>
        if nameOf s o ≠ "" ∧ o ∉ finals then renameValue s o (qualifyValue s.cur) else s) st) := by
      apply SameCore.foldl
      intro s o
      split
      · exact SameCore.rename s o _
      · simp [SameCore]
    refine SameBut.trans (SameBut.trans hc.but ?_) (addInlined_but finals r _)
    simp [SameBut, addNode, St.L]

theorem popScope_but (st : St) : SameBut st (popScope st) := by
  unfold popScope fail
  split
  · split <;> simp [SameBut, St.L]
  · simp [SameBut, St.L]

theorem mem_mapIn {m : VMap} {ins : List (Option String)} {i : Nat} (h : some i ∈ ins.map (mapIn m)) :
    ∃ x, vmapGet m x = some i := by
  simp only [List.mem_map] at h
  obtain ⟨o, _, ho⟩ := h
  cases o with
  | none => simp [mapIn] at ho
  | some x => exact ⟨x, by simpa [mapIn] using ho⟩

theorem cloneNode_wf (st : St) (m : VMap) (np : String) (n : FNode) {P : List Nat} (h : BndP st P)
    (hb : ∀ x id, vmapGet m x = some id → id < st.L) :
    BndP (cloneNode st m np n).1 (P ++ (cloneNode st m np n).2.2.outs) ∧
    SameBut st { (cloneNode st m np n).1 with vnames := st.vnames } ∧
    (cloneNode st m np n).1.cur = st.cur ∧ st.L ≤ (cloneNode st m np n).1.L ∧
    NodeOK (cloneNode st m np n).1.L st.inits (cloneNode st m np n).2.2 ∧
    (∀ x id, vmapGet (cloneNode st m np n).2.1 x = some id → id < (cloneNode st m np n).1.L) := by
  obtain ⟨i1, i2⟩ := newValues_ids st (n.outs.map (fun o => if o = "" then "" else np ++ o))
  simp only [List.length_map] at i1 i2
  have hcr := BndP.created ((n.outs.map (fun o => if o = "" then "" else np ++ o)).map VKey.raw) h
  obtain ⟨b1, b2, b3, b4, b5, b6⟩ := newValuesK_spec
    ((n.outs.map (fun o => if o = "" then "" else np ++ o)).map VKey.raw) st
  obtain ⟨c1, c2, c3⟩ := newValuesK_csd
    ((n.outs.map (fun o => if o = "" then "" else np ++ o)).map VKey.raw) st
  have hlen : n.outs.length = (newValues st (n.outs.map (fun o => if o = "" then "" else np ++ o))).2.length := by
    rw [i1]; simp
  have hge : ∀ i ∈ (newValues st (n.outs.map (fun o => if o = "" then "" else np ++ o))).2, st.L ≤ i ∧
      i < st.L + n.outs.length := by
    intro i hi
    rw [i1] at hi
    simp only [List.mem_map, List.mem_range] at hi
    obtain ⟨j, hj, rfl⟩ := hi
    omega
  simp only [cloneNode, newValues] at *
  refine ⟨hcr, ⟨rfl, b3, b4, b5, by rw [c1], c2, c3⟩, c1, by rw [i2]; omega, ⟨?_, ?_⟩, ?_⟩
  · intro o ho; rw [i2]; exact (hge o ho).2
  · intro i hi
    obtain ⟨x, hx⟩ := mem_mapIn hi
    have := hb x i hx
    refine ⟨by rw [i2]; omega, Or.inr ?_⟩
    intro o ho
    have := (hge o ho).1
    omega
  · intro x id hv
    rw [i2]
    by_cases hx : x ∈ n.outs
    · obtain ⟨i, hi, hv'⟩ := vmapGet_zip_hit n.outs _ m x hlen hx
      rw [hv'] at hv
      have hid : i = id := Option.some.inj hv
      rw [← hid]
      exact (hge i (List.of_mem_zip hi).2).2
    · rw [vmapGet_zip_miss n.outs _ m x hx] at hv
      have := hb x id hv
      omega

theorem cloneNodes_wf (np : String) : ∀ (nodes : List FNode) (st : St) (m : VMap) (P : List Nat), BndP st P →
    (∀ x id, vmapGet m x = some id → id < st.L) →
    BndP (cloneNodes st m np nodes).1 (P ++ (cloneNodes st m np nodes).2.2.flatMap (·.outs)) ∧
    (cloneNodes st m np nodes).1.handles = st.handles ∧ (cloneNodes st m np nodes).1.cache = st.cache ∧
    (cloneNodes st m np nodes).1.inits = st.inits ∧ (cloneNodes st m np nodes).1.cur = st.cur ∧
    (cloneNodes st m np nodes).1.stack = st.stack ∧ (cloneNodes st m np nodes).1.done = st.done ∧
    st.L ≤ (cloneNodes st m np nodes).1.L ∧
    (∀ c ∈ (cloneNodes st m np nodes).2.2, NodeOK (cloneNodes st m np nodes).1.L st.inits c) ∧
    (∀ x id, vmapGet (cloneNodes st m np nodes).2.1 x = some id → id < (cloneNodes st m np nodes).1.L)
  | [], st, m, P, h, hb => by
    simp only [cloneNodes, List.flatMap_nil, List.append_nil]
    exact ⟨h, trivial, trivial, trivial, trivial, trivial, trivial, Nat.le_refl _, by simp, hb⟩
  | n :: r, st, m, P, h, hb => by
    obtain ⟨a1, ⟨_, a2, a3, a4, _, a6, a7⟩, a5, a8, a9, a10⟩ := cloneNode_wf st m np n h hb
    obtain ⟨b1, b2, b3, b4, b5, b6, b7, b8, b9, b10⟩ :=
      cloneNodes_wf np r (cloneNode st m np n).1 (cloneNode st m np n).2.1 _ a1 a10
    simp only [cloneNodes, List.flatMap_cons]
    refine ⟨by rw [← List.append_assoc]; exact b1, b2.trans a2, b3.trans a3, b4.trans a4, b5.trans a5,
      b6.trans a6, b7.trans a7, Nat.le_trans a8 b8, ?_, b10⟩
    intro c hc
    simp only [List.mem_cons] at hc
    rcases hc with rfl | hc
    · exact a9.mono b8 (fun i x => x)
    · have := b9 c hc
      rw [a4] at this
      exact this

/-- appending a list of well-formed nodes whose outputs cover the pending values. -/
theorem BndP.placeMany {st : St} {P : List Nat} (h : BndP st P) (clones : List Node)
    (hn : ∀ c ∈ clones, NodeOK st.L st.inits c) (hP : ∀ i ∈ P, ∃ c ∈ clones, i ∈ c.outs)
    (hs : List (Option Nat)) (hhs : ∀ i, some i ∈ hs → i < st.L)
    (st' : St) (e1 : st'.L = st.L) (e2 : st'.handles = st.handles ++ hs)
    (e3 : st'.cache = st.cache) (e4 : st'.inits = st.inits) (e5 : st'.cur.inputs = st.cur.inputs)
    (e5' : st'.cur.nodes = st.cur.nodes ++ clones) (e6 : st'.stack = st.stack) (e7 : st'.done = st.done) :
    Bnd st' := by
  have hfr : ∀ f' ∈ st'.frames, f' = st'.cur ∨ f' ∈ st.frames := by
    intro f' hf'
    simp only [St.frames, e6, e7, List.mem_cons] at hf' ⊢
    rcases hf' with x | x
    · exact Or.inl x
    · exact Or.inr (Or.inr x)
  have hcur : st.cur ∈ st.frames := by simp [St.frames]
  have hcur' : st'.cur ∈ st'.frames := by simp [St.frames]
  refine ⟨?_, ?_, ?_, ?_, ?_, ?_⟩
  · intro i hi
    rw [e2, List.mem_append] at hi
    rw [e1]
    exact hi.elim (h.handles i) (hhs i)
  · intro e he; rw [e4]; exact h.cache e (e3 ▸ he)
  · intro i hi; rw [e1]; exact h.inits i (e4 ▸ hi)
  · intro f' hf' i hi
    rw [e1]
    rcases hfr f' hf' with rfl | x
    · exact h.finputs st.cur hcur i (e5 ▸ hi)
    · exact h.finputs f' x i hi
  · intro f' hf' n hnm
    rw [e1, e4]
    rcases hfr f' hf' with rfl | x
    · rw [e5'] at hnm
      rcases List.mem_append.mp hnm with y | y
      · exact h.nodes st.cur hcur n y
      · exact hn n y
    · exact h.nodes f' x n hnm
  · intro i hi _
    rw [e1] at hi
    by_cases hp : i ∈ P
    · obtain ⟨c, hc, hic⟩ := hP i hp
      exact Or.inr ⟨st'.cur, hcur', Or.inr ⟨c, by rw [e5']; simp [hc], hic⟩⟩
    · rcases h.defined i hi hp with hd | ⟨f, hf, hd⟩
      · exact Or.inl (e4 ▸ hd)
      · simp only [St.frames, List.mem_cons] at hf
        rcases hf with rfl | hf
        · refine Or.inr ⟨st'.cur, hcur', ?_⟩
          rcases hd with hd | ⟨n, hn1, hn2⟩
          · exact Or.inl (e5 ▸ hd)
          · exact Or.inr ⟨n, by rw [e5']; simp [hn1], hn2⟩
        · exact Or.inr ⟨f, by simp only [St.frames, e6, e7, List.mem_cons]; exact Or.inr hf, hd⟩

theorem inlineRun_but (total : Bool) (st0 : St) (f : Fn) (actuals : List (Option Nat))
    (desired : Option (List String)) :
    SameBut (inlineClones total st0 f actuals).1 (inlineRun total st0 f actuals desired).1 := by
  unfold inlineRun
  simp only []
  exact SameBut.trans (addInlined_but _ _ _) (renameFinals_core _ _ _ _).but

theorem bnd_popScope (st : St) (h : Bnd st) : Bnd (popScope st) := by
  unfold OV.C18.popScope
  split
  · exact Bnd.fail st _ h
  · exact h.curMeta rfl rfl rfl rfl rfl rfl rfl rfl

theorem Bnd.doInline (total : Bool) (fns : List Fn) (st : St) (fi : Nat) (a : List Arg)
    (o : Option (List String)) (p : String) (as : List (String × AVal)) (h : Bnd st) :
    Bnd (doInline total fns st fi a o p as) := by
  unfold OV.C18.doInline OV.C18.doInlineWith
  split
  · exact Bnd.fail st _ h
  · rename_i f _
    split
    · exact Bnd.fail st _ h
    · split
      · exact Bnd.fail st _ h
      · simp only []
        -- the builder the body is inlined into, with literal operands (if any) promoted
        have h0 : Bnd (if p = "" then st else pushScope st p) := by
          split
          · exact h
          · exact h.curMeta rfl rfl rfl rfl rfl rfl rfl rfl
        generalize hst0 : (if p = "" then st else pushScope st p) = st0 at h0 ⊢
        obtain ⟨w1, w2, _, w4, _, w6⟩ := resolveArgs_spec a st0 h0
        split
        · -- refused after the prefix was pushed and the operands were adapted
          apply Bnd.fail
          split
          · exact w1
          · exact bnd_popScope _ w1
        · generalize resolveFn (effectiveAttrs total f as) f = f'
          have hact : ∀ i, some i ∈ (resolveArgs st0 a).2 → i < (resolveArgs st0 a).1.L := by
            intro i hi
            rcases w6 i hi with x | x
            · exact w1.inits i x
            · exact Nat.lt_of_lt_of_le (h0.handles i x) w4
          generalize hra : resolveArgs st0 a = ra at w1 hact ⊢
          obtain ⟨b1, b2, b3, b4, b5, b6, b7, b8, b9, b10⟩ := cloneNodes_wf
            (autoNodeName ra.1.cur (nodeCount total ra.1) f'.name ++ "/") f'.nodes ra.1
            (f'.formals.zip ra.2) [] w1
            (vmapGet_zip_bound f'.formals _ ra.1.L hact)
          obtain ⟨r1, r2, r3⟩ := inlineRun_spec total ra.1 f' ra.2
            (o.map (fun o => o.map (qualifyValue st.cur)))
          obtain ⟨u1, u2, u3, u4, u5, u6, u7⟩ := inlineRun_but total ra.1 f' ra.2
            (o.map (fun o => o.map (qualifyValue st.cur)))
          simp only [List.nil_append] at b1
          unfold inlineClones at r1 r2 r3 u1 u2 u3 u4 u5 u6 u7
          have hpop : ∀ s : St, SameBut s (if p = "" then s else popScope s) ∧
              (if p = "" then s else popScope s).cur.nodes = s.cur.nodes := by
            intro s
            split
            · exact ⟨SameBut.refl s, rfl⟩
            · exact ⟨popScope_but s, popScope_nodes s⟩
          obtain ⟨⟨v1, v2, v3, v4, v5, v6, v7⟩, v8⟩ := hpop
            (inlineRun total ra.1 f' ra.2 (o.map (fun o => o.map (qualifyValue st.cur)))).1
          refine b1.placeMany _ (fun c hc => by rw [b4]; exact b9 c hc) ?_ _ ?_ _
            (by simp only [St.L] at v1 u1 ⊢; rw [v1, u1]) (by simp only []; rw [v2, u2, r3]) (by simp only []; rw [v3, u3])
            (by simp only []; rw [v4, u4]) (by simp only []; rw [v5, u5]) (by simp only []; rw [v8, r1, b5])
            (by simp only []; rw [v6, u6]) (by simp only []; rw [v7, u7])
          · intro i hi
            simp only [List.mem_flatMap] at hi
            exact hi
          · intro i hi
            simp only [List.mem_map] at hi
            obtain ⟨x, _, hx⟩ := hi
            exact b10 x i hx

theorem Bnd.stepAll (total : Bool) (fns : List Fn) (st : St) (it : Item) (h : Bnd st) :
    Bnd (OV.C18.step total fns st it) := by
  by_cases hw : wfItem it = true
  · exact Bnd.step total fns st it hw h
  · cases it with
    | inline f a o p as => exact Bnd.doInline total fns st f a o p as h
    | _ => simp [wfItem] at hw

theorem Bnd.foldlAll (total : Bool) (fns : List Fn) : ∀ (tr : List Item) (st : St),
    Bnd st → Bnd (tr.foldl (OV.C18.step total fns) st)
  | [], _, h => h
  | it :: r, st, h => by
    simp only [List.foldl_cons]
    exact Bnd.foldlAll total fns r _ (Bnd.stepAll total fns st it h)

/-- `doInline` on its success path, literal operands allowed: the clones are made in the state `ra.1` in which the
    literal operands have been promoted. -/
theorem doInline_appends_gen (total : Bool) (fns : List Fn) (st : St) (fi : Nat) (args : List Arg)
    (outs : Option (List String)) (pfx : String) (as : List (String × AVal)) (f : Fn) (hf : fns[fi]? = some f)
    (h1 : (!inlineAdapts && !args.all isRef) = false) (h2 : ¬ args.length > f.formals.length)
    (h3 : outsMismatch outs f = false) :
    (doInline total fns st fi args outs pfx as).cur.nodes = st.cur.nodes ++
      (inlineClones total (resolveArgs (if pfx = "" then st else pushScope st pfx) args).1
        (resolveFn (effectiveAttrs total f as) f)
        (resolveArgs (if pfx = "" then st else pushScope st pfx) args).2).2.2 ∧
    (doInline total fns st fi args outs pfx as).handles = st.handles ++ f.outputs.map (vmapGet
      (inlineClones total (resolveArgs (if pfx = "" then st else pushScope st pfx) args).1
        (resolveFn (effectiveAttrs total f as) f)
        (resolveArgs (if pfx = "" then st else pushScope st pfx) args).2).2.1) ∧
    (doInline total fns st fi args outs pfx as).cache
      = (resolveArgs (if pfx = "" then st else pushScope st pfx) args).1.cache ∧
    (doInline total fns st fi args outs pfx as).inits
      = (resolveArgs (if pfx = "" then st else pushScope st pfx) args).1.inits ∧
    (doInline total fns st fi args outs pfx as).cur.inputs = st.cur.inputs ∧
    (resolveArgs (if pfx = "" then st else pushScope st pfx) args).1.L ≤ (doInline total fns st fi args outs pfx as).L := by
  have hs0 : ∀ s : St, (if pfx = "" then s else pushScope s pfx).cur.nodes = s.cur.nodes ∧
      (if pfx = "" then s else pushScope s pfx).handles = s.handles ∧
      (if pfx = "" then s else pushScope s pfx).cur.inputs = s.cur.inputs := by
    intro s; split <;> simp [pushScope]
  obtain ⟨z1, z2, z3⟩ := hs0 st
  unfold doInline doInlineWith
  simp only [hf, h1, Bool.false_eq_true, if_false, h2, h3]
  generalize (if pfx = "" then st else pushScope st pfx) = st0 at z1 z2 z3 ⊢
  obtain ⟨f1, f2⟩ := resolveArgs_frame args st0
  generalize hra : resolveArgs st0 args = ra at f1 f2 ⊢
  obtain ⟨r1, r2, r3⟩ := inlineRun_spec total ra.1 (resolveFn (effectiveAttrs total f as) f) ra.2
    (outs.map (fun o => o.map (qualifyValue st.cur)))
  obtain ⟨u1, u2, u3, u4, u5, u6, u7⟩ := inlineRun_but total ra.1 (resolveFn (effectiveAttrs total f as) f) ra.2
    (outs.map (fun o => o.map (qualifyValue st.cur)))
  have hcl : (inlineClones total ra.1 (resolveFn (effectiveAttrs total f as) f) ra.2).1.cache = ra.1.cache ∧
      (inlineClones total ra.1 (resolveFn (effectiveAttrs total f as) f) ra.2).1.inits = ra.1.inits ∧
      (inlineClones total ra.1 (resolveFn (effectiveAttrs total f as) f) ra.2).1.cur = ra.1.cur ∧
      ra.1.L ≤ (inlineClones total ra.1 (resolveFn (effectiveAttrs total f as) f) ra.2).1.L := by
    unfold inlineClones
    exact ⟨cloneNodes_cache _ _ _ _, cloneNodes_inits _ _ _ _, cloneNodes_csd _ _ _ _, cloneNodes_L_le _ _ _ _⟩
  obtain ⟨k1, k2, k3, k4⟩ := hcl
  have hout : (resolveFn (effectiveAttrs total f as) f).outputs = f.outputs := rfl
  rw [hout] at r3
  have hpop : ∀ s : St, SameBut s (if pfx = "" then s else popScope s) ∧
      (if pfx = "" then s else popScope s).cur.nodes = s.cur.nodes := by
    intro s; split
    · exact ⟨SameBut.refl s, rfl⟩
    · exact ⟨popScope_but s, popScope_nodes s⟩
  obtain ⟨⟨v1, v2, v3, v4, v5, v6, v7⟩, v8⟩ := hpop
    (inlineRun total ra.1 (resolveFn (effectiveAttrs total f as) f) ra.2
      (outs.map (fun o => o.map (qualifyValue st.cur)))).1
  refine ⟨by rw [v8, r1, f1, z1], by rw [v2, r2, r3, f2, z2], by rw [v3, u3, k1], by rw [v4, u4, k2],
    by rw [v5, u5, k3, f1, z3], ?_⟩
  simp only [St.L] at v1 u1 k4 ⊢
  omega

/-! ## the simulation through `call_inline` -/

theorem cloneNodes_outs_ge (np : String) : ∀ (nodes : List FNode) (st : St) (m : VMap),
    ∀ c ∈ (cloneNodes st m np nodes).2.2, ∀ o ∈ c.outs, st.L ≤ o
  | [], _, _ => by simp [cloneNodes]
  | n :: r, st, m => by
    intro c hc o ho
    simp only [cloneNodes, List.mem_cons] at hc
    obtain ⟨i1, i2⟩ := newValues_ids st (n.outs.map (fun o => if o = "" then "" else np ++ o))
    rcases hc with rfl | hc
    · simp only [cloneNode] at ho
      rw [i1] at ho
      simp only [List.mem_map, List.mem_range] at ho
      obtain ⟨j, _, rfl⟩ := ho
      omega
    · have := cloneNodes_outs_ge np r (cloneNode st m np n).1 (cloneNode st m np n).2.1 c hc o ho
      have hL : st.L ≤ (cloneNode st m np n).1.L := by
        simp only [cloneNode]; rw [i2]; omega
      omega

theorem args_vals_refs (S : OpSem α) (st : St) (r : RSt α) (E : Env α)
    (hv : st.handles.map (fun o => o.bind E) = r.henv) :
    ∀ (a : List Arg), a.all isRef = true →
      (resolveArgs st a).2.map (fun o => o.bind E) = a.map (argVal S r.henv)
  | [], _ => rfl
  | .ref h :: rest, hr => by
    simp only [List.all_cons, isRef, Bool.true_and] at hr
    simp only [resolveArgs, List.map_cons, argVal, List.cons.injEq]
    exact ⟨by rw [← hv, getD_map_bind], args_vals_refs S st r E hv rest hr⟩
  | .none :: rest, hr => by
    simp only [List.all_cons, isRef, Bool.true_and] at hr
    simp only [resolveArgs, List.map_cons, argVal, List.cons.injEq]
    exact ⟨rfl, args_vals_refs S st r E hv rest hr⟩
  | .lit _ :: _, hr => by simp [isRef] at hr

/-- what `doInline` leaves untouched on its success path. -/
theorem doInline_fields (total : Bool) (fns : List Fn) (st : St) (fi : Nat) (args : List Arg)
    (outs : Option (List String)) (pfx : String) (as : List (String × AVal)) (f : Fn) (hf : fns[fi]? = some f)
    (h1 : args.all isRef = true) (h2 : ¬ args.length > f.formals.length) (h3 : outsMismatch outs f = false) :
    (doInline total fns st fi args outs pfx as).cache = st.cache ∧
    (doInline total fns st fi args outs pfx as).inits = st.inits ∧
    (doInline total fns st fi args outs pfx as).cur.inputs = st.cur.inputs ∧
    st.L ≤ (doInline total fns st fi args outs pfx as).L := by
  have hst0 : ∀ s : St, SameBut s (if pfx = "" then s else pushScope s pfx) := by
    intro s; split
    · exact SameBut.refl s
    · simp [SameBut, pushScope, St.L]
  generalize hs0 : (if pfx = "" then st else pushScope st pfx) = st0
  obtain ⟨a1, a2, a3, a4, a5, a6, a7⟩ := hs0 ▸ hst0 st
  have hb := cloneNodes_wf (autoNodeName st0.cur (nodeCount total st0) (resolveFn (effectiveAttrs total f as) f).name ++ "/")
  obtain ⟨u1, u2, u3, u4, u5, u6, u7⟩ := inlineRun_but total st0 (resolveFn (effectiveAttrs total f as) f)
    (resolveArgs st0 args).2 (outs.map (fun o => o.map (qualifyValue st.cur)))
  have hc3 : (inlineClones total st0 (resolveFn (effectiveAttrs total f as) f) (resolveArgs st0 args).2).1.cache = st0.cache ∧
      (inlineClones total st0 (resolveFn (effectiveAttrs total f as) f) (resolveArgs st0 args).2).1.inits = st0.inits ∧
      (inlineClones total st0 (resolveFn (effectiveAttrs total f as) f) (resolveArgs st0 args).2).1.cur = st0.cur ∧
      st0.L ≤ (inlineClones total st0 (resolveFn (effectiveAttrs total f as) f) (resolveArgs st0 args).2).1.L := by
    unfold inlineClones
    refine ⟨?_, ?_, cloneNodes_csd _ _ _ _, ?_⟩
    · exact cloneNodes_cache _ _ _ _
    · exact cloneNodes_inits _ _ _ _
    · exact cloneNodes_L_le _ _ _ _
  obtain ⟨k1, k2, k3, k4⟩ := hc3
  have hpop : ∀ s : St, SameBut s (if pfx = "" then s else popScope s) := by
    intro s; split
    · exact SameBut.refl s
    · exact popScope_but s
  obtain ⟨v1, v2, v3, v4, v5, v6, v7⟩ := hpop
    (inlineRun total st0 (resolveFn (effectiveAttrs total f as) f) (resolveArgs st0 args).2
      (outs.map (fun o => o.map (qualifyValue st.cur)))).1
  unfold doInline doInlineWith
  simp only [hf, h1, Bool.not_true, Bool.and_false, Bool.false_eq_true, if_false, h2, h3, hs0,
    resolveArgs_refs args _ h1]
  refine ⟨by rw [v3, u3, k1, a3], by rw [v4, u4, k2, a4], by rw [v5, u5, k3, a5], ?_⟩
  simp only [St.L] at v1 u1 k4 a1 ⊢
  omega

theorem args_vals_ok (S : OpSem α) (st : St) (r : RSt α) (E Eo : Env α) (cache' : List (CKey × Nat))
    (hv : st.handles.map (fun o => o.bind E) = r.henv) (hbnd : ∀ i, some i ∈ st.handles → i < st.L)
    (hA : ∀ i, i < st.L → Eo i = E i) (hlit : ∀ k id, (k, id) ∈ cache' → Eo id = some (S.lit k)) :
    ∀ (a : List Arg) (ins : List (Option Nat)), List.Forall₂ (ArgOK st.handles cache') a ins →
      ins.map (fun i => i.bind Eo) = a.map (argVal S r.henv) := by
  intro a ins hins
  induction hins with
  | nil => rfl
  | @cons x o xs os hx _ ih =>
    simp only [List.map_cons, List.cons.injEq]
    refine ⟨?_, ih⟩
    cases x with
    | ref hd =>
      simp only [ArgOK] at hx
      simp only [argVal, ← hv, getD_map_bind, ← hx]
      cases o with
      | none => rfl
      | some i =>
        simp only [Option.bind_some]
        exact hA i (hbnd i (getD_mem hx.symm))
    | none => simp only [ArgOK] at hx; simp [hx, argVal]
    | lit l =>
      obtain ⟨id, rfl, hm⟩ := hx
      simp only [Option.bind_some, argVal]
      exact hlit _ id hm

/-- promoting literal operands (and nothing else) keeps the simulation: new initializers are fresh ids. -/
theorem sim_resolveArgs (S : OpSem α) (args : List α) (st : St) (r : RSt α) (a : List Arg)
    (h : Sim S args st r) : Sim S args (resolveArgs st a).1 r := by
  obtain ⟨q1, ⟨ext, q2, q3⟩, _, q5⟩ := resolveArgs_sem a st h.cok
  obtain ⟨w1, w2, _, w4, _, _⟩ := resolveArgs_spec a st h.bnd
  have hold : ∀ k ∈ st.cur.nodes, NodeOK st.L st.inits k := h.bnd.nodes st.cur (by simp [St.frames])
  have hE : ∀ i, i < st.L → evalGraph S (resolveArgs st a).1 args i = evalGraph S st args i := by
    intro i hi
    unfold evalGraph
    rw [q5]
    apply evalNodes_agree S st.L _ _ _ _ (fun k hk j hj => ((hold k hk).2 j hj).1) i hi
    intro j hj
    unfold baseEnv
    rw [q2, q5]
    exact baseOf_cache_exts S _ _ _ _ j (fun e he => by have := q3 e he; omega)
  refine ⟨w1, q1, by rw [h.nin, q5], ?_, ?_⟩
  · intro n hn o ho hmem
    rw [q5] at hn
    rw [q1.inits, q2, List.map_append, List.mem_append] at hmem
    rcases hmem with x | x
    · exact h.sep n hn o ho (h.cok.inits ▸ x)
    · obtain ⟨e, he, he2⟩ := List.mem_map.mp x
      have h3 := q3 e he
      have h4 := (hold n hn).1 _ ho
      omega
  · rw [w2, ← h.vals]
    apply List.map_congr_left
    intro o ho
    cases o with
    | none => rfl
    | some i => exact hE i (h.bnd.handles i ho)

theorem sim_pushScope (S : OpSem α) (args : List α) (st : St) (r : RSt α) (p : String)
    (h : Sim S args st r) : Sim S args (pushScope st p) r :=
  sim_meta S args st _ r h (h.bnd.curMeta rfl rfl rfl rfl rfl rfl rfl rfl) (Nat.le_refl _) rfl rfl rfl rfl rfl

theorem sim_popScope (S : OpSem α) (args : List α) (st : St) (r : RSt α)
    (h : Sim S args st r) : Sim S args (popScope st) r := by
  unfold popScope
  split
  · exact sim_fail S args st r _ h
  · exact sim_meta S args st _ r h (h.bnd.curMeta rfl rfl rfl rfl rfl rfl rfl rfl) (Nat.le_refl _) rfl rfl rfl rfl rfl

theorem sim_inline (S : OpSem α) (fns : List Fn) (args : List α) (st : St) (r : RSt α)
    (fi : Nat) (a : List Arg) (o : Option (List String)) (p : String) (as : List (String × AVal))
    (hssa : ∀ f ∈ fns, ∀ n ∈ f.nodes, n.outs.Nodup) (h : Sim S args st r) :
    Sim S args (doInline true fns st fi a o p as) (replayStep S fns args r (.inline fi a o p as)) := by
  cases hf : fns[fi]? with
  | none =>
    simp only [doInline, doInlineWith, replayStep, hf]
    exact sim_fail S args st r _ h
  | some f =>
    cases h1 : (!inlineAdapts && !a.all isRef) with
    | true =>
      simp only [doInline, doInlineWith, replayStep, hf, h1, if_true, Bool.true_or]
      exact sim_fail S args st r _ h
    | false =>
      by_cases h2 : a.length > f.formals.length
      · cases h3 : outsMismatch o f with
        | true =>
          simp only [doInline, doInlineWith, replayStep, hf, h1, h2, h3, Bool.false_eq_true, if_false, if_true,
            decide_true, Bool.true_or, Bool.or_true, Bool.false_or]
          exact sim_fail S args st r _ h
        | false =>
          simp only [doInline, doInlineWith, replayStep, hf, h1, h2, h3, Bool.false_eq_true, if_false, if_true,
            decide_true, Bool.true_or, Bool.or_true, Bool.false_or]
          apply sim_fail
          have hs0 : Sim S args (if p = "" then st else pushScope st p) r := by
            split
            · exact h
            · exact sim_pushScope S args st r p h
          have hra := sim_resolveArgs S args _ r a hs0
          split
          · exact hra
          · exact sim_popScope S args _ r hra
      · cases h3 : outsMismatch o f with
        | true =>
          simp only [doInline, doInlineWith, replayStep, hf, h1, h2, h3, Bool.false_eq_true, if_false, if_true,
            decide_false, Bool.or_true, Bool.false_or]
          exact sim_fail S args st r _ h
        | false =>
          have hfm : f ∈ fns := List.mem_of_getElem? hf
          obtain ⟨n1, n2, q1, q2, q3, q4⟩ := doInline_appends_gen true fns st fi a o p as f hf h1 h2 h3
          have hb := Bnd.doInline true fns st fi a o p as h.bnd
          have hrep : replayStep S fns args r (.inline fi a o p as)
              = ⟨r.henv ++ callMeaning S f as (a.map (argVal S r.henv)), r.nin⟩ := by
            simp [replayStep, hf, h1, h2, h3]
          rw [hrep]
          -- the builder the body is inlined into (scope pushed): same values, cache and nodes as `st`
          have hs0 : ∀ s : St, (if p = "" then s else pushScope s p).handles = s.handles ∧
              (if p = "" then s else pushScope s p).L = s.L ∧
              (if p = "" then s else pushScope s p).cache = s.cache ∧
              (if p = "" then s else pushScope s p).inits = s.inits := by
            intro s; split <;> simp [pushScope, St.L]
          obtain ⟨z1, z2, z3, z4⟩ := hs0 st
          have h0 : Bnd (if p = "" then st else pushScope st p) := by
            split
            · exact h.bnd
            · exact h.bnd.curMeta rfl rfl rfl rfl rfl rfl rfl rfl
          generalize hst0 : (if p = "" then st else pushScope st p) = st0 at n1 n2 q1 q2 q4 z1 z2 z3 z4 h0
          have hcok0 : CacheOK st0 := ⟨z3 ▸ h.cok.nodup, by rw [z4, z3]; exact h.cok.inits,
            fun e he => by rw [z2]; exact h.cok.bound e (z3 ▸ he)⟩
          obtain ⟨cq1, ⟨ext, cq2, cq3⟩, cq4, _⟩ := resolveArgs_sem a st0 hcok0
          obtain ⟨w1, _, _, w4, _, w6⟩ := resolveArgs_spec a st0 h0
          have hact : ∀ i, some i ∈ (resolveArgs st0 a).2 → i < (resolveArgs st0 a).1.L := by
            intro i hi
            rcases w6 i hi with x | x
            · exact w1.inits i x
            · exact Nat.lt_of_lt_of_le (h0.handles i x) w4
          generalize hra : resolveArgs st0 a = ra at n1 n2 q1 q2 q4 cq1 cq2 cq4 w4 hact
          generalize hf' : resolveFn (effectiveAttrs true f as) f = f' at n1 n2
          have hfo : f'.outputs = f.outputs := by rw [← hf']; rfl
          have hssa' : ∀ n ∈ f'.nodes, n.outs.Nodup := by
            intro n hn
            rw [← hf'] at hn
            simp only [resolveFn, List.mem_map] at hn
            obtain ⟨n0, hn0, rfl⟩ := hn
            exact hssa f hfm n0 hn0
          -- old nodes in the base environment with the promoted literals
          have hold : ∀ k ∈ st.cur.nodes, NodeOK st.L st.inits k := h.bnd.nodes st.cur (by simp [St.frames])
          have hcache' : (doInline true fns st fi a o p as).cache = st.cache ++ ext := by rw [q1, cq2, z3]
          have hA : ∀ i, i < st.L →
              evalNodes S (baseEnv S (doInline true fns st fi a o p as) args) st.cur.nodes i = evalGraph S st args i := by
            intro i hi
            unfold evalGraph
            apply evalNodes_agree S st.L _ _ _ _ (fun k hk j hj => ((hold k hk).2 j hj).1) i hi
            intro j hj
            unfold baseEnv
            rw [hcache', q3]
            exact baseOf_cache_exts S _ _ _ _ j (fun e he => by have := cq3 e he; rw [z2] at this; omega)
          have hcok' : CacheOK (doInline true fns st fi a o p as) := cq1.grow q1 q2 q4
          have hlitid : ∀ k id, (k, id) ∈ ra.1.cache →
              evalNodes S (baseEnv S (doInline true fns st fi a o p as) args) st.cur.nodes id = some (S.lit k) := by
            intro k id hm
            rw [evalNodes_other]
            · exact baseOf_cached S _ _ _ hcok'.nodup k id (by rw [q1]; exact hm)
            · intro nd hnd hcon
              rw [cq2, z3] at hm
              rcases List.mem_append.mp hm with x | x
              · exact h.sep nd hnd id hcon (by rw [h.cok.inits]; exact List.mem_map_of_mem (f := (·.2)) x)
              · have := cq3 _ x
                have := (hold nd hnd).1 id hcon
                rw [z2] at *
                omega
          have hargs := args_vals_ok S st r (evalGraph S st args)
            (evalNodes S (baseEnv S (doInline true fns st fi a o p as) args) st.cur.nodes) ra.1.cache
            h.vals h.bnd.handles hA hlitid a ra.2 (by rw [← z1]; exact cq4)
          unfold inlineClones at n1 n2
          obtain ⟨c1, c2, _⟩ := cloneNodes_sim S
            (autoNodeName ra.1.cur (nodeCount true ra.1) f'.name ++ "/") f'.nodes ra.1 (f'.formals.zip ra.2)
            (evalNodes S (baseEnv S (doInline true fns st fi a o p as) args) st.cur.nodes)
            (bindFormals f'.formals (ra.2.map (fun x => x.bind
              (evalNodes S (baseEnv S (doInline true fns st fi a o p as) args) st.cur.nodes))))
            (vmapGet_zip_bound f'.formals _ ra.1.L hact) (rel_formals _ f'.formals _) hssa'
          have hge := cloneNodes_outs_ge (autoNodeName ra.1.cur (nodeCount true ra.1) f'.name ++ "/") f'.nodes ra.1
            (f'.formals.zip ra.2)
          generalize hcl : cloneNodes ra.1 (f'.formals.zip ra.2)
            (autoNodeName ra.1.cur (nodeCount true ra.1) f'.name ++ "/") f'.nodes = cl at n1 n2 c1 c2 hge
          have hE : evalGraph S (doInline true fns st fi a o p as) args
              = evalNodes S (evalNodes S (baseEnv S (doInline true fns st fi a o p as) args) st.cur.nodes) cl.2.2 := by
            unfold evalGraph
            rw [n1]
            simp [evalNodes, List.foldl_append]
          have hL : st.L ≤ ra.1.L := by rw [← z2]; exact w4
          refine ⟨hb, hcok', by rw [h.nin, q3], ?_, ?_⟩
          · intro nd hnd x hx hcon
            rw [hcok'.inits] at hcon
            simp only [List.mem_map] at hcon
            obtain ⟨e, he, rfl⟩ := hcon
            rw [n1] at hnd
            rcases List.mem_append.mp hnd with y | y
            · rw [hcache'] at he
              rcases List.mem_append.mp he with u | u
              · exact h.sep nd y e.2 hx (by rw [h.cok.inits]; exact List.mem_map_of_mem (f := (·.2)) u)
              · have := cq3 e u
                have := (hold nd y).1 e.2 hx
                rw [z2] at *
                omega
            · have := hge nd y e.2 hx
              have := cq1.bound e (by rw [← q1]; exact he)
              omega
          · rw [n2, List.map_append, hE]
            congr 1
            · rw [← h.vals]
              apply List.map_congr_left
              intro x hx
              cases x with
              | none => rfl
              | some i =>
                simp only [Option.bind_some]
                have hi := h.bnd.handles i hx
                rw [c2 i (Nat.lt_of_lt_of_le hi hL)]
                exact hA i hi
            · simp only [callMeaning, evalBody, hf', List.map_map, hfo, ← hargs]
              apply List.map_congr_left
              intro x _
              exact c1 x

theorem sim_step (S : OpSem α) (fns : List Fn) (args : List α) (st : St) (r : RSt α)
    (it : Item) (hssa : ∀ f ∈ fns, ∀ n ∈ f.nodes, n.outs.Nodup) (hs : simItem it = true) (h : Sim S args st r) :
    Sim S args (step true fns st it) (replayStep S fns args r it) := by
  have hb := Bnd.stepAll true fns st it h.bnd
  cases it with
  | input n => exact sim_input S fns args st r n h
  | op t a o nn g as => exact sim_op S fns args true st r t a o nn g as h
  | push n => exact sim_meta S args st _ r h hb (Nat.le_refl _) rfl rfl rfl rfl rfl
  | pop =>
    simp only [step, popScope, replayStep] at hb ⊢
    split
    · exact sim_fail S args st r _ h
    · exact sim_meta S args st _ r h (by simpa [*] using hb) (Nat.le_refl _) rfl rfl rfl rfl rfl
  | call fi a o as =>
    cases hf : fns[fi]? with
    | none =>
      simp only [step, doCall, hf, replayStep]
      exact sim_fail S args st r _ h
    | some f => exact sim_call S fns args true st r fi a o as f hf h
  | inline f a o p as => exact sim_inline S fns args st r f a o p as hssa h
  | beginSub g i => simp [simItem] at hs
  | endSub r d => simp [simItem] at hs
  | abortSub => simp [simItem] at hs
  | output hd n =>
    refine sim_meta S args st _ r h hb ?_ ?_ ?_ ?_ ?_ ?_ <;>
      (simp only [step, doOutput]; split <;> [skip; (split <;> [split; skip])]) <;>
      simp [fail, renameValue, St.L] <;> (try split) <;> simp

theorem sim_foldl (S : OpSem α) (fns : List Fn) (args : List α)
    (hssa : ∀ f ∈ fns, ∀ n ∈ f.nodes, n.outs.Nodup) :
    ∀ (tr : List Item) (st : St) (r : RSt α), (∀ it ∈ tr, simItem it = true) → Sim S args st r →
    Sim S args (tr.foldl (step true fns) st) (tr.foldl (replayStep S fns args) r)
  | [], _, _, _, h => h
  | it :: rest, st, r, hs, h => by
    simp only [List.foldl_cons]
    exact sim_foldl S fns args hssa rest _ _ (fun x hx => hs x (by simp [hx]))
      (sim_step S fns args st r it hssa (hs it (by simp)) h)

end OV.C18
