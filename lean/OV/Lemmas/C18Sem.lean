import OV.Model.C18Sem
import OV.Lemmas.C18WF
import Mathlib.Data.List.Nodup
import Mathlib.Data.List.Range
/-! Helper lemmas for C18 semantics: α-renaming (inlined body = function body), frame lemmas for
`evalNodes`, and the simulation between `build` and `replay`. -/
namespace OV.C18

variable {α : Type}

/-! ## environments -/

theorem bindOuts_other (e : Env α) : ∀ (os : List Nat) (vs : List α) (i : Nat), i ∉ os →
    bindOuts e os vs i = e i
  | [], _, _, _ => rfl
  | o :: os, vs, i, h => by
    simp only [List.mem_cons, not_or] at h
    simp only [bindOuts]
    rw [bindOuts_other _ os vs.tail i h.2]
    simp [Env.set, h.1]

theorem bindNames_other (e : NEnv α) : ∀ (os : List String) (vs : List α) (x : String), x ∉ os →
    bindNames e os vs x = e x
  | [], _, _, _ => rfl
  | o :: os, vs, x, h => by
    simp only [List.mem_cons, not_or] at h
    simp only [bindNames]
    rw [bindNames_other _ os vs.tail x h.2]
    simp [NEnv.set, h.1]

/-- binding distinct names / distinct ids position by position gives the same value at matching positions. -/
theorem bind_zip (e : Env α) (ne : NEnv α) : ∀ (names : List String) (ids : List Nat) (vs : List α),
    names.length = ids.length → names.Nodup → ids.Nodup →
    ∀ (x : String) (i : Nat), (x, i) ∈ names.zip ids → bindOuts e ids vs i = bindNames ne names vs x
  | [], [], _, _, _, _, x, i, h => by simp at h
  | [], _ :: _, _, hl, _, _, _, _, _ => by simp at hl
  | _ :: _, [], _, hl, _, _, _, _, _ => by simp at hl
  | n :: ns, d :: ds, vs, hl, hn, hd, x, i, h => by
    simp only [List.zip_cons_cons, List.mem_cons, Prod.mk.injEq] at h
    simp only [List.nodup_cons] at hn hd
    simp only [List.length_cons, Nat.add_right_cancel_iff] at hl
    simp only [bindOuts, bindNames]
    rcases h with ⟨rfl, rfl⟩ | h
    · rw [bindOuts_other _ ds _ _ hd.1, bindNames_other _ ns _ _ hn.1]
      simp [Env.set, NEnv.set]
    · exact bind_zip _ _ ns ds vs.tail hl hn.2 hd.2 x i h

/-! ## the inliner's value map -/

theorem vmapGet_cons (k : String) (v : Option Nat) (m : VMap) (x : String) :
    vmapGet ((k, v) :: m) x = if k = x then v else vmapGet m x := by
  unfold vmapGet
  by_cases h : k = x <;> simp [List.find?_cons, h]

theorem vmapGet_zip_miss : ∀ (names : List String) (ids : List Nat) (m : VMap) (x : String), x ∉ names →
    vmapGet ((names.zip (ids.map some)) ++ m) x = vmapGet m x
  | [], _, _, _, _ => by simp
  | _ :: _, [], _, _, _ => by simp
  | n :: ns, d :: ds, m, x, h => by
    simp only [List.mem_cons, not_or] at h
    simp only [List.map_cons, List.zip_cons_cons, List.cons_append, vmapGet_cons]
    rw [if_neg (fun e => h.1 e.symm)]
    exact vmapGet_zip_miss ns ds m x h.2

theorem vmapGet_zip_hit : ∀ (names : List String) (ids : List Nat) (m : VMap) (x : String),
    names.length = ids.length → x ∈ names →
    ∃ i, (x, i) ∈ names.zip ids ∧ vmapGet ((names.zip (ids.map some)) ++ m) x = some i
  | [], _, _, _, _, h => by simp at h
  | _ :: _, [], _, _, hl, _ => by simp at hl
  | n :: ns, d :: ds, m, x, hl, h => by
    simp only [List.length_cons, Nat.add_right_cancel_iff] at hl
    simp only [List.map_cons, List.zip_cons_cons, List.cons_append, vmapGet_cons, List.mem_cons,
      Prod.mk.injEq]
    by_cases e : n = x
    · exact ⟨d, Or.inl ⟨e.symm, rfl⟩, by simp [e]⟩
    · simp only [List.mem_cons] at h
      rcases h with h | h
      · exact absurd h.symm e
      · obtain ⟨i, hi, hv⟩ := vmapGet_zip_hit ns ds m x hl h
        exact ⟨i, Or.inr hi, by simp [e, hv]⟩

/-- the id-environment and the name-environment agree through the value map. -/
def Rel (m : VMap) (e : Env α) (ne : NEnv α) : Prop := ∀ x, (vmapGet m x).bind e = ne x

theorem range_add_nodup (n L : Nat) : ((List.range n).map (· + L)).Nodup := by
  refine List.Nodup.map_on ?_ List.nodup_range
  intro a _ b _ h
  omega

theorem newValues_ids (st : St) (names : List String) :
    (newValues st names).2 = (List.range names.length).map (· + st.L) ∧
    (newValues st names).1.L = st.L + names.length := by
  unfold newValues
  obtain ⟨a1, a2, _⟩ := newValuesK_spec (names.map VKey.raw) st
  simp only [List.length_map] at a1 a2
  exact ⟨a1, a2⟩

theorem clone_ins_vals (m : VMap) (e : Env α) (ne : NEnv α) (h : Rel m e ne) (ins : List (Option String)) :
    (ins.map (mapIn m)).map (fun i => i.bind e)
      = ins.map (fun i => i.bind ne) := by
  simp only [List.map_map]
  apply List.map_congr_left
  intro i _
  cases i with
  | none => rfl
  | some x => exact h x

theorem cloneNode_sim (S : OpSem α) (st : St) (m : VMap) (np : String) (n : FNode) (e : Env α) (ne : NEnv α)
    (hb : ∀ x id, vmapGet m x = some id → id < st.L) (hr : Rel m e ne) (hn : n.outs.Nodup) :
    Rel (cloneNode st m np n).2.1 (evalNode S e (cloneNode st m np n).2.2) (evalFNode S ne n) ∧
    (∀ x id, vmapGet (cloneNode st m np n).2.1 x = some id → id < (cloneNode st m np n).1.L) ∧
    (∀ i, i < st.L → evalNode S e (cloneNode st m np n).2.2 i = e i) ∧
    st.L ≤ (cloneNode st m np n).1.L := by
  obtain ⟨i1, i2⟩ := newValues_ids st (n.outs.map (fun o => if o = "" then "" else np ++ o))
  simp only [List.length_map] at i1 i2
  simp only [cloneNode, evalNode, evalFNode]
  rw [clone_ins_vals m e ne hr n.ins]
  generalize S.op n.domain n.op "" (n.ins.map (fun i => i.bind ne)) = vs
  have hlen : n.outs.length = (newValues st (n.outs.map (fun o => if o = "" then "" else np ++ o))).2.length := by
    rw [i1]; simp
  have hnd : (newValues st (n.outs.map (fun o => if o = "" then "" else np ++ o))).2.Nodup := by
    rw [i1]; exact range_add_nodup _ _
  have hge : ∀ i ∈ (newValues st (n.outs.map (fun o => if o = "" then "" else np ++ o))).2, st.L ≤ i := by
    intro i hi
    rw [i1] at hi
    simp only [List.mem_map, List.mem_range] at hi
    obtain ⟨j, _, rfl⟩ := hi
    omega
  have hlt : ∀ i ∈ (newValues st (n.outs.map (fun o => if o = "" then "" else np ++ o))).2,
      i < st.L + n.outs.length := by
    intro i hi
    rw [i1] at hi
    simp only [List.mem_map, List.mem_range] at hi
    obtain ⟨j, hj, rfl⟩ := hi
    omega
  refine ⟨?_, ?_, ?_, by rw [i2]; omega⟩
  · intro x
    by_cases hx : x ∈ n.outs
    · obtain ⟨i, hi, hv⟩ := vmapGet_zip_hit n.outs _ m x hlen hx
      rw [hv]
      exact bind_zip e ne n.outs _ vs hlen hn hnd x i hi
    · rw [vmapGet_zip_miss n.outs _ m x hx, bindNames_other _ _ _ _ hx]
      cases hv : vmapGet m x with
      | none => have := hr x; simp only [hv] at this; exact this
      | some id =>
        have hid := hb x id hv
        have := hr x
        simp only [hv, Option.bind_some] at this ⊢
        rw [bindOuts_other _ _ _ _ (fun hc => by have := hge id hc; omega)]
        exact this
  · intro x id hv
    rw [i2]
    by_cases hx : x ∈ n.outs
    · obtain ⟨i, hi, hv'⟩ := vmapGet_zip_hit n.outs _ m x hlen hx
      rw [hv'] at hv
      have hid : i = id := Option.some.inj hv
      rw [← hid]
      exact hlt i (List.of_mem_zip hi).2
    · rw [vmapGet_zip_miss n.outs _ m x hx] at hv
      have := hb x id hv
      omega
  · intro i hi
    exact bindOuts_other _ _ _ _ (fun hc => by have := hge i hc; omega)

theorem cloneNodes_sim (S : OpSem α) (np : String) : ∀ (nodes : List FNode) (st : St) (m : VMap)
    (e : Env α) (ne : NEnv α),
    (∀ x id, vmapGet m x = some id → id < st.L) → Rel m e ne → (∀ n ∈ nodes, n.outs.Nodup) →
    Rel (cloneNodes st m np nodes).2.1 (evalNodes S e (cloneNodes st m np nodes).2.2)
      (nodes.foldl (evalFNode S) ne) ∧
    (∀ i, i < st.L → evalNodes S e (cloneNodes st m np nodes).2.2 i = e i) ∧
    st.L ≤ (cloneNodes st m np nodes).1.L
  | [], st, m, e, ne, _, hr, _ => by
    simp only [cloneNodes, evalNodes, List.foldl_nil]
    exact ⟨hr, fun _ _ => trivial, Nat.le_refl _⟩
  | n :: r, st, m, e, ne, hb, hr, hn => by
    obtain ⟨c1, c2, c3, c4⟩ := cloneNode_sim S st m np n e ne hb hr (hn n (by simp))
    obtain ⟨d1, d2, d3⟩ := cloneNodes_sim S np r (cloneNode st m np n).1 (cloneNode st m np n).2.1
      (evalNode S e (cloneNode st m np n).2.2) (evalFNode S ne n) c2 c1 (fun k hk => hn k (by simp [hk]))
    simp only [cloneNodes, evalNodes, List.foldl_cons] at d1 d2 d3 ⊢
    refine ⟨d1, ?_, Nat.le_trans c4 d3⟩
    intro i hi
    rw [d2 i (Nat.lt_of_lt_of_le hi c4)]
    exact c3 i hi

/-- formals bound to actuals: the initial value map and the initial name environment agree. -/
theorem rel_formals (e : Env α) : ∀ (formals : List String) (actuals : List (Option Nat)),
    Rel (formals.zip actuals) e (bindFormals formals (actuals.map (fun a => a.bind e)))
  | [], _ => by intro x; simp [vmapGet, bindFormals]
  | _ :: _, [] => by intro x; simp [vmapGet, bindFormals]
  | f :: fs, a :: as => by
    intro x
    simp only [List.zip_cons_cons, vmapGet_cons, List.map_cons, bindFormals, NEnv.set]
    by_cases h : f = x
    · simp [h]
    · have : ¬ x = f := fun h' => h h'.symm
      simp only [h, this, if_false]
      exact rel_formals e fs as x

theorem vmapGet_zip_bound (formals : List String) (actuals : List (Option Nat)) (L : Nat)
    (hb : ∀ i, some i ∈ actuals → i < L) : ∀ x id, vmapGet (formals.zip actuals) x = some id → id < L := by
  intro x id h
  unfold vmapGet at h
  cases hf : (formals.zip actuals).find? (fun e => e.1 = x) with
  | none => simp [hf] at h
  | some p =>
    simp only [hf] at h
    have hm := List.mem_of_find?_eq_some hf
    have := (List.of_mem_zip (a := p.1) (b := p.2) hm).2
    exact hb id (h ▸ this)

/-! ## what `doInline` appends -/

theorem cloneNodes_csd (np : String) : ∀ (nodes : List FNode) (st : St) (m : VMap),
    (cloneNodes st m np nodes).1.cur = st.cur
  | [], st, m => rfl
  | n :: r, st, m => by
    simp only [cloneNodes]
    rw [cloneNodes_csd np r]
    simp only [cloneNode, newValues]
    exact (newValuesK_csd _ st).1

theorem addInlined_nodes (finals : List Nat) : ∀ (nodes : List Node) (st : St),
    (addInlined st finals nodes).cur.nodes = st.cur.nodes ++ nodes
  | [], st => by simp [addInlined]
  | n :: r, st => by
    simp only [addInlined]
    rw [addInlined_nodes finals r]
    have hc : SameCore st (n.outs.foldl (fun s o =>
        if nameOf s o ≠ "" ∧ o ∉ finals then renameValue s o (qualifyValue s.cur) else s) st) := by
      apply SameCore.foldl
      intro s o
      split
      · exact SameCore.rename s o _
      · simp [SameCore]
    simp only [addNode, hc.2.2.2.2.1, List.append_assoc, List.singleton_append]

theorem renameFinals_core (st : St) (outs : List (Option Nat)) (d : Option (List String)) :
    SameCore st (renameFinals st outs d) := by
  cases d with
  | some desired =>
    simp only [renameFinals]
    apply SameCore.foldl
    intro s x
    obtain ⟨o, d⟩ := x
    cases o with
    | none => simp [SameCore]
    | some id => exact SameCore.rename s id _
  | none =>
    simp only [renameFinals]
    apply SameCore.foldl
    intro s o
    cases o with
    | none => simp [SameCore]
    | some id =>
      simp only []
      split
      · exact SameCore.rename s id _
      · simp [SameCore]

theorem popScope_nodes (st : St) : (popScope st).cur.nodes = st.cur.nodes := by
  unfold popScope fail
  split
  · split <;> rfl
  · rfl

theorem cloneNodes_handles (np : String) : ∀ (nodes : List FNode) (st : St) (m : VMap),
    (cloneNodes st m np nodes).1.handles = st.handles
  | [], st, m => rfl
  | n :: r, st, m => by
    simp only [cloneNodes]
    rw [cloneNodes_handles np r]
    simp only [cloneNode, newValues]
    exact (newValuesK_spec _ st).2.2.1

theorem addInlined_handles (finals : List Nat) : ∀ (nodes : List Node) (st : St),
    (addInlined st finals nodes).handles = st.handles
  | [], st => by simp [addInlined]
  | n :: r, st => by
    simp only [addInlined]
    rw [addInlined_handles finals r]
    have hc : SameCore st (n.outs.foldl (fun s o =>
        if nameOf s o ≠ "" ∧ o ∉ finals then renameValue s o (qualifyValue s.cur) else s) st) := by
      apply SameCore.foldl
      intro s o
      split
      · exact SameCore.rename s o _
      · simp [SameCore]
    simp only [addNode, hc.2.1]

theorem popScope_handles (st : St) : (popScope st).handles = st.handles := by
  unfold popScope fail
  split
  · split <;> rfl
  · rfl

theorem inlineTail (st1 : St) (nodes : List Node) (finalsO : List (Option Nat)) (desired : Option (List String))
    (pfx : String) :
    (if pfx = "" then renameFinals (addInlined st1 (finalsO.filterMap id) nodes) finalsO desired
      else popScope (renameFinals (addInlined st1 (finalsO.filterMap id) nodes) finalsO desired)).cur.nodes
      = st1.cur.nodes ++ nodes ∧
    (if pfx = "" then renameFinals (addInlined st1 (finalsO.filterMap id) nodes) finalsO desired
      else popScope (renameFinals (addInlined st1 (finalsO.filterMap id) nodes) finalsO desired)).handles
      = st1.handles := by
  have hc := renameFinals_core (addInlined st1 (finalsO.filterMap id) nodes) finalsO desired
  split
  · exact ⟨by rw [hc.2.2.2.2.1, addInlined_nodes], by rw [hc.2.1, addInlined_handles]⟩
  · exact ⟨by rw [popScope_nodes, hc.2.2.2.2.1, addInlined_nodes],
      by rw [popScope_handles, hc.2.1, addInlined_handles]⟩

/-- on the success path `call_inline` appends exactly the clones of the body to the current graph and
    returns the values the function's outputs are mapped to. -/
theorem doInline_appends (total : Bool) (fns : List Fn) (st : St) (fi : Nat) (args : List Arg)
    (outs : Option (List String)) (pfx : String) (f : Fn) (hf : fns[fi]? = some f)
    (h1 : args.all isRef = true) (h2 : ¬ args.length > f.formals.length)
    (h3 : outsMismatch outs f = false) :
    (doInline total fns st fi args outs pfx).cur.nodes = st.cur.nodes ++
      (inlineClones total (if pfx = "" then st else pushScope st pfx) f
        (resolveArgs (if pfx = "" then st else pushScope st pfx) args).2).2.2 ∧
    (doInline total fns st fi args outs pfx).handles = st.handles ++ f.outputs.map (vmapGet
      (inlineClones total (if pfx = "" then st else pushScope st pfx) f
        (resolveArgs (if pfx = "" then st else pushScope st pfx) args).2).2.1) := by
  have hst0 : (if pfx = "" then st else pushScope st pfx).cur.nodes = st.cur.nodes := by
    split <;> simp [pushScope]
  have hst0h : (if pfx = "" then st else pushScope st pfx).handles = st.handles := by
    split <;> simp [pushScope]
  unfold doInline
  simp only [hf, h1, Bool.not_true, Bool.false_eq_true, if_false, h2]
  rw [if_neg (by simp [h3])]
  simp only []
  obtain ⟨t1, t2⟩ := inlineTail
    (inlineClones total (if pfx = "" then st else pushScope st pfx) f
      (resolveArgs (if pfx = "" then st else pushScope st pfx) args).2).1
    (inlineClones total (if pfx = "" then st else pushScope st pfx) f
      (resolveArgs (if pfx = "" then st else pushScope st pfx) args).2).2.2
    (f.outputs.map (vmapGet (inlineClones total (if pfx = "" then st else pushScope st pfx) f
      (resolveArgs (if pfx = "" then st else pushScope st pfx) args).2).2.1))
    (outs.map (fun o => o.map (qualifyValue st.cur))) pfx
  refine ⟨?_, ?_⟩
  · rw [t1]
    unfold inlineClones
    rw [cloneNodes_csd, hst0]
  · rw [t2]
    unfold inlineClones
    rw [cloneNodes_handles, hst0h]

/-! ## frame lemmas for evaluation -/

theorem bindOuts_agree (L : Nat) : ∀ (os : List Nat) (vs : List α) (e1 e2 : Env α),
    (∀ i, i < L → e1 i = e2 i) → ∀ i, i < L → bindOuts e1 os vs i = bindOuts e2 os vs i
  | [], _, _, _, h, i, hi => h i hi
  | o :: os, vs, e1, e2, h, i, hi => by
    simp only [bindOuts]
    apply bindOuts_agree L os vs.tail _ _ _ i hi
    intro j hj
    simp only [Env.set]
    split
    · rfl
    · exact h j hj

theorem evalNodes_agree (S : OpSem α) (L : Nat) : ∀ (ns : List Node) (e1 e2 : Env α),
    (∀ i, i < L → e1 i = e2 i) → (∀ n ∈ ns, ∀ i, some i ∈ n.ins → i < L) →
    ∀ i, i < L → evalNodes S e1 ns i = evalNodes S e2 ns i
  | [], _, _, h, _, i, hi => h i hi
  | n :: r, e1, e2, h, hn, i, hi => by
    simp only [evalNodes, List.foldl_cons]
    apply evalNodes_agree S L r _ _ _ (fun k hk => hn k (by simp [hk])) i hi
    intro j hj
    simp only [evalNode]
    have hins : n.ins.map (fun i => i.bind e1) = n.ins.map (fun i => i.bind e2) := by
      apply List.map_congr_left
      intro o ho
      cases o with
      | none => rfl
      | some k => exact h k (hn n (by simp) k ho)
    rw [hins]
    exact bindOuts_agree L _ _ _ _ h j hj

theorem evalNodes_other (S : OpSem α) : ∀ (ns : List Node) (e : Env α) (i : Nat),
    (∀ n ∈ ns, i ∉ n.outs) → evalNodes S e ns i = e i
  | [], _, _, _ => rfl
  | n :: r, e, i, h => by
    simp only [evalNodes, List.foldl_cons]
    have := evalNodes_other S r (evalNode S e n) i (fun k hk => h k (by simp [hk]))
    simp only [evalNodes] at this
    rw [this]
    exact bindOuts_other _ _ _ _ (h n (by simp))

theorem bindOuts_get (e : Env α) : ∀ (ids : List Nat) (vs : List α), ids.Nodup →
    ids.map (fun i => bindOuts e ids vs i) = takeN vs ids.length
  | [], _, _ => rfl
  | d :: ds, vs, h => by
    simp only [List.nodup_cons] at h
    simp only [List.map_cons, bindOuts, List.length_cons, takeN, List.cons.injEq]
    refine ⟨?_, ?_⟩
    · rw [bindOuts_other _ _ _ _ h.1]; simp [Env.set]
    · rw [← bindOuts_get (e.set d vs.head?) ds vs.tail h.2]

theorem evalNodes_append (S : OpSem α) (e : Env α) (ns : List Node) (n : Node) :
    evalNodes S e (ns ++ [n]) = evalNode S (evalNodes S e ns) n := by
  simp [evalNodes]

/-! ## the base environment under extension -/

theorem posOf_snoc_ne (i L : Nat) (h : i ≠ L) : ∀ l : List Nat, posOf i (l ++ [L]) = posOf i l
  | [] => by simp [posOf, Ne.symm h]
  | x :: xs => by simp only [List.cons_append, posOf]; rw [posOf_snoc_ne i L h xs]

theorem posOf_snoc_new (L : Nat) : ∀ l : List Nat, L ∉ l → posOf L (l ++ [L]) = some l.length
  | [], _ => by simp [posOf]
  | x :: xs, h => by
    simp only [List.mem_cons, not_or] at h
    simp only [List.cons_append, posOf, List.length_cons]
    rw [if_neg (Ne.symm h.1), posOf_snoc_new L xs h.2]
    rfl

theorem baseOf_cache_ext (S : OpSem α) (c : List (CKey × Nat)) (k : CKey) (L : Nat) (ins : List Nat)
    (args : List α) (i : Nat) (h : i ≠ L) : baseOf S (c ++ [(k, L)]) ins args i = baseOf S c ins args i := by
  unfold baseOf
  rw [List.find?_append]
  cases hf : c.find? (fun e => e.2 = i) with
  | some e => simp
  | none => simp [List.find?_cons, Ne.symm h]

theorem baseOf_cache_new (S : OpSem α) (c : List (CKey × Nat)) (k : CKey) (L : Nat) (ins : List Nat)
    (args : List α) (h : ∀ e ∈ c, e.2 ≠ L) : baseOf S (c ++ [(k, L)]) ins args L = some (S.lit k) := by
  unfold baseOf
  rw [List.find?_append]
  have : c.find? (fun e => e.2 = L) = none := by
    apply List.find?_eq_none.mpr
    intro e he
    simpa using h e he
  simp [this, List.find?_cons]

theorem baseOf_input_ext (S : OpSem α) (c : List (CKey × Nat)) (L : Nat) (ins : List Nat)
    (args : List α) (i : Nat) (h : i ≠ L) : baseOf S c (ins ++ [L]) args i = baseOf S c ins args i := by
  unfold baseOf
  rw [posOf_snoc_ne i L h]

theorem baseOf_input_new (S : OpSem α) (c : List (CKey × Nat)) (L : Nat) (ins : List Nat)
    (args : List α) (h : ∀ e ∈ c, e.2 ≠ L) (hi : L ∉ ins) :
    baseOf S c (ins ++ [L]) args L = args[ins.length]? := by
  unfold baseOf
  have : c.find? (fun e => e.2 = L) = none := by
    apply List.find?_eq_none.mpr
    intro e he
    simpa using h e he
  simp [this, posOf_snoc_new L ins hi]

/-- a cached literal's initializer holds the literal's value (ids in the cache are distinct). -/
theorem baseOf_cached (S : OpSem α) (c : List (CKey × Nat)) (ins : List Nat) (args : List α)
    (hn : (c.map (·.2)).Nodup) (k : CKey) (id : Nat) (h : (k, id) ∈ c) :
    baseOf S c ins args id = some (S.lit k) := by
  unfold baseOf
  induction c with
  | nil => simp at h
  | cons e r ih =>
    simp only [List.map_cons, List.nodup_cons] at hn
    simp only [List.mem_cons] at h
    simp only [List.find?_cons]
    rcases h with rfl | h
    · simp
    · have hne : ¬ e.2 = id := by
        intro he
        apply hn.1
        rw [he]
        exact List.mem_map_of_mem (f := (·.2)) h
      simp only [hne, decide_false]
      exact ih hn.2 h

theorem baseOf_cache_exts (S : OpSem α) (c ext : List (CKey × Nat)) (ins : List Nat) (args : List α) (i : Nat)
    (h : ∀ e ∈ ext, e.2 ≠ i) : baseOf S (c ++ ext) ins args i = baseOf S c ins args i := by
  unfold baseOf
  rw [List.find?_append]
  have : ext.find? (fun e => e.2 = i) = none := by
    apply List.find?_eq_none.mpr
    intro e he
    simpa using h e he
  cases hf : c.find? (fun e => e.2 = i) with
  | some e => simp
  | none => simp [this]

/-! ## literal promotion, semantically -/

/-- the cache part of the invariant. -/
structure CacheOK (st : St) : Prop where
  nodup : (st.cache.map (·.2)).Nodup
  inits : st.inits = st.cache.map (·.2)
  bound : ∀ e ∈ st.cache, e.2 < st.L

/-- how an operand is resolved: a handle's value id, the initializer cached under the literal's key, or absent. -/
def ArgOK (handles : List (Option Nat)) (c : List (CKey × Nat)) : Arg → Option Nat → Prop
  | .ref h, o => o = handles.getD h none
  | .lit l, o => ∃ id, o = some id ∧ (litKey l, id) ∈ c
  | .none, o => o = none

theorem ArgOK.mono {hs : List (Option Nat)} {c c' : List (CKey × Nat)} (hc : ∀ e ∈ c, e ∈ c') :
    ∀ {a : Arg} {o : Option Nat}, ArgOK hs c a o → ArgOK hs c' a o
  | .ref _, _, h => h
  | .none, _, h => h
  | .lit _, _, ⟨id, h1, h2⟩ => ⟨id, h1, hc _ h2⟩

theorem cacheFind_key {c : List (CKey × Nat)} {k : CKey} {i : Nat} (h : cacheFind c k = some i) :
    (k, i) ∈ c := by
  unfold cacheFind at h
  cases hf : c.find? (fun e => e.1 = k) with
  | none => simp [hf] at h
  | some e =>
    simp only [hf, Option.map_some, Option.some.injEq] at h
    have hm := List.mem_of_find?_eq_some hf
    have hk : e.1 = k := by simpa using List.find?_some hf
    rw [← hk, ← h]
    exact hm

theorem promote_sem (st : St) (l : Lit) (h : CacheOK st) :
    CacheOK (promote st l).1 ∧
    (∃ ext, (promote st l).1.cache = st.cache ++ ext ∧ ∀ e ∈ ext, st.L ≤ e.2) ∧
    (litKey l, (promote st l).2) ∈ (promote st l).1.cache ∧
    (promote st l).1.cur = st.cur ∧ (promote st l).1.handles = st.handles ∧ st.L ≤ (promote st l).1.L := by
  unfold promote
  split
  · rename_i id hc
    exact ⟨h, ⟨[], by simp, by simp⟩, cacheFind_key hc, rfl, rfl, Nat.le_refl _⟩
  · simp only [newValue, newValueK]
    refine ⟨⟨?_, ?_, ?_⟩, ⟨[(litKey l, st.vnames.length)], rfl, by simp [St.L]⟩, by simp, trivial, trivial, by simp [St.L]⟩
    · simp only [List.map_append, List.map_cons, List.map_nil]
      refine List.Nodup.append h.nodup (by simp) ?_
      intro x hx hx'
      simp only [List.mem_singleton] at hx'
      simp only [List.mem_map] at hx
      obtain ⟨e, he, rfl⟩ := hx
      have := h.bound e he
      simp only [St.L] at this
      omega
    · simp [h.inits]
    · intro e he
      simp only [List.mem_append, List.mem_singleton] at he
      simp only [St.L, List.length_append, List.length_singleton]
      rcases he with he | rfl
      · have := h.bound e he; simp only [St.L] at this; omega
      · simp

theorem resolveArgs_sem : ∀ (args : List Arg) (st : St), CacheOK st →
    CacheOK (resolveArgs st args).1 ∧
    (∃ ext, (resolveArgs st args).1.cache = st.cache ++ ext ∧ ∀ e ∈ ext, st.L ≤ e.2) ∧
    List.Forall₂ (ArgOK st.handles (resolveArgs st args).1.cache) args (resolveArgs st args).2 ∧
    (resolveArgs st args).1.cur = st.cur
  | [], st, h => by
    simp only [resolveArgs]
    exact ⟨h, ⟨[], by simp, by simp⟩, List.Forall₂.nil, trivial⟩
  | .ref hd :: r, st, h => by
    obtain ⟨a1, a2, a3, a4⟩ := resolveArgs_sem r st h
    simp only [resolveArgs]
    exact ⟨a1, a2, List.Forall₂.cons rfl a3, a4⟩
  | .none :: r, st, h => by
    obtain ⟨a1, a2, a3, a4⟩ := resolveArgs_sem r st h
    simp only [resolveArgs]
    exact ⟨a1, a2, List.Forall₂.cons rfl a3, a4⟩
  | .lit l :: r, st, h => by
    obtain ⟨p1, ⟨e1, p2, p3⟩, p4, p5, p6, p7⟩ := promote_sem st l h
    obtain ⟨a1, ⟨e2, a2, a2'⟩, a3, a4⟩ := resolveArgs_sem r (promote st l).1 p1
    simp only [resolveArgs]
    refine ⟨a1, ⟨e1 ++ e2, by rw [a2, p2, List.append_assoc], ?_⟩, ?_, a4.trans p5⟩
    · intro e he
      rcases List.mem_append.mp he with x | x
      · exact p3 e x
      · exact Nat.le_trans p7 (a2' e x)
    · refine List.Forall₂.cons ⟨_, rfl, ?_⟩ (p6 ▸ a3)
      rw [a2]
      exact List.mem_append_left _ p4

/-! ## the simulation invariant -/

structure Sim (S : OpSem α) (args : List α) (st : St) (r : RSt α) : Prop where
  bnd : Bnd st
  cok : CacheOK st
  nin : r.nin = st.cur.inputs.length
  sep : ∀ n ∈ st.cur.nodes, ∀ o ∈ n.outs, o ∉ st.inits
  vals : st.handles.map (fun o => o.bind (evalGraph S st args)) = r.henv

theorem getD_map_bind (l : List (Option Nat)) (e : Env α) (h : Nat) :
    (l.map (fun o => o.bind e)).getD h none = (l.getD h none).bind e := by
  simp only [List.getD_eq_getElem?_getD, List.getElem?_map]
  cases l[h]? <;> rfl

theorem sim_node (S : OpSem α) (args : List α) (st st' : St) (r : RSt α) (n : Node) (a : List Arg)
    (ext : List (CKey × Nat)) (h : Sim S args st r) (hb : Bnd st') (hc : CacheOK st')
    (e1 : st'.cur.nodes = st.cur.nodes ++ [n]) (e2 : st'.cur.inputs = st.cur.inputs)
    (e3 : st'.cache = st.cache ++ ext) (hext : ∀ e ∈ ext, st.L ≤ e.2)
    (e4 : st'.handles = st.handles ++ n.outs.map some)
    (ho1 : n.outs.Nodup) (ho2 : ∀ o ∈ n.outs, st.L ≤ o) (ho3 : ∀ o ∈ n.outs, ∀ e ∈ st'.cache, e.2 ≠ o)
    (hins : List.Forall₂ (ArgOK st.handles st'.cache) a n.ins) :
    Sim S args st' ⟨r.henv ++ takeN (S.op n.domain n.op n.overload (a.map (argVal S r.henv))) n.outs.length,
      r.nin⟩ := by
  -- old nodes evaluated in the extended base environment
  have hold : ∀ k ∈ st.cur.nodes, NodeOK st.L st.inits k := h.bnd.nodes st.cur (by simp [St.frames])
  have hA : ∀ i, i < st.L → evalNodes S (baseEnv S st' args) st.cur.nodes i = evalGraph S st args i := by
    intro i hi
    unfold evalGraph
    apply evalNodes_agree S st.L _ _ _ _ (fun k hk j hj => ((hold k hk).2 j hj).1) i hi
    intro j hj
    unfold baseEnv
    rw [e3, e2]
    exact baseOf_cache_exts S _ _ _ _ j (fun e he => by have := hext e he; omega)
  have hlitid : ∀ k id, (k, id) ∈ st'.cache →
      evalNodes S (baseEnv S st' args) st.cur.nodes id = some (S.lit k) := by
    intro k id hm
    rw [evalNodes_other]
    · exact baseOf_cached S _ _ _ hc.nodup k id hm
    · intro nd hnd hcon
      rw [e3] at hm
      rcases List.mem_append.mp hm with x | x
      · exact h.sep nd hnd id hcon (by rw [h.cok.inits]; exact List.mem_map_of_mem (f := (·.2)) x)
      · have := hext _ x
        have := (hold nd hnd).1 id hcon
        omega
  have hB : n.ins.map (fun i => i.bind (evalNodes S (baseEnv S st' args) st.cur.nodes))
      = a.map (argVal S r.henv) := by
    clear ho1 ho2 ho3 e4
    generalize n.ins = insL at hins ⊢
    induction hins with
    | nil => rfl
    | @cons x o xs os hx _ ih =>
      simp only [List.map_cons, List.cons.injEq]
      refine ⟨?_, ih⟩
      cases x with
      | ref hd =>
        simp only [ArgOK] at hx
        simp only [argVal, ← h.vals, getD_map_bind, ← hx]
        cases o with
        | none => rfl
        | some i =>
          simp only [Option.bind_some]
          exact hA i (h.bnd.handles i (getD_mem hx.symm))
      | none => simp only [ArgOK] at hx; simp [hx, argVal]
      | lit l =>
        obtain ⟨id, rfl, hm⟩ := hx
        simp only [Option.bind_some, argVal]
        exact hlitid _ id hm
  have hE : evalGraph S st' args = bindOuts (evalNodes S (baseEnv S st' args) st.cur.nodes) n.outs
      (S.op n.domain n.op n.overload (a.map (argVal S r.henv))) := by
    unfold evalGraph
    rw [e1, evalNodes_append]
    simp only [evalNode, hB]
  refine ⟨hb, hc, by simp [h.nin, e2], ?_, ?_⟩
  · intro nd hnd o ho hcon
    rw [hc.inits] at hcon
    simp only [List.mem_map] at hcon
    obtain ⟨e, he, rfl⟩ := hcon
    rw [e1] at hnd
    rcases List.mem_append.mp hnd with x | x
    · rw [e3] at he
      rcases List.mem_append.mp he with y | y
      · exact h.sep nd x e.2 ho (by rw [h.cok.inits]; exact List.mem_map_of_mem (f := (·.2)) y)
      · have := hext e y
        have := (hold nd x).1 e.2 ho
        omega
    · simp only [List.mem_singleton] at x
      subst x
      exact ho3 e.2 ho e he rfl
  · rw [e4, List.map_append, hE]
    congr 1
    · rw [← h.vals]
      apply List.map_congr_left
      intro o ho
      cases o with
      | none => rfl
      | some i =>
        simp only [Option.bind_some]
        have hi := h.bnd.handles i ho
        rw [bindOuts_other _ _ _ _ (fun hc' => by have := ho2 i hc'; omega)]
        exact hA i hi
    · simp only [List.map_map]
      exact bindOuts_get _ n.outs _ ho1

/-! ## shapes of `doOp` / `doCall` -/

theorem outKeys_length (f : Frame) (c : Nat) (op : String) (o : Outs) : (outKeys f c op o).length = outCount o := by
  cases o with
  | named ns => simp [outKeys, outCount]
  | auto n =>
    simp only [outKeys, outCount]
    split
    · rename_i h; simp [h]
    · simp

theorem doOp_shape (total : Bool) (st : St) (t : String) (a : List Arg) (o : Outs) (nn : Option String)
    (g : List Nat) :
    ∃ n : Node, n.domain = "" ∧ n.op = t ∧ n.overload = "" ∧ n.ins = (resolveArgs st a).2 ∧
      n.outs = (newValuesK (resolveArgs st a).1
        (outKeys (resolveArgs st a).1.cur (nodeCount total (resolveArgs st a).1) t o)).2 ∧
      (doOp total st t a o nn g).cur.nodes = (resolveArgs st a).1.cur.nodes ++ [n] ∧
      (doOp total st t a o nn g).cur.inputs = (resolveArgs st a).1.cur.inputs ∧
      (doOp total st t a o nn g).cache = (resolveArgs st a).1.cache ∧
      (doOp total st t a o nn g).inits = (resolveArgs st a).1.inits ∧
      (doOp total st t a o nn g).handles = (resolveArgs st a).1.handles ++ n.outs.map some ∧
      (doOp total st t a o nn g).L = (resolveArgs st a).1.L + outCount o := by
  unfold doOp
  split
  rename_i st1 ins hr
  simp only [hr]
  obtain ⟨b1, b2, b3, b4, b5, b6⟩ := newValuesK_spec (outKeys st1.cur (nodeCount total st1) t o) st1
  obtain ⟨c1, c2, c3⟩ := newValuesK_csd (outKeys st1.cur (nodeCount total st1) t o) st1
  refine ⟨⟨nn.getD (autoNodeName st1.cur (nodeCount total st1) t), "", t, ins,
    (newValuesK st1 (outKeys st1.cur (nodeCount total st1) t o)).2, g, ""⟩,
    rfl, rfl, rfl, rfl, rfl, ?_, ?_, ?_, ?_, ?_, ?_⟩
  · simp [addNode, c1]
  · simp [addNode, c1]
  · simp [addNode, b4]
  · simp [addNode, b5]
  · simp [addNode, b3]
  · simp only [addNode, St.L] at b2 ⊢
    rw [b2, outKeys_length]

theorem doCall_shape (total : Bool) (fns : List Fn) (st : St) (fi : Nat) (a : List Arg) (o : Option Outs)
    (f : Fn) (hf : fns[fi]? = some f) (keys : List VKey) (st1 : St)
    (hk : keys = outKeys st.cur (nodeCount total st) f.name (o.getD (.auto f.outputs.length)))
    (h1 : st1 = (newValuesK st keys).1) :
    ∃ n : Node, n.domain = f.domain ∧ n.op = f.name ∧ n.overload = f.overload ∧
      n.ins = (resolveArgs st1 a).2 ∧ n.outs = (newValuesK st keys).2 ∧
      (doCall total fns st fi a o).cur.nodes = (resolveArgs st1 a).1.cur.nodes ++ [n] ∧
      (doCall total fns st fi a o).cur.inputs = (resolveArgs st1 a).1.cur.inputs ∧
      (doCall total fns st fi a o).cache = (resolveArgs st1 a).1.cache ∧
      (doCall total fns st fi a o).inits = (resolveArgs st1 a).1.inits ∧
      (doCall total fns st fi a o).handles = (resolveArgs st1 a).1.handles ++ n.outs.map some ∧
      (doCall total fns st fi a o).L = (resolveArgs st1 a).1.L := by
  subst h1
  unfold doCall
  simp only [hf, ← hk]
  refine ⟨⟨autoNodeName (resolveArgs (newValuesK st keys).1 a).1.cur
      (nodeCount total (resolveArgs (newValuesK st keys).1 a).1) f.name,
    f.domain, f.name, (resolveArgs (newValuesK st keys).1 a).2, (newValuesK st keys).2, [], f.overload⟩,
    rfl, rfl, rfl, rfl, rfl, ?_, ?_, ?_, ?_, ?_, ?_⟩ <;> simp [addNode, St.L]

/-! ## one step of the simulation -/

theorem CacheOK.grow {st st' : St} (h : CacheOK st) (hc : st'.cache = st.cache) (hi : st'.inits = st.inits)
    (hL : st.L ≤ st'.L) : CacheOK st' :=
  ⟨hc ▸ h.nodup, by rw [hi, hc]; exact h.inits, fun e he => Nat.lt_of_lt_of_le (h.bound e (hc ▸ he)) hL⟩

theorem sim_op (S : OpSem α) (fns : List Fn) (args : List α) (total : Bool) (st : St) (r : RSt α)
    (t : String) (a : List Arg) (o : Outs) (nn : Option String) (g : List Nat) (h : Sim S args st r) :
    Sim S args (doOp total st t a o nn g) (replayStep S fns args r (.op t a o nn g)) := by
  obtain ⟨n, n1, n2, n3, n4, n5, s1, s2, s3, s4, s5, s6⟩ := doOp_shape total st t a o nn g
  obtain ⟨q1, ⟨ext, q2, q3⟩, q4, q5⟩ := resolveArgs_sem a st h.cok
  obtain ⟨w1, w2, w3, w4, w5, w6⟩ := resolveArgs_spec a st h.bnd
  obtain ⟨b1, b2, _⟩ := newValuesK_spec
    (outKeys (resolveArgs st a).1.cur (nodeCount total (resolveArgs st a).1) t o) (resolveArgs st a).1
  rw [outKeys_length] at b1 b2
  have hlen : n.outs.length = outCount o := by rw [n5, b1]; simp
  have hres := sim_node S args st (doOp total st t a o nn g) r n a ext h
    (Bnd.doOp total st t a o nn g h.bnd)
    (q1.grow s3 s4 (by rw [s6]; omega))
    (by rw [s1, q5]) (by rw [s2, q5]) (by rw [s3, q2]) q3 (by rw [s5, w2])
    (by rw [n5, b1]; exact range_add_nodup _ _)
    (by
      intro x hx
      rw [n5, b1] at hx
      simp only [List.mem_map, List.mem_range] at hx
      obtain ⟨j, _, rfl⟩ := hx
      omega)
    (by
      intro x hx e he hcon
      rw [s3] at he
      have := q1.bound e he
      rw [n5, b1] at hx
      simp only [List.mem_map, List.mem_range] at hx
      obtain ⟨j, _, rfl⟩ := hx
      omega)
    (by rw [n4, s3]; exact q4)
  simpa [replayStep, n1, n2, n3, hlen] using hres

theorem sim_call (S : OpSem α) (fns : List Fn) (args : List α) (total : Bool) (st : St) (r : RSt α)
    (fi : Nat) (a : List Arg) (o : Option Outs) (f : Fn) (hf : fns[fi]? = some f) (h : Sim S args st r) :
    Sim S args (doCall total fns st fi a o) (replayStep S fns args r (.call fi a o)) := by
  obtain ⟨n, n1, n2, n3, n4, n5, s1, s2, s3, s4, s5, s6⟩ :=
    doCall_shape total fns st fi a o f hf _ _ rfl rfl
  generalize hk : outKeys st.cur (nodeCount total st) f.name (o.getD (.auto f.outputs.length)) = keys
    at n4 n5 s1 s2 s3 s4 s5 s6
  obtain ⟨b1, b2, b3, b4, b5, b6⟩ := newValuesK_spec keys st
  obtain ⟨c1, c2, c3⟩ := newValuesK_csd keys st
  have hkl : keys.length = outCount (o.getD (.auto f.outputs.length)) := by rw [← hk, outKeys_length]
  have hcok1 : CacheOK (newValuesK st keys).1 := h.cok.grow b4 b5 (by rw [b2]; omega)
  obtain ⟨q1, ⟨ext, q2, q3⟩, q4, q5⟩ := resolveArgs_sem a (newValuesK st keys).1 hcok1
  have hb1 := BndP.created keys h.bnd
  obtain ⟨w1, w2, w3, w4, w5, w6⟩ := resolveArgs_spec a (newValuesK st keys).1 hb1
  have hlen : n.outs.length = outCount (o.getD (.auto f.outputs.length)) := by rw [n5, b1]; simp [hkl]
  have hres := sim_node S args st (doCall total fns st fi a o) r n a ext h
    (Bnd.doCall total fns st fi a o h.bnd)
    (q1.grow s3 s4 (Nat.le_of_eq s6.symm))
    (by rw [s1, q5, c1]) (by rw [s2, q5, c1]) (by rw [s3, q2, b4])
    (fun e he => by have := q3 e he; rw [b2] at this; omega)
    (by rw [s5, w2, b3])
    (by rw [n5, b1]; exact range_add_nodup _ _)
    (by
      intro x hx
      rw [n5, b1] at hx
      simp only [List.mem_map, List.mem_range] at hx
      obtain ⟨j, _, rfl⟩ := hx
      omega)
    (by
      intro x hx e he hcon
      rw [s3, q2, b4] at he
      rw [n5, b1] at hx
      simp only [List.mem_map, List.mem_range] at hx
      obtain ⟨j, hj, rfl⟩ := hx
      rcases List.mem_append.mp he with y | y
      · have := h.cok.bound e y; omega
      · have := q3 e y; rw [b2] at this; omega)
    (by rw [n4, s3, ← b3]; exact q4)
  simpa [replayStep, hf, n1, n2, n3, hlen] using hres

end OV.C18
