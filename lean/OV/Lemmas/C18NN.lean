import OV.Model.C18NN
/-! Helper lemmas for C18 (nn naming): string algebra of `qualifyInit` / `pfx`, the naming invariant
`Named`, the correspondence `visit = stateDict` under it, and preservation by the construction operations. -/
namespace OV.C18

/-! ## strings -/

theorem dot_ne_empty (a b : String) : a ++ "." ++ b ≠ "" := by
  intro h
  have := congrArg String.length h
  simp only [String.length_append] at this
  have h1 : (".": String).length = 1 := by decide
  have h0 : ("" : String).length = 0 := by decide
  omega

theorem pfx_empty (k : String) : pfx "" k = k := by simp [pfx]

theorem pfx_ne (p k : String) (h : p ≠ "") : pfx p k = p ++ "." ++ k := by simp [pfx, h]

theorem joinWith_snoc (sep : String) (l : List String) (k : String) :
    joinWith sep (l ++ [k]) = if l = [] then k else joinWith sep l ++ sep ++ k := by
  induction l with
  | nil => simp [joinWith]
  | cons a t ih =>
    cases t with
    | nil => simp [joinWith]
    | cons b u =>
      simp only [List.cons_append, reduceCtorEq, if_false] at ih ⊢
      simp only [joinWith]
      rw [ih]
      simp only [String.append_assoc]

/-- pushing a non-empty scope name = prefixing the name with it. -/
theorem qualifyInit_snoc (sc : List String) (k x : String) (hk : k ≠ "") :
    qualifyInit (sc ++ [k]) x = qualifyInit sc (k ++ "." ++ x) := by
  have hf : (sc ++ [k]).filter (fun s => decide (s ≠ "")) = sc.filter (fun s => decide (s ≠ "")) ++ [k] := by
    rw [List.filter_append]
    congr 1
    simp [hk]
  unfold qualifyInit
  simp only [hf]
  generalize sc.filter (fun s => decide (s ≠ "")) = f
  cases f with
  | nil => simp [joinWith]
  | cons a t =>
    have := joinWith_snoc "." (a :: t) k
    simp only [reduceCtorEq, if_false, List.cons_append] at this
    simp [this, String.append_assoc]

theorem qualifyInit_snoc_empty (sc : List String) (x : String) :
    qualifyInit (sc ++ [""]) x = qualifyInit sc x := by
  unfold qualifyInit
  simp [List.filter_append]

/-! ## the naming invariant -/

def ParamsAgree (ps : List Param) : Prop := ∀ p ∈ ps, p.name = p.attr

mutual
  /-- `Named e m`: `m` stores the name `e`; its parameters are named like their attribute; its children
      are named as its class dictates (Module / Sequential: the bare key, ModuleList: `e.key`); a
      ModuleList owns no parameters (it is never called, so they would never be realised). -/
  def Named : String → Mod → Prop
    | e, .mk k n ps cs => n = some e ∧ ParamsAgree ps ∧
        (match k with
         | .list => ps = [] ∧ NamedQual e cs
         | _ => NamedKey cs)
  def NamedQual : String → Mods → Prop
    | _, .nil => True
    | e, .cons k m r => k ≠ "" ∧ Named (e ++ "." ++ k) m ∧ NamedQual e r
  def NamedKey : Mods → Prop
    | .nil => True
    | .cons k m r => k ≠ "" ∧ Named k m ∧ NamedKey r
end

/-- the root as it is called: any stored name (or none), parameters agree, children named by key. -/
def RootNamed : Mod → Prop
  | .mk k _ ps cs => k ≠ .list ∧ ParamsAgree ps ∧ NamedKey cs

/-! ## `state_dict` under a prefix -/

def mapKey (f : String → String) (l : List (String × Nat)) : List (String × Nat) :=
  l.map (fun x => (f x.1, x.2))

theorem mapKey_append (f : String → String) (a b : List (String × Nat)) :
    mapKey f (a ++ b) = mapKey f a ++ mapKey f b := by simp [mapKey]

theorem mapKey_mapKey (f g : String → String) (a : List (String × Nat)) :
    mapKey f (mapKey g a) = mapKey (fun x => f (g x)) a := by simp [mapKey]

theorem mapKey_congr {f g : String → String} (a : List (String × Nat)) (h : ∀ x, f x = g x) :
    mapKey f a = mapKey g a := by
  have : f = g := funext h
  rw [this]

mutual
  def KeysNE : Mod → Prop
    | .mk _ _ _ cs => KeysNEAll cs
  def KeysNEAll : Mods → Prop
    | .nil => True
    | .cons k m r => k ≠ "" ∧ KeysNE m ∧ KeysNEAll r
end

mutual
  theorem stateDict_prefix (q : String) (hq : q ≠ "") : ∀ m : Mod, KeysNE m →
      stateDict q m = mapKey (fun x => q ++ "." ++ x) (stateDict "" m)
    | .mk _ _ ps cs, h => by
      simp only [stateDict, mapKey_append]
      congr 1
      · simp [mapKey, pfx_empty, pfx_ne _ _ hq]
      · exact stateDictAll_prefix q hq cs (by simpa [KeysNE] using h)
  theorem stateDictAll_prefix (q : String) (hq : q ≠ "") : ∀ cs : Mods, KeysNEAll cs →
      stateDictAll q cs = mapKey (fun x => q ++ "." ++ x) (stateDictAll "" cs)
    | .nil, _ => by simp [stateDictAll, mapKey]
    | .cons k m r, h => by
      simp only [KeysNEAll] at h
      simp only [stateDictAll, mapKey_append, pfx_empty, pfx_ne _ _ hq]
      rw [stateDict_prefix (q ++ "." ++ k) (dot_ne_empty q k) m h.2.1,
          stateDict_prefix k h.1 m h.2.1, stateDictAll_prefix q hq r h.2.2, mapKey_mapKey]
      congr 1
      apply mapKey_congr
      intro x
      simp only [String.append_assoc]
end

mutual
  theorem Named.keysNE : ∀ (m : Mod) (e : String), Named e m → KeysNE m
    | .mk k _ _ cs, e, h => by
      simp only [Named] at h
      simp only [KeysNE]
      cases k
      · exact NamedKey.keysNE cs h.2.2
      · exact NamedQual.keysNE cs e h.2.2.2
      · exact NamedKey.keysNE cs h.2.2
  theorem NamedKey.keysNE : ∀ (cs : Mods), NamedKey cs → KeysNEAll cs
    | .nil, _ => by simp [KeysNEAll]
    | .cons k m r, h => by
      simp only [NamedKey] at h
      exact ⟨h.1, Named.keysNE m k h.2.1, NamedKey.keysNE r h.2.2⟩
  theorem NamedQual.keysNE : ∀ (cs : Mods) (e : String), NamedQual e cs → KeysNEAll cs
    | .nil, _, _ => by simp [KeysNEAll]
    | .cons k m r, e, h => by
      simp only [NamedQual] at h
      exact ⟨h.1, Named.keysNE m _ h.2.1, NamedQual.keysNE r e h.2.2⟩
end

theorem params_realize (sc : List String) (ps : List Param) (h : ParamsAgree ps) :
    ps.map (fun p => (qualifyInit sc p.name, p.pid))
      = mapKey (qualifyInit sc) (ps.map (fun q => (pfx "" q.attr, q.pid))) := by
  simp only [mapKey, List.map_map]
  apply List.map_congr_left
  intro p hp
  simp [pfx_empty, h p hp]

/-! ## realisation = state_dict under the invariant -/

mutual
  theorem visit_eq : ∀ (m : Mod) (sc : List String) (e : String), e ≠ "" → Named e m →
      visit sc m = mapKey (qualifyInit (sc ++ [e])) (stateDict "" m)
    | .mk k n ps cs, sc, e, he, h => by
      simp only [Named] at h
      obtain ⟨hn, hp, hc⟩ := h
      subst hn
      cases k
      · simp only [visit, stateDict, mapKey_append, Option.getD_some]
        rw [params_realize _ _ hp, visitAll_key cs (sc ++ [e]) hc]
      · obtain ⟨hps, hq⟩ := hc
        subst hps
        simp only [visit, stateDict, List.map_nil, List.nil_append]
        exact visitAll_qual cs sc e he hq
      · simp only [visit, stateDict, mapKey_append, Option.getD_some]
        rw [params_realize _ _ hp, visitAll_key cs (sc ++ [e]) hc]
  theorem visitAll_key : ∀ (cs : Mods) (sc : List String), NamedKey cs →
      visitAll sc cs = mapKey (qualifyInit sc) (stateDictAll "" cs)
    | .nil, _, _ => by simp [visitAll, stateDictAll, mapKey]
    | .cons k m r, sc, h => by
      simp only [NamedKey] at h
      simp only [visitAll, stateDictAll, mapKey_append, pfx_empty]
      rw [visit_eq m sc k h.1 h.2.1, visitAll_key r sc h.2.2,
          stateDict_prefix k h.1 m (Named.keysNE m k h.2.1), mapKey_mapKey]
      congr 1
      apply mapKey_congr
      intro x
      exact qualifyInit_snoc sc k x h.1
  theorem visitAll_qual : ∀ (cs : Mods) (sc : List String) (e : String), e ≠ "" → NamedQual e cs →
      visitAll sc cs = mapKey (qualifyInit (sc ++ [e])) (stateDictAll "" cs)
    | .nil, _, _, _, _ => by simp [visitAll, stateDictAll, mapKey]
    | .cons k m r, sc, e, he, h => by
      simp only [NamedQual] at h
      simp only [visitAll, stateDictAll, mapKey_append, pfx_empty]
      rw [visit_eq m sc (e ++ "." ++ k) (dot_ne_empty e k) h.2.1, visitAll_qual r sc e he h.2.2,
          stateDict_prefix k h.1 m (Named.keysNE m _ h.2.1), mapKey_mapKey]
      congr 1
      apply mapKey_congr
      intro x
      rw [qualifyInit_snoc sc _ x (dot_ne_empty e k), qualifyInit_snoc sc e _ he]
      simp only [String.append_assoc]
end

theorem callRoot_eq (t : Mod) (h : RootNamed t) :
    callRoot t = mapKey (rootKey t) (stateDict "" t) := by
  cases t with
  | mk k n ps cs =>
    simp only [RootNamed] at h
    simp only [callRoot, stateDict, mapKey_append]
    rw [params_realize _ _ h.2.1, visitAll_key cs _ h.2.2]
    rfl

mutual
  theorem stateDict_pids (q : String) : ∀ m : Mod, (stateDict q m).map (·.2) = pids m
    | .mk _ _ ps cs => by
      simp only [stateDict, pids, List.map_append, List.map_map]
      rw [stateDictAll_pids q cs]
      rfl
  theorem stateDictAll_pids (q : String) : ∀ cs : Mods, (stateDictAll q cs).map (·.2) = pidsAll cs
    | .nil => by simp [stateDictAll, pidsAll]
    | .cons k m r => by
      simp only [stateDictAll, pidsAll, List.map_append]
      rw [stateDict_pids (pfx q k) m, stateDictAll_pids q r]
end

theorem mapKey_pids (f : String → String) (l : List (String × Nat)) :
    (mapKey f l).map (·.2) = l.map (·.2) := by simp [mapKey]

theorem dedupPid_of_nodup : ∀ (l : List (String × Nat)) (seen : List Nat),
    (l.map (·.2)).Nodup → (∀ x ∈ l, x.2 ∉ seen) → dedupPid l seen = l
  | [], _, _, _ => rfl
  | (n, p) :: r, seen, hn, hs => by
    have hp : p ∉ seen := hs (n, p) (by simp)
    simp only [dedupPid, hp, if_false]
    simp only [List.map_cons, List.nodup_cons] at hn
    congr 1
    apply dedupPid_of_nodup r (p :: seen) hn.2
    intro x hx
    simp only [List.mem_cons, not_or]
    refine ⟨?_, hs x (by simp [hx])⟩
    intro hxe
    apply hn.1
    rw [← hxe]
    exact List.mem_map_of_mem hx

theorem realize_eq (t : Mod) (h : RootNamed t) (hd : (pids t).Nodup) :
    realize t = mapKey (rootKey t) (stateDict "" t) := by
  unfold realize
  rw [callRoot_eq t h]
  apply dedupPid_of_nodup
  · rw [mapKey_pids, stateDict_pids]; exact hd
  · intro x _; simp

/-! ## the construction operations preserve the invariant -/

mutual
  /-- invariant of a *detached* object (its own stored name is irrelevant: whoever attaches it renames it). -/
  def GoodT : Mod → Prop
    | .mk k _ ps cs =>
      match k with
      | .module => ParamsAgree ps ∧ NamedKey cs
      | .list => ps = [] ∧ GoodAll cs
      | .seq => ParamsAgree ps ∧ GoodAll cs
  def GoodAll : Mods → Prop
    | .nil => True
    | .cons k m r => k ≠ "" ∧ GoodT m ∧ GoodAll r
end

mutual
  theorem GoodT.named : ∀ (m : Mod) (e : String), GoodT m → Named e (setName m e)
    | .mk k n ps cs, e, h => by
      cases k
      · simp only [GoodT] at h
        simp only [setName, Named]
        exact ⟨trivial, h.1, h.2⟩
      · simp only [GoodT] at h
        simp only [setName, Named]
        exact ⟨trivial, by simp [h.1, ParamsAgree], h.1, GoodAll.qual cs e h.2⟩
      · simp only [GoodT] at h
        simp only [setName, Named]
        exact ⟨trivial, h.1, GoodAll.key cs h.2⟩
  theorem GoodAll.qual : ∀ (cs : Mods) (e : String), GoodAll cs → NamedQual e (setNamesQual cs e)
    | .nil, _, _ => by simp [setNamesQual, NamedQual]
    | .cons k m r, e, h => by
      simp only [GoodAll] at h
      simp only [setNamesQual, NamedQual]
      exact ⟨h.1, GoodT.named m _ h.2.1, GoodAll.qual r e h.2.2⟩
  theorem GoodAll.key : ∀ (cs : Mods), GoodAll cs → NamedKey (setNamesKey cs)
    | .nil, _ => by simp [setNamesKey, NamedKey]
    | .cons k m r, h => by
      simp only [GoodAll] at h
      simp only [setNamesKey, NamedKey]
      exact ⟨h.1, GoodT.named m _ h.2.1, GoodAll.key r h.2.2⟩
end

mutual
  /-- `_set_name` keeps a detached object good (children of a list are renamed, their own invariants stay). -/
  theorem GoodT.setName : ∀ (m : Mod) (x : String), GoodT m → GoodT (setName m x)
    | .mk k n ps cs, x, h => by
      cases k
      · simpa only [setName, GoodT] using h
      · simp only [GoodT] at h
        simp only [OV.C18.setName, GoodT]
        exact ⟨h.1, GoodAll.setQual cs x h.2⟩
      · simp only [GoodT] at h
        simp only [OV.C18.setName, GoodT]
        exact ⟨h.1, GoodAll.setKey cs h.2⟩
  theorem GoodAll.setQual : ∀ (cs : Mods) (x : String), GoodAll cs → GoodAll (setNamesQual cs x)
    | .nil, _, _ => by simp [setNamesQual, GoodAll]
    | .cons k m r, x, h => by
      simp only [GoodAll] at h
      simp only [setNamesQual, GoodAll]
      exact ⟨h.1, GoodT.setName m _ h.2.1, GoodAll.setQual r x h.2.2⟩
  theorem GoodAll.setKey : ∀ (cs : Mods), GoodAll cs → GoodAll (setNamesKey cs)
    | .nil, _ => by simp [setNamesKey, GoodAll]
    | .cons k m r, h => by
      simp only [GoodAll] at h
      simp only [setNamesKey, GoodAll]
      exact ⟨h.1, GoodT.setName m _ h.2.1, GoodAll.setKey r h.2.2⟩
end

theorem GoodT.rawName (m : Mod) (x : String) (h : GoodT m) : GoodT (m.rawName x) := by
  cases m with
  | mk k n ps cs => cases k <;> simpa only [Mod.rawName, GoodT] using h

theorem NamedKey.insert : ∀ (cs : Mods) (k : String) (c : Mod), k ≠ "" → Named k c → NamedKey cs →
    NamedKey (cs.insert k c)
  | .nil, k, c, hk, hc, _ => by simp only [Mods.insert, NamedKey]; exact ⟨hk, hc, trivial⟩
  | .cons k' m r, k, c, hk, hc, h => by
    simp only [NamedKey] at h
    simp only [Mods.insert]
    split
    · simp only [NamedKey]; exact ⟨hk, hc, h.2.2⟩
    · simp only [NamedKey]; exact ⟨h.1, h.2.1, NamedKey.insert r k c hk hc h.2.2⟩

theorem GoodAll.insert : ∀ (cs : Mods) (k : String) (c : Mod), k ≠ "" → GoodT c → GoodAll cs →
    GoodAll (cs.insert k c)
  | .nil, k, c, hk, hc, _ => by simp only [Mods.insert, GoodAll]; exact ⟨hk, hc, trivial⟩
  | .cons k' m r, k, c, hk, hc, h => by
    simp only [GoodAll] at h
    simp only [Mods.insert]
    split
    · simp only [GoodAll]; exact ⟨hk, hc, h.2.2⟩
    · simp only [GoodAll]; exact ⟨h.1, h.2.1, GoodAll.insert r k c hk hc h.2.2⟩

theorem NamedQual.insert : ∀ (cs : Mods) (e k : String) (c : Mod), k ≠ "" → Named (e ++ "." ++ k) c →
    NamedQual e cs → NamedQual e (cs.insert k c)
  | .nil, e, k, c, hk, hc, _ => by simp only [Mods.insert, NamedQual]; exact ⟨hk, hc, trivial⟩
  | .cons k' m r, e, k, c, hk, hc, h => by
    simp only [NamedQual] at h
    simp only [Mods.insert]
    split
    · simp only [NamedQual]; exact ⟨hk, hc, h.2.2⟩
    · simp only [NamedQual]; exact ⟨h.1, h.2.1, NamedQual.insert r e k c hk hc h.2.2⟩

theorem ParamsAgree.insert (ps : List Param) (p : Param) (hp : p.name = p.attr) (h : ParamsAgree ps) :
    ParamsAgree (insertParam ps p) := by
  induction ps with
  | nil => intro q hq; simp only [insertParam, List.mem_singleton] at hq; subst hq; exact hp
  | cons a t ih =>
    simp only [insertParam]
    split
    · intro q hq
      simp only [List.mem_cons] at hq
      rcases hq with rfl | hq
      · exact hp
      · exact h q (by simp [hq])
    · intro q hq
      simp only [List.mem_cons] at hq
      rcases hq with rfl | hq
      · exact h _ (by simp)
      · exact ih (fun q hq => h q (by simp [hq])) q hq

theorem toString_nat_ne_empty (n : Nat) : toString n ≠ "" := Nat.repr_ne_empty

theorem GoodT.listChild (ln : Option String) (key : String) (c : Mod) (hc : GoodT c) :
    GoodT (listChild ln key c) := by
  unfold OV.C18.listChild
  split
  · split
    · exact GoodT.setName c _ hc
    · exact GoodT.rawName c key hc
  · exact hc

theorem GoodT.seqChild (key : String) (c : Mod) (hc : GoodT c) : GoodT (seqChild key c) := by
  unfold OV.C18.seqChild
  split
  · exact GoodT.rawName c key hc
  · exact hc

theorem GoodT.regChildList_unnamed (l c : Mod) (key : String) (hk : key ≠ "") (hl : l.kind = .list)
    (hg : GoodT l) (hc : GoodT c) : GoodT (regChildList l key c) := by
  cases l with
  | mk k n ps cs =>
    simp only [Mod.kind] at hl
    subst hl
    simp only [GoodT] at hg
    simp only [regChildList, GoodT]
    exact ⟨hg.1, GoodAll.insert cs key _ hk (GoodT.listChild n key c hc) hg.2⟩

theorem GoodT.regChildSeq (l c : Mod) (key : String) (hk : key ≠ "") (hl : l.kind = .seq)
    (hg : GoodT l) (hc : GoodT c) : GoodT (regChildSeq l key c) := by
  cases l with
  | mk k n ps cs =>
    simp only [Mod.kind] at hl
    subst hl
    simp only [GoodT] at hg
    simp only [OV.C18.regChildSeq, GoodT]
    exact ⟨hg.1, GoodAll.insert cs key _ hk (GoodT.seqChild key c hc) hg.2⟩

theorem regChildList_kind (l c : Mod) (key : String) : (regChildList l key c).kind = l.kind := by
  cases l; simp [regChildList, Mod.kind]

theorem GoodT.append (l c : Mod) (hl : l.kind ≠ .module) (hg : GoodT l) (hc : GoodT c) :
    GoodT (append l c) := by
  unfold OV.C18.append regChild
  cases hk : l.kind with
  | module => exact absurd hk hl
  | list => exact GoodT.regChildList_unnamed l c _ (toString_nat_ne_empty _) hk hg hc
  | seq => exact GoodT.regChildSeq l c _ (toString_nat_ne_empty _) hk hg hc

theorem GoodAll.mem : ∀ (cs : Mods), GoodAll cs → ∀ x ∈ cs.toList, GoodT x.2
  | .nil, _, x, hx => by simp [Mods.toList] at hx
  | .cons k m r, h, x, hx => by
    simp only [GoodAll] at h
    simp only [Mods.toList, List.mem_cons] at hx
    rcases hx with rfl | hx
    · exact h.2.1
    · exact GoodAll.mem r h.2.2 x hx

theorem GoodT.regAll : ∀ (cs : List Mod) (l : Mod) (i : Nat), l.kind = .list → GoodT l →
    (∀ c ∈ cs, GoodT c) → GoodT (regAll l i cs)
  | [], l, _, _, hg, _ => by simpa [OV.C18.regAll] using hg
  | c :: r, l, i, hl, hg, hc => by
    simp only [OV.C18.regAll]
    apply GoodT.regAll r _ (i + 1)
    · rw [regChildList_kind]; exact hl
    · exact GoodT.regChildList_unnamed l c _ (toString_nat_ne_empty _) hl hg (hc c (by simp))
    · intro c' hc'; exact hc c' (by simp [hc'])

theorem GoodT.slice (l : Mod) (idxs : List Nat) (hl : l.kind ≠ .module) (hg : GoodT l) :
    GoodT (slice l idxs) := by
  unfold OV.C18.slice
  apply GoodT.regAll
  · rfl
  · simp [GoodT, GoodAll]
  · intro c hc
    simp only [List.mem_filterMap] at hc
    obtain ⟨i, _, hi⟩ := hc
    cases hx : l.children.toList[i]? with
    | none => simp [hx] at hi
    | some x =>
      simp only [hx, Option.map_some, Option.some.injEq] at hi
      subst hi
      have hmem : x ∈ l.children.toList := List.mem_of_getElem? hx
      cases l with
      | mk k n ps cs =>
        cases k
        · exact absurd rfl hl
        · simp only [GoodT] at hg; exact GoodAll.mem cs hg.2 x hmem
        · simp only [GoodT] at hg; exact GoodAll.mem cs hg.2 x hmem

theorem GoodT.setParam (m : Mod) (attr : String) (pname : Option String) (pid : Nat)
    (hk : m.kind ≠ .list) (hp : pname = none ∨ pname = some attr) (hg : GoodT m) :
    GoodT (setParam m attr pname pid) := by
  have hn : (⟨attr, pname.getD attr, pid⟩ : Param).name = (⟨attr, pname.getD attr, pid⟩ : Param).attr := by
    rcases hp with rfl | rfl <;> rfl
  cases m with
  | mk k n ps cs =>
    cases k
    · simp only [GoodT] at hg; simp only [OV.C18.setParam, GoodT]
      exact ⟨ParamsAgree.insert ps _ hn hg.1, hg.2⟩
    · exact absurd rfl hk
    · simp only [GoodT] at hg; simp only [OV.C18.setParam, GoodT]
      exact ⟨ParamsAgree.insert ps _ hn hg.1, hg.2⟩

theorem Named.attrChild (c : Mod) (attr : String)
    (hcn : c.name = none ∨ (c.kind = .module ∧ c.name = some attr)) (hc : GoodT c) :
    Named attr (attrChild attr c) := by
  unfold OV.C18.attrChild
  rcases hcn with h | ⟨hk, h⟩
  · simp only [h]; exact GoodT.named c attr hc
  · simp only [h]
    cases c with
    | mk k' n' ps' cs' =>
      simp only [Mod.kind] at hk
      subst hk
      simp only [Mod.name] at h
      subst h
      simp only [GoodT] at hc
      simp only [Named]
      exact ⟨trivial, hc.1, hc.2⟩

theorem GoodT.setChild (m c : Mod) (attr : String) (hm : m.kind = .module) (ha : attr ≠ "")
    (hcn : c.name = none ∨ (c.kind = .module ∧ c.name = some attr)) (hg : GoodT m) (hc : GoodT c) :
    GoodT (setChild m attr c) := by
  cases m with
  | mk k n ps cs =>
    simp only [Mod.kind] at hm
    subst hm
    simp only [GoodT] at hg
    simp only [OV.C18.setChild, GoodT]
    exact ⟨hg.1, NamedKey.insert cs attr _ ha (Named.attrChild c attr hcn hc) hg.2⟩

/-- a good detached Module / Sequential can be called as the root. A Sequential root is called as it
    stands (its children were registered under bare keys). -/
theorem GoodT.rootNamed_module (m : Mod) (hk : m.kind = .module) (hg : GoodT m) : RootNamed m := by
  cases m with
  | mk k n ps cs =>
    simp only [Mod.kind] at hk
    subst hk
    simp only [GoodT] at hg
    simp only [RootNamed]
    exact ⟨by decide, hg.1, hg.2⟩

theorem GoodT.rootNamed_seq (m : Mod) (e : String) (hk : m.kind = .seq) (hg : GoodT m) :
    RootNamed (OV.C18.setName m e) := by
  cases m with
  | mk k n ps cs =>
    simp only [Mod.kind] at hk
    subst hk
    simp only [GoodT] at hg
    simp only [OV.C18.setName, RootNamed]
    exact ⟨by decide, hg.1, GoodAll.key cs hg.2⟩

/-! ## subgraph nesting does not change realised names -/

mutual
  theorem visitB_eq_visit (ctl : List (List String)) : ∀ (m : Mod) (path top : List String)
      (rest : List (List String)), visitB SubPolicy.code ctl path top rest m = visit top m
    | .mk k n ps cs, path, top, rest => by
      cases k
      · simp only [visitB, visit, show SubPolicy.code.qualifyCurrent = true from rfl,
          show SubPolicy.code.inheritParent = true from rfl, if_true]
        split <;> rw [visitAllB_eq_visitAll ctl cs]
      · simp only [visitB, visit]
        exact visitAllB_eq_visitAll ctl cs path top rest
      · simp only [visitB, visit, show SubPolicy.code.qualifyCurrent = true from rfl,
          show SubPolicy.code.inheritParent = true from rfl, if_true]
        split <;> rw [visitAllB_eq_visitAll ctl cs]
  theorem visitAllB_eq_visitAll (ctl : List (List String)) : ∀ (cs : Mods) (path top : List String)
      (rest : List (List String)), visitAllB SubPolicy.code ctl path top rest cs = visitAll top cs
    | .nil, _, _, _ => by simp [visitAllB, visitAll]
    | .cons k m r, path, top, rest => by
      simp only [visitAllB, visitAll]
      rw [visitB_eq_visit ctl m, visitAllB_eq_visitAll ctl r]
end

theorem realizeB_eq_realize (ctl : List (List String)) (root : Mod) :
    realizeB SubPolicy.code ctl root = realize root := by
  cases root with
  | mk k n ps cs =>
    simp only [realizeB, realize, callRoot]
    split <;> rw [visitAllB_eq_visitAll ctl cs]

/-! ## mutation of an already attached descendant (top-down construction) -/

theorem go_key (f : Mod → Mod) (T : Mod → Prop) (k : String) (ks : List String)
    (ih : ∀ (m : Mod) (e : String), (∀ t, nodeAt ks m = some t → T t) → Named e m → Named e (modifyAt ks f m)) :
    ∀ cs : Mods, (∀ m t, cs.find? k = some m → nodeAt ks m = some t → T t) → NamedKey cs →
      NamedKey (modifyAt.go k ks f cs)
  | .nil, _, h => by simpa [modifyAt.go] using h
  | .cons k' m r, ht', h' => by
    simp only [NamedKey] at h'
    simp only [modifyAt.go]
    split
    · rename_i hk
      simp only [NamedKey]
      exact ⟨h'.1, ih m k' (fun t hn => ht' m t (by simp [Mods.find?, hk]) hn) h'.2.1, h'.2.2⟩
    · rename_i hk
      simp only [NamedKey]
      exact ⟨h'.1, h'.2.1,
        go_key f T k ks ih r (fun m' t hf' hn => ht' m' t (by simp [Mods.find?, hk, hf']) hn) h'.2.2⟩

theorem go_qual (f : Mod → Mod) (T : Mod → Prop) (k : String) (ks : List String)
    (ih : ∀ (m : Mod) (e : String), (∀ t, nodeAt ks m = some t → T t) → Named e m → Named e (modifyAt ks f m))
    (q : String) :
    ∀ cs : Mods, (∀ m t, cs.find? k = some m → nodeAt ks m = some t → T t) → NamedQual q cs →
      NamedQual q (modifyAt.go k ks f cs)
  | .nil, _, h => by simpa [modifyAt.go] using h
  | .cons k' m r, ht', h' => by
    simp only [NamedQual] at h'
    simp only [modifyAt.go]
    split
    · rename_i hk
      simp only [NamedQual]
      exact ⟨h'.1, ih m _ (fun t hn => ht' m t (by simp [Mods.find?, hk]) hn) h'.2.1, h'.2.2⟩
    · rename_i hk
      simp only [NamedQual]
      exact ⟨h'.1, h'.2.1,
        go_qual f T k ks ih q r (fun m' t hf' hn => ht' m' t (by simp [Mods.find?, hk, hf']) hn) h'.2.2⟩

theorem modifyAt_named (f : Mod → Mod) (T : Mod → Prop)
    (hf : ∀ e m, T m → Named e m → Named e (f m)) :
    ∀ (path : List String) (m : Mod) (e : String), (∀ t, nodeAt path m = some t → T t) → Named e m →
      Named e (modifyAt path f m)
  | [], m, e, ht, h => by
    simp only [modifyAt]
    exact hf e m (ht m rfl) h
  | k :: ks, .mk kd n ps cs, e, ht, h => by
    have ih := modifyAt_named f T hf ks
    have ht' : ∀ m t, cs.find? k = some m → nodeAt ks m = some t → T t := by
      intro m t hm hn
      apply ht t
      simp [nodeAt, hm, hn]
    simp only [Named] at h
    simp only [modifyAt, Named]
    refine ⟨h.1, h.2.1, ?_⟩
    cases kd
    · exact go_key f T k ks ih cs ht' h.2.2
    · exact ⟨h.2.2.1, go_qual f T k ks ih e cs ht' h.2.2.2⟩
    · exact go_key f T k ks ih cs ht' h.2.2

/-- the same for the root as it is called. -/
theorem modifyAt_rootNamed (f : Mod → Mod) (T : Mod → Prop)
    (hf : ∀ e m, T m → Named e m → Named e (f m))
    (hroot : ∀ m, T m → RootNamed m → RootNamed (f m)) (path : List String) (root : Mod)
    (ht : ∀ t, nodeAt path root = some t → T t) (h : RootNamed root) : RootNamed (modifyAt path f root) := by
  cases path with
  | nil => simp only [modifyAt]; exact hroot root (ht root rfl) h
  | cons k ks =>
    cases root with
    | mk kd n ps cs =>
      -- view the root as named by some name: only its children matter
      simp only [RootNamed] at h
      have hn : Named "r" (.mk kd (some "r") ps cs) := by
        simp only [Named]
        refine ⟨trivial, h.2.1, ?_⟩
        cases kd
        · exact h.2.2
        · exact absurd rfl h.1
        · exact h.2.2
      have := modifyAt_named f T hf (k :: ks) (.mk kd (some "r") ps cs) "r"
        (fun t hn' => ht t (by simpa [nodeAt] using hn')) hn
      simp only [modifyAt, Named] at this
      simp only [modifyAt, RootNamed]
      refine ⟨h.1, this.2.1, ?_⟩
      cases kd
      · exact this.2.2
      · exact absurd rfl h.1
      · exact this.2.2

/-! ### the three mutations keep `Named` / `RootNamed` -/

theorem Named.setParam (e : String) (m : Mod) (attr : String) (pname : Option String) (pid : Nat)
    (hk : m.kind ≠ .list) (hp : pname = none ∨ pname = some attr) (h : Named e m) :
    Named e (OV.C18.setParam m attr pname pid) := by
  have hn : (⟨attr, pname.getD attr, pid⟩ : Param).name = (⟨attr, pname.getD attr, pid⟩ : Param).attr := by
    rcases hp with rfl | rfl <;> rfl
  cases m with
  | mk k n ps cs =>
    cases k
    · simp only [Named] at h; simp only [OV.C18.setParam, Named]
      exact ⟨h.1, ParamsAgree.insert ps _ hn h.2.1, h.2.2⟩
    · exact absurd rfl hk
    · simp only [Named] at h; simp only [OV.C18.setParam, Named]
      exact ⟨h.1, ParamsAgree.insert ps _ hn h.2.1, h.2.2⟩

theorem RootNamed.setParam (m : Mod) (attr : String) (pname : Option String) (pid : Nat)
    (hp : pname = none ∨ pname = some attr) (h : RootNamed m) :
    RootNamed (OV.C18.setParam m attr pname pid) := by
  have hn : (⟨attr, pname.getD attr, pid⟩ : Param).name = (⟨attr, pname.getD attr, pid⟩ : Param).attr := by
    rcases hp with rfl | rfl <;> rfl
  cases m with
  | mk k n ps cs =>
    simp only [RootNamed] at h
    simp only [OV.C18.setParam, RootNamed]
    exact ⟨h.1, ParamsAgree.insert ps _ hn h.2.1, h.2.2⟩

theorem Named.setChild (e : String) (m c : Mod) (attr : String) (hm : m.kind = .module) (ha : attr ≠ "")
    (hcn : c.name = none ∨ (c.kind = .module ∧ c.name = some attr)) (hc : GoodT c) (h : Named e m) :
    Named e (OV.C18.setChild m attr c) := by
  cases m with
  | mk k n ps cs =>
    simp only [Mod.kind] at hm
    subst hm
    simp only [Named] at h
    simp only [OV.C18.setChild, Named]
    exact ⟨h.1, h.2.1, NamedKey.insert cs attr _ ha (Named.attrChild c attr hcn hc) h.2.2⟩

theorem RootNamed.setChild (m c : Mod) (attr : String) (hm : m.kind = .module) (ha : attr ≠ "")
    (hcn : c.name = none ∨ (c.kind = .module ∧ c.name = some attr)) (hc : GoodT c) (h : RootNamed m) :
    RootNamed (OV.C18.setChild m attr c) := by
  cases m with
  | mk k n ps cs =>
    simp only [Mod.kind] at hm
    subst hm
    simp only [RootNamed] at h
    simp only [OV.C18.setChild, RootNamed]
    exact ⟨h.1, h.2.1, NamedKey.insert cs attr _ ha (Named.attrChild c attr hcn hc) h.2.2⟩

/-- a plain Module stored under a bare key (what `Sequential._register_child` does) is named by that key. -/
theorem Named.seqChild_module (key : String) (c : Mod) (hk : c.kind = .module) (hcn : c.name = none)
    (hc : GoodT c) : Named key (seqChild key c) := by
  cases c with
  | mk k n ps cs =>
    simp only [Mod.kind] at hk
    subst hk
    simp only [Mod.name] at hcn
    subst hcn
    simp only [GoodT] at hc
    simp only [OV.C18.seqChild, Mod.name, Mod.rawName, Named]
    exact ⟨trivial, hc.1, hc.2⟩

/-- `append` on a list / Sequential that already has its name. -/
theorem Named.append (e : String) (l c : Mod)
    (hl : l.kind = .list ∨ (l.kind = .seq ∧ c.kind = .module)) (hc : GoodT c) (hcn : c.name = none)
    (h : Named e l) : Named e (OV.C18.append l c) := by
  cases l with
  | mk k n ps cs =>
    cases k
    · simp [Mod.kind] at hl
    · simp only [Named] at h
      obtain ⟨rfl, hp, hps, hq⟩ := h
      simp only [OV.C18.append, regChild, Mod.kind, regChildList, Named]
      refine ⟨trivial, hp, hps, NamedQual.insert cs e _ _ (toString_nat_ne_empty _) ?_ hq⟩
      simp only [listChild, hcn]
      exact GoodT.named c _ hc
    · have hck : c.kind = .module := by
        rcases hl with h' | h'
        · simp [Mod.kind] at h'
        · exact h'.2
      simp only [Named] at h
      simp only [OV.C18.append, regChild, Mod.kind, regChildSeq, Named]
      exact ⟨h.1, h.2.1, NamedKey.insert cs _ _ (toString_nat_ne_empty _)
        (Named.seqChild_module _ c hck hcn hc) h.2.2⟩

theorem RootNamed.append (l c : Mod) (hl : l.kind = .list ∨ (l.kind = .seq ∧ c.kind = .module)) (hc : GoodT c)
    (hcn : c.name = none) (h : RootNamed l) : RootNamed (OV.C18.append l c) := by
  cases l with
  | mk k n ps cs =>
    cases k
    · simp [Mod.kind] at hl
    · simp only [RootNamed] at h; exact absurd rfl h.1
    · have hck : c.kind = .module := by
        rcases hl with h' | h'
        · simp [Mod.kind] at h'
        · exact h'.2
      simp only [RootNamed] at h
      simp only [OV.C18.append, regChild, Mod.kind, regChildSeq, RootNamed]
      exact ⟨h.1, h.2.1, NamedKey.insert cs _ _ (toString_nat_ne_empty _)
        (Named.seqChild_module _ c hck hcn hc) h.2.2⟩

theorem of_all {P : Mod → Prop} [DecidablePred P] {o : Option Mod}
    (h : o.all (fun t => decide (P t)) = true) : ∀ t, o = some t → P t := by
  intro t ht; subst ht; simpa using h


end OV.C18
