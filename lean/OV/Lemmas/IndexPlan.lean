import OV.Model.Index
import OV.Lemmas.Index
/-! Fusion lemmas for C11: the Slice+Squeeze plan on an initial view acts axis by axis. -/
namespace OV.Index

def Comp.isInt : Comp → Bool
  | .int _ => true
  | _ => false

/-- Constant components only (no tensor-valued parts). -/
def Comp.basic : Comp → Bool
  | .full => true
  | .int _ => true
  | .slice lo hi st =>
    (match lo with | .dyn _ => false | _ => true) &&
    (match hi with | .dyn _ => false | _ => true) &&
    (match st with | .dyn _ => false | _ => true)
  | _ => false

theorem slice_go_cons_pick (E : List SliceEntry) (k : Nat) (srcs : List Nat) (rest : View) :
    opSlice.go E k (.pick srcs :: rest) =
      AxisMap.pick (lookupSlice E k srcs) :: opSlice.go E (k + 1) rest := by
  simp [opSlice.go]

theorem squeeze_go_cons_pick (S : List Nat) (k : Nat) (srcs : List Nat) (rest : View) :
    opSqueeze.go S k (.pick srcs :: rest) =
      (if S.contains k then do
          let s ← single? srcs
          let r ← opSqueeze.go S (k + 1) rest
          pure (AxisMap.drop s :: r)
        else do let r ← opSqueeze.go S (k + 1) rest; pure (AxisMap.pick srcs :: r)) := by
  simp [opSqueeze.go]

theorem lookupSlice_none (E : List SliceEntry) (k : Nat) (srcs : List Nat)
    (h : E.find? (fun e => e.axis == k) = none) : lookupSlice E k srcs = srcs := by
  simp [lookupSlice, h]

theorem lookupSlice_some (E : List SliceEntry) (k : Nat) (srcs : List Nat) (e : SliceEntry)
    (h : E.find? (fun e => e.axis == k) = some e) :
    lookupSlice E k srcs = onnxSliceList srcs e.start e.stop e.step := by
  simp [lookupSlice, h]

theorem slice_go_init_none (E : List SliceEntry) (k : Nat) (ds : List Nat)
    (h : ∀ j, E.find? (fun e => e.axis == k + j) = none) :
    opSlice.go E k (View.init ds) = View.init ds := by
  induction ds generalizing k with
  | nil => simp [View.init, opSlice.go]
  | cons d ds ih =>
    have h0 := h 0
    simp only [Nat.add_zero] at h0
    simp only [View.init, List.map_cons, slice_go_cons_pick, lookupSlice_none _ _ _ h0]
    congr 1
    exact ih (k + 1) (fun j => by have := h (j + 1); rwa [show k + (j + 1) = k + 1 + j by omega] at this)

theorem squeeze_go_init_none (S : List Nat) (k : Nat) (ds : List Nat)
    (h : ∀ j, S.contains (k + j) = false) :
    opSqueeze.go S k (View.init ds) = .ok (View.init ds) := by
  induction ds generalizing k with
  | nil => simp [View.init, opSqueeze.go]
  | cons d ds ih =>
    have h0 := h 0
    simp only [Nat.add_zero] at h0
    have := ih (k + 1) (fun j => by have := h (j + 1); rwa [show k + (j + 1) = k + 1 + j by omega] at this)
    simp only [View.init] at this
    simp only [View.init, List.map_cons, squeeze_go_cons_pick, h0, this]
    rfl

theorem convSliceEntry_axis (j : Nat) (lo hi st : Bnd) (e : SliceEntry)
    (h : convSliceEntry j lo hi st = some e) : e.axis = j := by
  cases st with
  | dyn s =>
    simp only [convSliceEntry] at h
    cases hl : lo.val? <;> cases hh : hi.val? <;> simp [hl, hh] at h
    rw [← h]
  | none => simp [convSliceEntry] at h; rw [← h]
  | const v => simp [convSliceEntry] at h; rw [← h]

theorem entryOf_axis (c : Comp) (j : Nat) (e : SliceEntry) (h : entryOf c j = some e) : e.axis = j := by
  cases c with
  | full => simp [entryOf] at h
  | tScalar v => simp [entryOf] at h
  | tVec v => simp [entryOf] at h
  | int i => simp [entryOf] at h; rw [← h]
  | slice lo hi st =>
    have h' : (if lo = .none ∧ hi = .none ∧ st = .none then none else convSliceEntry j lo hi st) = some e := h
    by_cases hskip : lo = .none ∧ hi = .none ∧ st = .none
    · rw [if_pos hskip] at h'; simp at h'
    · rw [if_neg hskip] at h'; exact convSliceEntry_axis j lo hi st e h'

/-- Looking an axis up in the entries registered by a filtered, indexed component list. -/
theorem find_entries_zipIdx (F : Comp → Bool) :
    ∀ (l : List Comp) (n k : Nat),
      (((l.zipIdx n).filter (fun p => F p.1)).filterMap (fun p => entryOf p.1 p.2)).find?
          (fun e => e.axis == k)
        = (if n ≤ k then
            (match l[k - n]? with
             | some c => if F c then entryOf c k else none
             | none => none)
           else none) := by
  intro l
  induction l with
  | nil => intro n k; simp
  | cons c l ih =>
    intro n k
    simp only [List.zipIdx_cons]
    by_cases hkn : k = n
    · subst hkn
      simp only [Nat.le_refl, if_true, Nat.sub_self, List.getElem?_cons_zero]
      have hrest := ih (k + 1) k
      simp only [show ¬ (k + 1 ≤ k) by omega, if_false] at hrest
      by_cases hF : F c = true
      · simp only [List.filter_cons, hF, if_true, List.filterMap_cons]
        cases he : entryOf c k with
        | none => simpa [he] using hrest
        | some e =>
          have := entryOf_axis c k e he
          simp [he, this]
      · have hF' : F c = false := by simpa using hF
        simp only [List.filter_cons, hF', Bool.false_eq_true, if_false]
        simpa using hrest
    · have hrest := ih (n + 1) k
      have hhead : ∀ e, entryOf c n = some e → (e.axis == k) = false := by
        intro e he
        have := entryOf_axis c n e he
        simp [this]; omega
      have hskip : (((if F c = true then [(c, n)] else []) ++
            ((l.zipIdx (n + 1)).filter (fun p => F p.1))).filterMap (fun p => entryOf p.1 p.2)).find?
              (fun e => e.axis == k)
          = (((l.zipIdx (n + 1)).filter (fun p => F p.1)).filterMap (fun p => entryOf p.1 p.2)).find?
              (fun e => e.axis == k) := by
        by_cases hF : F c = true
        · simp only [hF, if_true, List.singleton_append, List.filterMap_cons]
          cases he : entryOf c n with
          | none => simp
          | some e => simp [List.find?_cons, hhead e he]
        · simp [hF]
      have hfilter : ((c, n) :: l.zipIdx (n + 1)).filter (fun p => F p.1)
          = (if F c = true then [(c, n)] else []) ++ ((l.zipIdx (n + 1)).filter (fun p => F p.1)) := by
        by_cases hF : F c = true <;> simp [List.filter_cons, hF]
      rw [hfilter, hskip, hrest]
      by_cases hle : n ≤ k
      · have hlt : n + 1 ≤ k := by omega
        simp only [hle, hlt, if_true]
        have : k - n = (k - (n + 1)) + 1 := by omega
        rw [this, List.getElem?_cons_succ]
      · have : ¬ (n + 1 ≤ k) := by omega
        simp [hle, this]

/-- Generic form of `find_entries_zipIdx` (any entry function that stamps the axis it is given). -/
theorem find_entries_zipIdx_gen (F : Comp → Bool) (g : Comp → Nat → Option SliceEntry)
    (hg : ∀ c j e, g c j = some e → e.axis = j) :
    ∀ (l : List Comp) (n k : Nat),
      (((l.zipIdx n).filter (fun p => F p.1)).filterMap (fun p => g p.1 p.2)).find?
          (fun e => e.axis == k)
        = (if n ≤ k then
            (match l[k - n]? with
             | some c => if F c then g c k else none
             | none => none)
           else none) := by
  intro l
  induction l with
  | nil => intro n k; simp
  | cons c l ih =>
    intro n k
    simp only [List.zipIdx_cons]
    by_cases hkn : k = n
    · subst hkn
      simp only [Nat.le_refl, if_true, Nat.sub_self, List.getElem?_cons_zero]
      have hrest := ih (k + 1) k
      simp only [show ¬ (k + 1 ≤ k) by omega, if_false] at hrest
      by_cases hF : F c = true
      · simp only [List.filter_cons, hF, if_true, List.filterMap_cons]
        cases he : g c k with
        | none => simpa [he] using hrest
        | some e =>
          have := hg c k e he
          simp [he, this]
      · have hF' : F c = false := by simpa using hF
        simp only [List.filter_cons, hF', Bool.false_eq_true, if_false]
        simpa using hrest
    · have hrest := ih (n + 1) k
      have hhead : ∀ e, g c n = some e → (e.axis == k) = false := by
        intro e he
        have := hg c n e he
        simp [this]; omega
      have hskip : (((if F c = true then [(c, n)] else []) ++
            ((l.zipIdx (n + 1)).filter (fun p => F p.1))).filterMap (fun p => g p.1 p.2)).find?
              (fun e => e.axis == k)
          = (((l.zipIdx (n + 1)).filter (fun p => F p.1)).filterMap (fun p => g p.1 p.2)).find?
              (fun e => e.axis == k) := by
        by_cases hF : F c = true
        · simp only [hF, if_true, List.singleton_append, List.filterMap_cons]
          cases he : g c n with
          | none => simp
          | some e => simp [List.find?_cons, hhead e he]
        · simp [hF]
      have hfilter : ((c, n) :: l.zipIdx (n + 1)).filter (fun p => F p.1)
          = (if F c = true then [(c, n)] else []) ++ ((l.zipIdx (n + 1)).filter (fun p => F p.1)) := by
        by_cases hF : F c = true <;> simp [List.filter_cons, hF]
      rw [hfilter, hskip, hrest]
      by_cases hle : n ≤ k
      · have hlt : n + 1 ≤ k := by omega
        simp only [hle, hlt, if_true]
        have : k - n = (k - (n + 1)) + 1 := by omega
        rw [this, List.getElem?_cons_succ]
      · have : ¬ (n + 1 ≤ k) := by omega
        simp [hle, this]

theorem contains_zipIdx (F : Comp → Bool) :
    ∀ (l : List Comp) (n k : Nat),
      (((l.zipIdx n).filter (fun p => F p.1)).map (fun p => p.2)).contains k
        = (if n ≤ k then (match l[k - n]? with | some c => F c | none => false) else false) := by
  intro l
  induction l with
  | nil => intro n k; simp
  | cons c l ih =>
    intro n k
    simp only [List.zipIdx_cons]
    have hrest := ih (n + 1) k
    by_cases hkn : k = n
    · subst hkn
      simp only [Nat.le_refl, if_true, Nat.sub_self, List.getElem?_cons_zero]
      simp only [show ¬ (k + 1 ≤ k) by omega, if_false] at hrest
      by_cases hF : F c = true
      · simp [List.filter_cons, hF]
      · have hF' : F c = false := by simpa using hF
        simp only [List.filter_cons, hF', Bool.false_eq_true, if_false]
        exact hrest
    · have hne : (n == k) = false := by simp; omega
      have : ((((c, n) :: l.zipIdx (n + 1)).filter (fun p => F p.1)).map (fun p => p.2)).contains k
          = (((l.zipIdx (n + 1)).filter (fun p => F p.1)).map (fun p => p.2)).contains k := by
        by_cases hF : F c = true
        · simp only [List.filter_cons, hF, if_true, List.map_cons, List.contains_cons]
          have : (k == n) = false := by simp; omega
          simp [this]
        · simp [List.filter_cons, hF]
      rw [this, hrest]
      by_cases hle : n ≤ k
      · have hlt : n + 1 ≤ k := by omega
        simp only [hle, hlt, if_true]
        have : k - n = (k - (n + 1)) + 1 := by omega
        rw [this, List.getElem?_cons_succ]
      · have : ¬ (n + 1 ≤ k) := by omega
        simp [hle, this]

theorem squeeze_go_nil (k : Nat) (v : View) : opSqueeze.go [] k v = .ok v := by
  induction v generalizing k with
  | nil => simp [opSqueeze.go]
  | cons a rest ih =>
    cases a with
    | drop s => simp [opSqueeze.go, ih k]; rfl
    | pick srcs => simp [opSqueeze.go, ih (k + 1)]; rfl

theorem axiswise_mono (f g : Comp → List Nat → Except Err AxisMap) :
    ∀ (comps : List Comp) (ds : List Nat) (r : View),
      (∀ (j : Nat) (c : Comp) (d : Nat) (a : AxisMap), comps[j]? = some c → ds[j]? = some d →
          f c (List.range d) = .ok a → g c (List.range d) = .ok a) →
      axiswise f comps ds = .ok r → axiswise g comps ds = .ok r := by
  intro comps
  induction comps with
  | nil => intro ds r _ h; simpa [axiswise] using h
  | cons c cs ih =>
    intro ds r hfg h
    cases ds with
    | nil => simp [axiswise] at h
    | cons d ds =>
      simp only [axiswise] at h ⊢
      cases ha : f c (List.range d) with
      | error e => simp [ha, bind, Except.bind] at h
      | ok a =>
        cases hr : axiswise f cs ds with
        | error e => simp [ha, hr, bind, Except.bind] at h
        | ok r' =>
          have h1 := hfg 0 c d a (by simp) (by simp) ha
          have h2 := ih ds r' (fun j c' d' a' hc hd => hfg (j + 1) c' d' a' (by simpa using hc) (by simpa using hd)) hr
          simp only [ha, hr, bind, Except.bind, pure, Except.pure] at h
          simp only [h1, h2, bind, Except.bind, pure, Except.pure]
          exact h

theorem basic_kind_ne_nonScalar (c : Comp) (h : c.basic = true) : (c.kind == Kind.nonScalar) = false := by
  cases c with
  | full => rfl
  | int i => rfl
  | tScalar v => simp [Comp.basic] at h
  | tVec v => simp [Comp.basic] at h
  | slice lo hi st => cases lo <;> cases hi <;> cases st <;> rfl

theorem basic_not_vec (c : Comp) (h : c.basic = true) : c.isVec = false := by
  cases c <;> simp_all [Comp.basic, Comp.isVec]

theorem filter_zipIdx_none (F : Comp → Bool) (l : List Comp) (n : Nat)
    (h : ∀ c ∈ l, F c = false) : (l.zipIdx n).filter (fun p => F p.1) = [] := by
  induction l generalizing n with
  | nil => rfl
  | cons c l ih =>
    simp only [List.zipIdx_cons, List.filter_cons, h c (by simp), Bool.false_eq_true, if_false]
    exact ih (n + 1) (fun c' hc' => h c' (by simp [hc']))

theorem filter_none {α} (F : α → Bool) (l : List α) (h : ∀ c ∈ l, F c = false) : l.filter F = [] := by
  induction l with
  | nil => rfl
  | cons c l ih => simp [List.filter_cons, h c (by simp), ih (fun c' hc' => h c' (by simp [hc']))]

theorem needsTranspose_basic (comps : List Comp) (h : ∀ c ∈ comps, c.basic = true) :
    needsTranspose comps = false := by
  unfold needsTranspose
  have hv : (comps.zipIdx.filter (fun p => p.1.isVec)) = [] :=
    filter_zipIdx_none Comp.isVec comps 0 (fun c hc => basic_not_vec c (h c hc))
  simp only [hv, List.map_nil]
  split <;> rfl

theorem opSlice_ok (E : List SliceEntry) (v v' : View) (h : opSlice E v = .ok v') :
    (∀ e ∈ E, e.step ≠ 0) ∧ v' = opSlice.go E 0 v := by
  unfold opSlice at h
  by_cases h1 : (E.any fun e => e.step == 0) = true
  · rw [if_pos h1] at h; cases h
  · rw [if_neg h1] at h
    by_cases h2 : (E.any fun e => decide (e.axis ≥ v.rank)) = true
    · rw [if_pos h2] at h; cases h
    · rw [if_neg h2] at h
      refine ⟨?_, ?_⟩
      · intro e he hstep
        apply h1
        simp only [List.any_eq_true]
        exact ⟨e, he, by simp [hstep]⟩
      · cases h; rfl

theorem opSqueeze_ok (S : List Nat) (v v' : View) (h : opSqueeze S v = .ok v') :
    opSqueeze.go S 0 v = .ok v' := by
  unfold opSqueeze at h
  by_cases h1 : (S.any fun a => decide (a ≥ v.rank)) = true
  · rw [if_pos h1] at h; cases h
  · rw [if_neg h1] at h; exact h

/-! ### The single-Gather path: exactly one Python int, everything else `:` -/

def gatherF (i : Int) (srcs : List Nat) : Except Err AxisMap :=
  match normIdx srcs.length i with
  | some k => (match srcs[k]? with | some s => .ok (.drop s) | none => .error .indexError)
  | none => .error .indexError

theorem opGatherScalar_eq (axis : Nat) (i : Int) (v : View) :
    opGatherScalar axis i v = modifyPick axis (gatherF i) v := rfl

theorem numpyAxis_int (i : Int) (srcs : List Nat) : numpyAxis (.int i) srcs = gatherF i srcs := rfl

theorem numpyAxis_skip (c : Comp) (srcs : List Nat) (h : c.kind = Kind.skip) :
    numpyAxis c srcs = .ok (.pick srcs) := by
  cases c with
  | full => rfl
  | int i => simp [Comp.kind] at h
  | tScalar v => simp [Comp.kind] at h
  | tVec v => simp [Comp.kind] at h
  | slice lo hi st =>
    cases lo <;> cases hi <;> cases st <;> simp [Comp.kind] at h
    have e : (Bnd.none).val? = none := rfl
    simp only [numpyAxis, e, Option.getD]
    rw [pySliceList_full]
    rfl

theorem axiswise_all_skip (comps : List Comp) (ds : List Nat) (hlen : comps.length ≤ ds.length)
    (h : ∀ c ∈ comps, c.kind = Kind.skip) : axiswise numpyAxis comps ds = .ok (View.init ds) := by
  induction comps generalizing ds with
  | nil => rfl
  | cons c cs ih =>
    cases ds with
    | nil => simp at hlen
    | cons d ds =>
      simp only [axiswise, numpyAxis_skip c _ (h c (by simp)),
        ih ds (by simpa using hlen) (fun c' hc' => h c' (by simp [hc'])), bind, Except.bind, pure, Except.pure]
      rfl

/-- One Gather with a rank-0 constant index at position `j`, all other components `:`. -/
theorem gather_axiswise (i : Int) :
    ∀ (comps : List Comp) (ds : List Nat) (j : Nat) (r : View),
      comps.length ≤ ds.length →
      comps[j]? = some (.int i) →
      (∀ j' c, j' ≠ j → comps[j']? = some c → c.kind = Kind.skip) →
      modifyPick j (gatherF i) (View.init ds) = .ok r →
      axiswise numpyAxis comps ds = .ok r := by
  intro comps
  induction comps with
  | nil => intro ds j r _ hj; simp at hj
  | cons c cs ih =>
    intro ds j r hlen hj hskip h
    cases ds with
    | nil => simp at hlen
    | cons d ds =>
      have hlen' : cs.length ≤ ds.length := by simpa using hlen
      cases j with
      | zero =>
        simp only [List.getElem?_cons_zero, Option.some.injEq] at hj
        subst hj
        have hall : ∀ c ∈ cs, c.kind = Kind.skip := by
          intro c' hc'
          obtain ⟨n, hn⟩ := List.getElem?_of_mem hc'
          exact hskip (n + 1) c' (by omega) (by simpa using hn)
        simp only [View.init, List.map_cons, modifyPick, bind, Except.bind, pure, Except.pure] at h
        simp only [axiswise, numpyAxis_int, axiswise_all_skip cs ds hlen' hall, bind, Except.bind, pure,
          Except.pure]
        cases hg : gatherF i (List.range d) with
        | error e => simp [hg] at h
        | ok a => simpa [hg, View.init] using h
      | succ j =>
        have hc : c.kind = Kind.skip := hskip 0 c (by omega) (by simp)
        simp only [View.init, List.map_cons, modifyPick, bind, Except.bind, pure, Except.pure] at h
        cases hr : modifyPick j (gatherF i) (List.map (fun d => AxisMap.pick (List.range d)) ds) with
        | error e => simp [hr] at h
        | ok r' =>
          have := ih ds j r' hlen' (by simpa using hj)
            (fun j' c' hne hc' => hskip (j' + 1) c' (by omega) (by simpa using hc')) (by simpa [View.init] using hr)
          simp only [axiswise, numpyAxis_skip c _ hc, this, bind, Except.bind, pure, Except.pure]
          simpa [hr] using h

theorem filter_zipIdx_nil_forall (F : Comp → Bool) :
    ∀ (l : List Comp) (n : Nat), (l.zipIdx n).filter (fun p => F p.1) = [] →
      ∀ (j : Nat) (c : Comp), l[j]? = some c → F c = false := by
  intro l
  induction l with
  | nil => intro n _ j c hj; simp at hj
  | cons a l ih =>
    intro n h j c hj
    simp only [List.zipIdx_cons, List.filter_cons] at h
    cases hF : F a with
    | true => simp [hF] at h
    | false =>
      simp only [hF, Bool.false_eq_true, if_false] at h
      cases j with
      | zero => simp at hj; subst hj; exact hF
      | succ j => exact ih (n + 1) h j c (by simpa using hj)

/-- If filtering an indexed list by a predicate leaves exactly `[(c, j)]`, then position `j - n`
holds `c` and no other position satisfies the predicate. -/
theorem filter_zipIdx_singleton (F : Comp → Bool) :
    ∀ (l : List Comp) (n : Nat) (c : Comp) (j : Nat),
      (l.zipIdx n).filter (fun p => F p.1) = [(c, j)] →
      n ≤ j ∧ l[j - n]? = some c ∧ ∀ (j' : Nat) (c' : Comp), j' ≠ j - n → l[j']? = some c' → F c' = false := by
  intro l
  induction l with
  | nil => intro n c j h; simp at h
  | cons a l ih =>
    intro n c j h
    simp only [List.zipIdx_cons, List.filter_cons] at h
    cases hF : F a with
    | true =>
      simp only [hF, if_true, List.cons.injEq, Prod.mk.injEq] at h
      obtain ⟨⟨rfl, rfl⟩, hrest⟩ := h
      refine ⟨Nat.le_refl _, by simp, ?_⟩
      intro j' c' hne hc'
      cases j' with
      | zero => simp at hne
      | succ j' =>
        exact filter_zipIdx_nil_forall F l (n + 1) hrest j' c' (by simpa using hc')
    | false =>
      simp only [hF, Bool.false_eq_true, if_false] at h
      obtain ⟨hle, hget, hothers⟩ := ih (n + 1) c j h
      refine ⟨by omega, ?_, ?_⟩
      · have : j - n = (j - (n + 1)) + 1 := by omega
        rw [this, List.getElem?_cons_succ]; exact hget
      · intro j' c' hne hc'
        cases j' with
        | zero => simp at hc'; subst hc'; exact hF
        | succ j' =>
          simp only [List.getElem?_cons_succ] at hc'
          exact hothers j' c' (by omega) hc'

/-! ### Generic fusion (used for eager mode) -/

def applyEntry (o : Option SliceEntry) (srcs : List Nat) : List Nat :=
  match o with
  | some e => onnxSliceList srcs e.start e.stop e.step
  | none => srcs

theorem lookupSlice_eq (E : List SliceEntry) (k : Nat) (srcs : List Nat) :
    lookupSlice E k srcs = applyEntry (E.find? (fun e => e.axis == k)) srcs := by
  unfold lookupSlice applyEntry
  cases E.find? (fun e => e.axis == k) <;> rfl

/-- The result of one axis after `Slice` (entry `o`) and `Squeeze` (iff `sq`). -/
def axisAfter (o : Option SliceEntry) (sq : Bool) (srcs : List Nat) : Except Err AxisMap :=
  if sq then (do let s ← single? (applyEntry o srcs); pure (AxisMap.drop s))
  else .ok (.pick (applyEntry o srcs))

theorem slice_squeeze_axiswise_gen (E : List SliceEntry) (S : List Nat)
    (ent : Comp → Nat → Nat → Option SliceEntry) (sq : Comp → Bool)
    (axisF : Comp → List Nat → Except Err AxisMap) (P : Comp → Prop)
    (hax : ∀ (c : Comp) (j d : Nat), P c →
        axisF c (List.range d) = axisAfter (ent c j d) (sq c) (List.range d)) :
    ∀ (comps : List Comp) (ds : List Nat) (k : Nat) (r : View),
      comps.length ≤ ds.length →
      (∀ c ∈ comps, P c) →
      (∀ (j : Nat) (c : Comp) (d : Nat), comps[j]? = some c → ds[j]? = some d →
          E.find? (fun e => e.axis == k + j) = ent c (k + j) d) →
      (∀ j, comps.length ≤ j → E.find? (fun e => e.axis == k + j) = none) →
      (∀ (j : Nat) (c : Comp), comps[j]? = some c → S.contains (k + j) = sq c) →
      (∀ j, comps.length ≤ j → S.contains (k + j) = false) →
      opSqueeze.go S k (opSlice.go E k (View.init ds)) = .ok r →
      axiswise axisF comps ds = .ok r := by
  intro comps
  induction comps with
  | nil =>
    intro ds k r _ _ _ hE' _ hS' h
    rw [slice_go_init_none E k ds (fun j => hE' j (by simp)),
        squeeze_go_init_none S k ds (fun j => hS' j (by simp))] at h
    simpa [axiswise] using h
  | cons c cs ih =>
    intro ds k r hlen hP hE hE' hS hS' h
    cases ds with
    | nil => simp at hlen
    | cons d ds =>
      have hE0 := hE 0 c d (by simp) (by simp)
      have hS0 := hS 0 c (by simp)
      simp only [Nat.add_zero] at hE0 hS0
      have hlen' : cs.length ≤ ds.length := by simpa using hlen
      have hP' : ∀ c ∈ cs, P c := fun c hc => hP c (by simp [hc])
      have hEt : ∀ (j : Nat) (c : Comp) (d' : Nat), cs[j]? = some c → ds[j]? = some d' →
          E.find? (fun e => e.axis == k + 1 + j) = ent c (k + 1 + j) d' := by
        intro j c' d' hj hd
        have := hE (j + 1) c' d' (by simpa using hj) (by simpa using hd)
        rwa [show k + (j + 1) = k + 1 + j by omega] at this
      have hEt' : ∀ j, cs.length ≤ j → E.find? (fun e => e.axis == k + 1 + j) = none := by
        intro j hj
        have := hE' (j + 1) (by simp; omega)
        rwa [show k + (j + 1) = k + 1 + j by omega] at this
      have hSt : ∀ (j : Nat) (c : Comp), cs[j]? = some c → S.contains (k + 1 + j) = sq c := by
        intro j c' hj
        have := hS (j + 1) c' (by simpa using hj)
        rwa [show k + (j + 1) = k + 1 + j by omega] at this
      have hSt' : ∀ j, cs.length ≤ j → S.contains (k + 1 + j) = false := by
        intro j hj
        have := hS' (j + 1) (by simp; omega)
        rwa [show k + (j + 1) = k + 1 + j by omega] at this
      simp only [View.init, List.map_cons, slice_go_cons_pick, squeeze_go_cons_pick, hS0,
        lookupSlice_eq, hE0] at h
      simp only [axiswise, hax c k d (hP c (by simp)), axisAfter]
      cases hsq : sq c with
      | false =>
        simp only [hsq, Bool.false_eq_true, if_false] at h ⊢
        cases hr : opSqueeze.go S (k + 1) (opSlice.go E (k + 1) (List.map (fun d => AxisMap.pick (List.range d)) ds)) with
        | error e => simp [hr, bind, Except.bind] at h
        | ok r' =>
          have := ih ds (k + 1) r' hlen' hP' hEt hEt' hSt hSt' (by simpa [View.init] using hr)
          simp only [hr, bind, Except.bind, pure, Except.pure] at h
          simp only [this, bind, Except.bind, pure, Except.pure]
          exact h
      | true =>
        simp only [hsq, if_true] at h ⊢
        cases hs : single? (applyEntry (ent c k d) (List.range d)) with
        | error e => simp [hs, bind, Except.bind] at h
        | ok s =>
          cases hr : opSqueeze.go S (k + 1) (opSlice.go E (k + 1) (List.map (fun d => AxisMap.pick (List.range d)) ds)) with
          | error e => simp [hs, hr, bind, Except.bind] at h
          | ok r' =>
            have := ih ds (k + 1) r' hlen' hP' hEt hEt' hSt hSt' (by simpa [View.init] using hr)
            simp only [hs, hr, bind, Except.bind, pure, Except.pure] at h
            simp only [hs, this, bind, Except.bind, pure, Except.pure]
            exact h

end OV.Index
