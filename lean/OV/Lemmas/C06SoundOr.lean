import OV.Lemmas.C06Sound
import OV.Lemmas.C06Top
/-!
  C06 — soundness of the transcribed matcher for patterns with `BacktrackingOr`, for the repaired
  `merge` (C06-F3: node and value bindings of a successful alternative are kept).

  The step lemmas of `C06Sound` are restated for a stack `c :: rest`: the partial matches below the
  current one (`rest`) never change while a sub-match runs, the assignment is read through the whole
  stack (`assignStack`), and every key is bound at most once across the stack (`FreshP`), so that
  merging a successful alternative into its parent does not change any lookup.
-/
namespace OV.C06

/-- the assignment carried by a stack of partial matches: the matcher's own lookups -/
def assignStack (st : Stack) : Assign :=
  { names := fun k => lookupBinding st k
    node := fun np => lookupNode st np
    leaf := fun k => lookupVB st k }

theorem lookupBinding_cons (c : Partial) (rest : Stack) (k : String) :
    lookupBinding (c :: rest) k = (lookupBinding rest k).or (c.bindings.lookup k) := by
  simp [lookupBinding, List.findSome?_append]
theorem lookupVB_cons (c : Partial) (rest : Stack) (k : VKey) :
    lookupVB (c :: rest) k = (lookupVB rest k).or (c.vb.lookup k) := by
  simp [lookupVB, List.findSome?_append]
theorem lookupNode_cons (c : Partial) (rest : Stack) (k : NPId) :
    lookupNode (c :: rest) k = (lookupNode rest k).or (c.nb.lookup k) := by
  simp [lookupNode, List.findSome?_append]

theorem or_some_of_some {α} {a b : Option α} {x : α} (h : b = some x → True) :
    ∀ {b' : Option α}, (b = some x → b' = some x) → (a.or b = some x → a.or b' = some x) := by
  intro b' hb hab
  cases a with
  | some y => simpa using hab
  | none => simp at hab ⊢; exact hb hab

theorem Le.toALeS {c c' : Partial} (h : Le c c') (rest : Stack) :
    ALe (assignStack (c :: rest)) (assignStack (c' :: rest)) := by
  refine ⟨fun k x hk => ?_, fun k x hk => ?_, fun k x hk => ?_⟩
  · show lookupBinding (c' :: rest) k = some x
    have : lookupBinding (c :: rest) k = some x := hk
    rw [lookupBinding_cons] at this ⊢
    cases hr : lookupBinding rest k with
    | some y => simpa [hr] using this
    | none => simp [hr] at this ⊢; exact h.b _ _ this
  · show lookupNode (c' :: rest) k = some x
    have : lookupNode (c :: rest) k = some x := hk
    rw [lookupNode_cons] at this ⊢
    cases hr : lookupNode rest k with
    | some y => simpa [hr] using this
    | none => simp [hr] at this ⊢; exact h.n _ _ this
  · show lookupVB (c' :: rest) k = some x
    have : lookupVB (c :: rest) k = some x := hk
    rw [lookupVB_cons] at this ⊢
    cases hr : lookupVB rest k with
    | some y => simpa [hr] using this
    | none => simp [hr] at this ⊢; exact h.v _ _ this

/-- every key of the current partial match is unbound in the partial matches below it, and bound once -/
structure FreshP (rest : Stack) (c : Partial) : Prop where
  b : ∀ k x, (k, x) ∈ c.bindings → lookupBinding rest k = none
  v : ∀ k x, (k, x) ∈ c.vb → lookupVB rest k = none
  n : ∀ k x, (k, x) ∈ c.nb → lookupNode rest k = none
  bd : (c.bindings.map (·.1)).Nodup
  vd : (c.vb.map (·.1)).Nodup
  nd : (c.nb.map (·.1)).Nodup
  /-- the matched-node list is the image of the node bindings, in binding order -/
  nbn : c.nodes = c.nb.map (·.2)

theorem FreshP.empty (rest : Stack) : FreshP rest ({} : Partial) :=
  ⟨fun _ _ h => by simp at h, fun _ _ h => by simp at h, fun _ _ h => by simp at h,
   by simp, by simp, by simp, rfl⟩

theorem lookup_none_not_mem {α β} [BEq α] [LawfulBEq α] : ∀ (l : List (α × β)) (k : α),
    l.lookup k = none → k ∉ l.map (·.1) := by
  intro l
  induction l with
  | nil => intro k _; simp
  | cons hd tl ih =>
    intro k h
    obtain ⟨k', v'⟩ := hd
    simp only [List.lookup] at h
    split at h
    · cases h
    · next hne =>
      simp only [List.map_cons, List.mem_cons, not_or]
      exact ⟨by simpa using hne, ih k h⟩

theorem nodup_snoc {α β} [BEq α] [LawfulBEq α] (l : List (α × β)) (k : α) (b : β)
    (hd : (l.map (·.1)).Nodup) (hn : l.lookup k = none) : ((l ++ [(k, b)]).map (·.1)).Nodup := by
  rw [List.map_append, List.nodup_append]
  refine ⟨hd, by simp, fun a ha b' hb => ?_⟩
  simp at hb
  subst hb
  intro he
  subst he
  exact lookup_none_not_mem l a hn ha

/-- result shape on `c :: rest`: the partial matches below are untouched; `false` comes with a failed
current partial match -/
structure ResS (rest : Stack) (r : R) (c' : Partial) : Prop where
  st : r.2 = c' :: rest
  okF : r.1 = false → c'.ok = false

theorem fail_cons (c : Partial) (rest : Stack) : fail (c :: rest) = (false, { c with ok := false } :: rest) := rfl

theorem ResS.failed (rest : Stack) (c : Partial) : ResS rest (fail (c :: rest)) { c with ok := false } :=
  ⟨rfl, fun _ => rfl⟩

theorem FreshP.failed {rest : Stack} {c : Partial} (h : FreshP rest c) : FreshP rest { c with ok := false } :=
  ⟨h.b, h.v, h.n, h.bd, h.vd, h.nd, h.nbn⟩

theorem bind_specS (rest : Stack) (c : Partial) (k : String) (b : Bound) (hf : FreshP rest c) :
    ∃ c', ResS rest (bind (c :: rest) k b) c' ∧ Ext c c' ∧ c'.vb = c.vb ∧ FreshP rest c' ∧
      ((bind (c :: rest) k b).1 = true → lookupBinding (c' :: rest) k = some b) := by
  unfold bind
  cases hl : lookupBinding (c :: rest) k with
  | some b' =>
    dsimp only
    by_cases h : (b' == b) = true
    · simp only [h, if_true]
      have : b' = b := by simpa using h
      exact ⟨c, ⟨rfl, fun h => by simp at h⟩, Ext.refl c, rfl, hf, fun _ => this ▸ hl⟩
    · simp only [h]
      exact ⟨_, ResS.failed rest c, ext_failed c, rfl, hf.failed, fun h => by simp [fail_cons] at h⟩
  | none =>
    dsimp only
    rw [lookupBinding_cons] at hl
    have hr : lookupBinding rest k = none := by
      cases h : lookupBinding rest k with
      | none => rfl
      | some y => simp [h] at hl
    have hc : c.bindings.lookup k = none := by simpa [hr] using hl
    refine ⟨{ c with bindings := c.bindings ++ [(k, b)] }, ⟨rfl, fun h => by simp at h⟩,
      ⟨⟨fun k' x h => lookup_snoc_of_some _ _ _ _ _ h, fun _ _ h => h, fun _ _ h => h, id⟩, rfl, rfl⟩, rfl,
      ⟨fun k' x hm => ?_, hf.v, hf.n, nodup_snoc _ _ _ hf.bd hc, hf.vd, hf.nd, hf.nbn⟩, fun _ => ?_⟩
    · rcases List.mem_append.1 hm with h1 | h1
      · exact hf.b _ _ h1
      · simp at h1; obtain ⟨rfl, rfl⟩ := h1; exact hr
    · rw [lookupBinding_cons, hr]
      simp [lookup_snoc_self _ _ _ hc]

theorem ResS.chain {rest : Stack} {c1 c2 : Partial} {r2 : R} (h2 : ResS rest r2 c2) : ResS rest r2 c2 := h2

theorem Ext.fresh_of_same {rest : Stack} {c c' : Partial} (hf : FreshP rest c)
    (hb : c'.bindings = c.bindings) (hv : c'.vb = c.vb) (hn : c'.nb = c.nb) (hnodes : c'.nodes = c.nodes) :
    FreshP rest c' :=
  ⟨by rw [hb]; exact hf.b, by rw [hv]; exact hf.v, by rw [hn]; exact hf.n,
   by rw [hb]; exact hf.bd, by rw [hv]; exact hf.vd, by rw [hn]; exact hf.nd, by rw [hn, hnodes]; exact hf.nbn⟩

theorem bindValue_specS (p : GPat) (rest : Stack) (c : Partial) (vp : VPat) (v : Option ValueId)
    (hf : FreshP rest c) :
    ∃ c', ResS rest (bindValue p (c :: rest) vp v) c' ∧ Ext c c' ∧ FreshP rest c' ∧
      ((bindValue p (c :: rest) vp v).1 = true → (assignStack (c' :: rest)).boundTo p vp v) := by
  unfold bindValue Assign.boundTo
  rcases hn : p.vname vp with _ | nm <;> dsimp only
  · rcases hk : vp.key with _ | k <;> dsimp only
    · exact ⟨c, ⟨rfl, fun h => by simp at h⟩, Ext.refl c, hf, fun _ => trivial⟩
    · cases hl : lookupVB (c :: rest) k with
      | some v' =>
        dsimp only
        by_cases h : (v' == v) = true
        · simp only [h, if_true]
          have : v' = v := by simpa using h
          exact ⟨c, ⟨rfl, fun h => by simp at h⟩, Ext.refl c, hf, fun _ => this ▸ hl⟩
        · simp only [h]
          exact ⟨_, ResS.failed rest c, ext_failed c, hf.failed, fun h => by simp [fail_cons] at h⟩
      | none =>
        dsimp only
        rw [lookupVB_cons] at hl
        have hr : lookupVB rest k = none := by
          cases h : lookupVB rest k with
          | none => rfl
          | some y => simp [h] at hl
        have hc : c.vb.lookup k = none := by simpa [hr] using hl
        refine ⟨{ c with vb := c.vb ++ [(k, v)] }, ⟨rfl, fun h => by simp at h⟩,
          ⟨⟨fun _ _ h => h, fun k' x h => lookup_snoc_of_some _ _ _ _ _ h, fun _ _ h => h, id⟩, rfl, rfl⟩,
          ⟨hf.b, fun k' x hm => ?_, hf.n, hf.bd, nodup_snoc _ _ _ hf.vd hc, hf.nd, hf.nbn⟩, fun _ => ?_⟩
        · rcases List.mem_append.1 hm with h1 | h1
          · exact hf.v _ _ h1
          · simp at h1; obtain ⟨rfl, rfl⟩ := h1; exact hr
        · show lookupVB (_ :: rest) k = some v
          rw [lookupVB_cons, hr]
          simp [lookup_snoc_self _ _ _ hc]
  · obtain ⟨c', h1, h2, _, h4, h5⟩ := bind_specS rest c nm (Bound.ofVal v) hf
    exact ⟨c', h1, h2, h4, fun h => h5 h⟩

theorem bindValue2_specS (fix2 : Bool) (p : GPat) (rest : Stack) (c : Partial) (vp : VPat)
    (v : Option ValueId) (hf : FreshP rest c) :
    ∃ c', ResS rest (bindValue2 fix2 p (c :: rest) vp v) c' ∧ Ext c c' ∧ FreshP rest c' ∧
      ((bindValue2 fix2 p (c :: rest) vp v).1 = true → (assignStack (c' :: rest)).boundTo p vp v) := by
  obtain ⟨c1, r1, e1, f1, b1⟩ := bindValue_specS p rest c vp v hf
  unfold bindValue2
  dsimp only
  split
  · next hcond =>
    have ht : (bindValue p (c :: rest) vp v).1 = true := by
      simp only [Bool.and_eq_true] at hcond
      exact hcond.1.1.2
    split
    · next k hk =>
      rw [r1.st]
      split
      · next hnone =>
        have hl : lookupVB (c1 :: rest) k = none := by
          cases h : lookupVB (c1 :: rest) k with
          | none => rfl
          | some x => simp [h] at hnone
        rw [lookupVB_cons] at hl
        have hr : lookupVB rest k = none := by
          cases h : lookupVB rest k with
          | none => rfl
          | some y => simp [h] at hl
        have hc : c1.vb.lookup k = none := by simpa [hr] using hl
        refine ⟨{ c1 with vb := c1.vb ++ [(k, v)] }, ⟨rfl, fun h => by simp at h⟩, e1.trans
            ⟨⟨fun _ _ h => h, fun k' x h => lookup_snoc_of_some _ _ _ _ _ h, fun _ _ h => h, id⟩, rfl, rfl⟩,
          ⟨f1.b, fun k' x hm => ?_, f1.n, f1.bd, nodup_snoc _ _ _ f1.vd hc, f1.nd, f1.nbn⟩, fun _ => ?_⟩
        · rcases List.mem_append.1 hm with h1 | h1
          · exact f1.v _ _ h1
          · simp at h1; obtain ⟨rfl, rfl⟩ := h1; exact hr
        · have hb := b1 ht
          unfold Assign.boundTo at hb ⊢
          have hname : (p.vname vp).isSome = true := by
            simp only [Bool.and_eq_true] at hcond
            exact hcond.1.2
          rcases hn : p.vname vp with _ | nm
          · simp [hn] at hname
          · simp only [hn] at hb ⊢
            have hb' : lookupBinding (c1 :: rest) nm = some (Bound.ofVal v) := hb
            show lookupBinding (_ :: rest) nm = some (Bound.ofVal v)
            rw [lookupBinding_cons] at hb' ⊢
            exact hb'
      · exact ⟨c1, r1, e1, f1, b1⟩
    · exact ⟨c1, r1, e1, f1, b1⟩
  · exact ⟨c1, r1, e1, f1, b1⟩

theorem attrsLoop_specS (n : GNode) (rest : Stack) : ∀ (l : List (String × APat)) (c : Partial) (r : R),
    attrsLoop n l (c :: rest) = r → FreshP rest c →
    ∃ c', ResS rest r c' ∧ Ext c c' ∧ FreshP rest c' ∧
      (r.1 = true → ∀ name ap, (name, ap) ∈ l →
        attrOk n name ap ∧
        (∀ nm, ap.name = some nm → lookupBinding (c' :: rest) nm = some (Bound.ofAttr (n.attr name)))) := by
  intro l
  induction l with
  | nil =>
    intro c r hr hf
    subst hr
    exact ⟨c, ⟨rfl, fun h => by simp [attrsLoop] at h⟩, Ext.refl c, hf, fun _ _ _ h => by simp at h⟩
  | cons hd tl ih =>
    intro c r hr hf
    obtain ⟨name, ap⟩ := hd
    unfold attrsLoop at hr
    split at hr
    · subst hr
      exact ⟨_, ResS.failed rest c, ext_failed c, hf.failed, fun h => by simp [fail_cons] at h⟩
    · next hbad =>
      have hgood : attrOk n name ap := by
        unfold attrOk
        unfold attrBad at hbad
        revert hbad
        cases n.attr name <;> simp
      split at hr
      · next nm hnm =>
        obtain ⟨c1, r1, e1, _, f1, b1⟩ := bind_specS rest c nm (Bound.ofAttr (n.attr name)) hf
        dsimp only at hr
        split at hr
        · next hb =>
          subst hr
          have hb' : (bind (c :: rest) nm (Bound.ofAttr (n.attr name))).1 = false := by simpa using hb
          exact ⟨c1, r1, e1, f1, fun h => by simp [hb'] at h⟩
        · next hb =>
          have hb' : (bind (c :: rest) nm (Bound.ofAttr (n.attr name))).1 = true := by simpa using hb
          rw [r1.st] at hr
          obtain ⟨c', h1, h2, hf2, h3⟩ := ih c1 r hr f1
          refine ⟨c', h1, e1.trans h2, hf2, fun ht name' ap' hm => ?_⟩
          rcases List.mem_cons.1 hm with he | hm
          · cases he
            refine ⟨hgood, fun nm' e => ?_⟩
            have : nm' = nm := by simpa [hnm] using e.symm
            subst this
            exact (h2.le.toALeS rest).names _ _ (b1 hb')
          · exact h3 ht name' ap' hm
      · next hnm =>
        obtain ⟨c', h1, h2, hf2, h3⟩ := ih c r hr hf
        refine ⟨c', h1, h2, hf2, fun ht name' ap' hm => ?_⟩
        rcases List.mem_cons.1 hm with he | hm
        · cases he
          exact ⟨hgood, fun nm' e => by simp [hnm] at e⟩
        · exact h3 ht name' ap' hm

theorem nodeMatches_specS (np : NPat) (n : GNode) (rest : Stack) (c : Partial) (r : R)
    (hr : nodeMatches np n (c :: rest) = r) (hf : FreshP rest c) :
    ∃ c', ResS rest r c' ∧ Ext c c' ∧ FreshP rest c' ∧
      (r.1 = true → np.op.matches n.op = true ∧ np.domain.matches n.domain = true ∧
        attrsSat (assignStack (c' :: rest)) np n) := by
  unfold nodeMatches at hr
  split at hr
  · subst hr; exact ⟨_, ResS.failed rest c, ext_failed c, hf.failed, fun h => by simp [fail_cons] at h⟩
  · next hop =>
    split at hr
    · subst hr; exact ⟨_, ResS.failed rest c, ext_failed c, hf.failed, fun h => by simp [fail_cons] at h⟩
    · next hdom =>
      dsimp only at hr
      obtain ⟨c1, r1, e1, f1, a1⟩ := attrsLoop_specS n rest np.attrs c _ rfl hf
      split at hr
      · next hff =>
        subst hr
        have hf' : (attrsLoop n np.attrs (c :: rest)).1 = false := by simpa using hff
        exact ⟨c1, r1, e1, f1, fun h => by simp [hf'] at h⟩
      · next ht =>
        have ht' : (attrsLoop n np.attrs (c :: rest)).1 = true := by simpa using ht
        split at hr
        · next hx =>
          subst hr
          rw [r1.st]
          exact ⟨_, ResS.failed rest c1, e1.trans (ext_failed c1), f1.failed,
            fun h => by simp [fail_cons] at h⟩
        · next hx =>
          subst hr
          refine ⟨c1, r1, e1, f1, fun _ => ⟨by simpa using hop, by simpa using hdom, ?_, ?_⟩⟩
          · intro name ap hm
            exact ⟨(a1 ht' name ap hm).1, fun nm e => (a1 ht' name ap hm).2 nm e⟩
          · intro hao a ha
            simp only [hao, Bool.not_false, Bool.true_and, List.any_eq_true, Bool.not_eq_true',
              not_exists, not_and, Bool.not_eq_false] at hx
            obtain ⟨kv, hk1, hk2⟩ := hx a ha
            refine ⟨kv.2, ?_⟩
            have : kv.1 = a.name := by simpa using hk2
            rw [← this]
            exact hk1

theorem matchConstant_specS (E : Env) (k : ConstPat) (x : ValueId) (rest : Stack) (c : Partial) (r : R)
    (hr : matchConstant E k x (c :: rest) = r) :
    ∃ c', ResS rest r c' ∧ Ext c c' ∧ c'.bindings = c.bindings ∧ c'.vb = c.vb ∧
      (r.1 = true → ∃ cv, E.g.constOf x = some cv ∧ constOk E.close k cv = true) := by
  unfold matchConstant at hr
  split at hr
  · subst hr; exact ⟨_, ResS.failed rest c, ext_failed c, rfl, rfl, fun h => by simp [fail_cons] at h⟩
  · next cv hcv =>
    split at hr
    · next hok => subst hr; exact ⟨c, ⟨rfl, fun h => by simp at h⟩, Ext.refl c, rfl, rfl, fun _ => ⟨cv, hcv, hok⟩⟩
    · subst hr; exact ⟨_, ResS.failed rest c, ext_failed c, rfl, rfl, fun h => by simp [fail_cons] at h⟩

/-! ## Invariant, merge -/

def InvS (E : Env) (rest : Stack) (c : Partial) (P : List NPId) : Prop :=
  ∀ q m, lookupNode (c :: rest) q = some m → q ∈ P ∨ SatN E (assignStack (c :: rest)) q m

theorem InvS.ext {E : Env} {rest : Stack} {c c' : Partial} {P : List NPId} (h : InvS E rest c P)
    (e : Ext c c') : InvS E rest c' P := by
  intro q m hq
  rw [lookupNode_cons, e.nb, ← lookupNode_cons] at hq
  rcases h q m hq with h | h
  · exact .inl h
  · exact .inr (satN_mono (e.le.toALeS rest) h)

def NodeSpecS (E : Env) (rec : NPId → NodeId → Stack → R) : Prop :=
  ∀ np n rest c P r, rec np n (c :: rest) = r → InvS E rest c P → (∀ x ∈ P, np < x) → FreshP rest c →
    ∃ c', ResS rest r c' ∧ Le c c' ∧ FreshP rest c' ∧
      (r.1 = true → InvS E rest c' P ∧ SatN E (assignStack (c' :: rest)) np n)

theorem dictUpd_fresh {α β} [BEq α] [LawfulBEq α] (d : List (α × β)) (k : α) (b : β)
    (h : d.lookup k = none) : dictUpd d k b = d ++ [(k, b)] := by
  unfold dictUpd
  have : d.any (fun kv => kv.1 == k) = false := by
    have hnm := lookup_none_not_mem d k h
    simp only [List.any_eq_false]
    intro kv hkv he
    exact hnm (List.mem_map.2 ⟨kv, hkv, by simpa using he⟩)
  simp [this]

theorem lookup_append_none {α β} [BEq α] (l1 l2 : List (α × β)) (k : α)
    (h1 : l1.lookup k = none) (h2 : l2.lookup k = none) : (l1 ++ l2).lookup k = none := by
  simp [List.lookup_append, h1, h2]

theorem mem_keys_lookup_none_ne {α β} [BEq α] [LawfulBEq α] (l : List (α × β)) (k k' : α) (x : β)
    (hm : (k', x) ∈ l) (hn : l.lookup k = none) : k' ≠ k := by
  intro he
  subst he
  exact lookup_none_not_mem l k' hn (List.mem_map.2 ⟨(k', x), hm, rfl⟩)

theorem foldl_dictUpd_append {α β} [BEq α] [LawfulBEq α] : ∀ (l2 l1 : List (α × β)),
    (∀ kv ∈ l2, l1.lookup kv.1 = none) → (l2.map (·.1)).Nodup →
    l2.foldl (fun d kv => dictUpd d kv.1 kv.2) l1 = l1 ++ l2 := by
  intro l2
  induction l2 with
  | nil => intro l1 _ _; simp
  | cons hd tl ih =>
    intro l1 hfr hnd
    obtain ⟨k, b⟩ := hd
    simp only [List.foldl_cons]
    rw [dictUpd_fresh l1 k b (hfr (k, b) (List.mem_cons_self ..))]
    simp only [List.map_cons, List.nodup_cons] at hnd
    rw [ih (l1 ++ [(k, b)]) ?_ hnd.2]
    · simp
    · intro kv hkv
      have h1 := hfr kv (List.mem_cons_of_mem _ hkv)
      have hne : kv.1 ≠ k := by
        intro he
        exact hnd.1 (List.mem_map.2 ⟨kv, hkv, he⟩)
      simp only [List.lookup_append, h1, Option.none_or, List.lookup]
      have : (kv.1 == k) = false := by simpa using hne
      simp [this]

theorem or_none_both {α} {a b : Option α} (h : a.or b = none) : a = none ∧ b = none := by
  cases a <;> cases b <;> simp_all

/-- merging a successful alternative into its parent (repaired `merge`): the lists are appended, the
keys stay fresh, and no lookup through the stack changes -/
theorem mergeAll_spec (rest : Stack) (c cur : Partial) (hc : FreshP rest c) (hcur : FreshP (c :: rest) cur) :
    (c.mergeAll cur).bindings = c.bindings ++ cur.bindings ∧
    (c.mergeAll cur).vb = c.vb ++ cur.vb ∧ (c.mergeAll cur).nb = c.nb ++ cur.nb ∧
    (c.mergeAll cur).ok = c.ok ∧ FreshP rest (c.mergeAll cur) := by
  have hb : ∀ kv ∈ cur.bindings, c.bindings.lookup kv.1 = none := by
    intro kv hkv
    have := hcur.b kv.1 kv.2 hkv
    rw [lookupBinding_cons] at this
    exact (or_none_both this).2
  have hv : ∀ kv ∈ cur.vb, c.vb.lookup kv.1 = none := by
    intro kv hkv
    have := hcur.v kv.1 kv.2 hkv
    rw [lookupVB_cons] at this
    exact (or_none_both this).2
  have hn : ∀ kv ∈ cur.nb, c.nb.lookup kv.1 = none := by
    intro kv hkv
    have := hcur.n kv.1 kv.2 hkv
    rw [lookupNode_cons] at this
    exact (or_none_both this).2
  have e1 : (c.mergeAll cur).bindings = c.bindings ++ cur.bindings := by
    show cur.bindings.foldl (fun d kv => dictSet d kv.1 kv.2) c.bindings = _
    exact foldl_dictUpd_append cur.bindings c.bindings hb hcur.bd
  have e2 : (c.mergeAll cur).vb = c.vb ++ cur.vb := foldl_dictUpd_append cur.vb c.vb hv hcur.vd
  have e3 : (c.mergeAll cur).nb = c.nb ++ cur.nb := foldl_dictUpd_append cur.nb c.nb hn hcur.nd
  refine ⟨e1, e2, e3, rfl, ?_⟩
  refine ⟨fun k x hm => ?_, fun k x hm => ?_, fun k x hm => ?_, ?_, ?_, ?_, ?_⟩
  · rw [e1] at hm
    rcases List.mem_append.1 hm with h | h
    · exact hc.b _ _ h
    · have := hcur.b _ _ h; rw [lookupBinding_cons] at this; exact (or_none_both this).1
  · rw [e2] at hm
    rcases List.mem_append.1 hm with h | h
    · exact hc.v _ _ h
    · have := hcur.v _ _ h; rw [lookupVB_cons] at this; exact (or_none_both this).1
  · rw [e3] at hm
    rcases List.mem_append.1 hm with h | h
    · exact hc.n _ _ h
    · have := hcur.n _ _ h; rw [lookupNode_cons] at this; exact (or_none_both this).1
  · rw [e1, List.map_append, List.nodup_append]
    refine ⟨hc.bd, hcur.bd, fun a ha b hb' he => ?_⟩
    subst he
    obtain ⟨kv, hkv, rfl⟩ := List.mem_map.1 hb'
    exact lookup_none_not_mem _ _ (hb kv hkv) ha
  · rw [e2, List.map_append, List.nodup_append]
    refine ⟨hc.vd, hcur.vd, fun a ha b hb' he => ?_⟩
    subst he
    obtain ⟨kv, hkv, rfl⟩ := List.mem_map.1 hb'
    exact lookup_none_not_mem _ _ (hv kv hkv) ha
  · rw [e3, List.map_append, List.nodup_append]
    refine ⟨hc.nd, hcur.nd, fun a ha b hb' he => ?_⟩
    subst he
    obtain ⟨kv, hkv, rfl⟩ := List.mem_map.1 hb'
    exact lookup_none_not_mem _ _ (hn kv hkv) ha
  · rw [e3, List.map_append, ← hc.nbn, ← hcur.nbn]
    rfl

/-- lookups through `cur :: c :: rest` and through `merged :: rest` coincide -/
theorem mergeAll_assign (rest : Stack) (c cur : Partial) (hc : FreshP rest c) (hcur : FreshP (c :: rest) cur) :
    ALe (assignStack (cur :: c :: rest)) (assignStack (c.mergeAll cur :: rest)) ∧
    (∀ q, lookupNode (c.mergeAll cur :: rest) q = lookupNode (cur :: c :: rest) q) := by
  obtain ⟨e1, e2, e3, _, _⟩ := mergeAll_spec rest c cur hc hcur
  have hb : ∀ k, lookupBinding (c.mergeAll cur :: rest) k = lookupBinding (cur :: c :: rest) k := by
    intro k
    rw [lookupBinding_cons, lookupBinding_cons, lookupBinding_cons, e1, List.lookup_append]
    cases lookupBinding rest k <;> cases c.bindings.lookup k <;> simp
  have hv : ∀ k, lookupVB (c.mergeAll cur :: rest) k = lookupVB (cur :: c :: rest) k := by
    intro k
    rw [lookupVB_cons, lookupVB_cons, lookupVB_cons, e2, List.lookup_append]
    cases lookupVB rest k <;> cases c.vb.lookup k <;> simp
  have hn : ∀ k, lookupNode (c.mergeAll cur :: rest) k = lookupNode (cur :: c :: rest) k := by
    intro k
    rw [lookupNode_cons, lookupNode_cons, lookupNode_cons, e3, List.lookup_append]
    cases lookupNode rest k <;> cases c.nb.lookup k <;> simp
  exact ⟨⟨fun k x h => (hb k).trans h, fun k x h => (hn k).trans h, fun k x h => (hv k).trans h⟩, hn⟩

/-! ## _match_value with BacktrackingOr -/

mutual
/-- every `OpIdDispatchOr` inside the value pattern has no tag variable (its `bind` result is ignored by
the code); `BacktrackingOr` is unrestricted -/
def VPat.backOk : VPat → Bool
  | .orD _ _ tagVar _ => tagVar.isNone
  | .orB _ _ _ _ alts => backOkL alts
  | _ => true
def backOkL : List VPat → Bool
  | [] => true
  | a :: rest => a.backOk && backOkL rest
end

theorem crossGraph_orB {g : Graph} {id : Nat} {name tagVar : Option String} {tags : List Int}
    {alts : List VPat} {v : Option ValueId}
    (h : ¬ crossGraphBad g (.orB id name tagVar tags alts) v = true) :
    ∀ x, v = some x → g.isForeign x = false := by
  intro x hx
  subst hx
  simp only [crossGraphBad, VPat.crossGraphOk, Bool.not_false, Bool.and_true, Bool.not_eq_true] at h
  exact h

theorem assignStack_push (E : Env) (rest : Stack) (c : Partial) :
    ALe (assignStack (c :: rest)) (assignStack (({} : Partial) :: c :: rest)) ∧
    ALe (assignStack (({} : Partial) :: c :: rest)) (assignStack (c :: rest)) ∧
    (∀ q, lookupNode (({} : Partial) :: c :: rest) q = lookupNode (c :: rest) q) := by
  have hb : ∀ k, lookupBinding (({} : Partial) :: c :: rest) k = lookupBinding (c :: rest) k := by
    intro k; rw [lookupBinding_cons]; simp
  have hv : ∀ k, lookupVB (({} : Partial) :: c :: rest) k = lookupVB (c :: rest) k := by
    intro k; rw [lookupVB_cons]; simp
  have hn : ∀ k, lookupNode (({} : Partial) :: c :: rest) k = lookupNode (c :: rest) k := by
    intro k; rw [lookupNode_cons]; simp
  exact ⟨⟨fun k x h => (hb k).trans h, fun k x h => (hn k).trans h, fun k x h => (hv k).trans h⟩,
    ⟨fun k x h => (hb k).symm.trans h, fun k x h => (hn k).symm.trans h, fun k x h => (hv k).symm.trans h⟩, hn⟩

mutual
theorem matchValue_specS (E : Env) (rec : NPId → NodeId → Stack → R) (hrec : NodeSpecS E rec)
    (hf3 : E.fixF3 = true) : ∀ (vp : VPat) (v : Option ValueId) (rest : Stack) (c : Partial)
      (P : List NPId) (r : R),
      matchValue E rec vp v (c :: rest) = r → vp.backOk = true → InvS E rest c P → FreshP rest c →
      (∀ q ∈ vp.refs, ∀ x ∈ P, q < x) →
      ∃ c', ResS rest r c' ∧ Le c c' ∧ FreshP rest c' ∧
        (r.1 = true → InvS E rest c' P ∧ SatV E (assignStack (c' :: rest)) vp v)
  | .any, v, rest, c, P, r, hr, _, hinv, hf, _ => by
    unfold matchValue at hr
    split at hr
    · subst hr
      exact ⟨_, ResS.failed rest c, (ext_failed c).le, hf.failed, fun h => by simp [fail_cons] at h⟩
    · dsimp only at hr
      subst hr
      exact ⟨c, ⟨rfl, fun h => by simp at h⟩, Le.refl c, hf, fun _ => ⟨hinv, .any v⟩⟩
  | .var id name isVar canNone check, v, rest, c, P, r, hr, _, hinv, hf, _ => by
    unfold matchValue at hr
    split at hr
    · subst hr
      exact ⟨_, ResS.failed rest c, (ext_failed c).le, hf.failed, fun h => by simp [fail_cons] at h⟩
    · next hcg =>
      dsimp only at hr
      obtain ⟨c1, r1, e1, f1, b1⟩ := bindValue2_specS E.fixF2 E.p rest c (.var id name isVar canNone check) v hf
      split at hr
      · next hff =>
        subst hr
        have hf' : (bindValue2 E.fixF2 E.p (c :: rest) (.var id name isVar canNone check) v).1 = false := by
          simpa using hff
        exact ⟨c1, r1, e1.le, f1, fun h => by simp [hf'] at h⟩
      · next ht =>
        have ht' : (bindValue2 E.fixF2 E.p (c :: rest) (.var id name isVar canNone check) v).1 = true := by
          simpa using ht
        split at hr
        · subst hr
          rw [r1.st]
          exact ⟨_, ResS.failed rest c1, (e1.trans (ext_failed c1)).le, f1.failed,
            fun h => by simp [fail_cons] at h⟩
        · next hn =>
          subst hr
          refine ⟨c1, r1, e1.le, f1, fun _ => ⟨hinv.ext e1, .var _ _ _ _ _ _ (b1 ht') ?_ (crossGraph_var hcg)⟩⟩
          intro hv
          subst hv
          simpa using hn
  | .const id k, v, rest, c, P, r, hr, _, hinv, hf, _ => by
    unfold matchValue at hr
    split at hr
    · subst hr
      exact ⟨_, ResS.failed rest c, (ext_failed c).le, hf.failed, fun h => by simp [fail_cons] at h⟩
    · next hcg =>
      dsimp only at hr
      obtain ⟨c1, r1, e1, f1, b1⟩ := bindValue_specS E.p rest c (.const id k) v hf
      split at hr
      · next hff =>
        subst hr
        have hf' : (bindValue E.p (c :: rest) (.const id k) v).1 = false := by simpa using hff
        exact ⟨c1, r1, e1.le, f1, fun h => by simp [hf'] at h⟩
      · next ht =>
        have ht' : (bindValue E.p (c :: rest) (.const id k) v).1 = true := by simpa using ht
        rw [r1.st] at hr
        split at hr
        · subst hr
          exact ⟨_, ResS.failed rest c1, (e1.trans (ext_failed c1)).le, f1.failed,
            fun h => by simp [fail_cons] at h⟩
        · next x =>
          obtain ⟨c2, r2, e2, hb2, hv2, k2⟩ := matchConstant_specS E k x rest c1 r hr
          refine ⟨c2, r2, (e1.trans e2).le, Ext.fresh_of_same f1 hb2 hv2 e2.nb e2.nodes,
            fun h => ⟨hinv.ext (e1.trans e2), ?_⟩⟩
          obtain ⟨cv, h1, h2⟩ := k2 h
          exact .const id k x cv (boundTo_mono (e2.le.toALeS rest) _ _ _ (b1 ht')) h1 h2
  | .out np idx, v, rest, c, P, r, hr, _, hinv, hf, hq => by
    unfold matchValue at hr
    split at hr
    · subst hr
      exact ⟨_, ResS.failed rest c, (ext_failed c).le, hf.failed, fun h => by simp [fail_cons] at h⟩
    · next hcg =>
      dsimp only at hr
      obtain ⟨c1, r1, e1, f1, b1⟩ := bindValue_specS E.p rest c (.out np idx) v hf
      split at hr
      · next hff =>
        subst hr
        have hf' : (bindValue E.p (c :: rest) (.out np idx) v).1 = false := by simpa using hff
        exact ⟨c1, r1, e1.le, f1, fun h => by simp [hf'] at h⟩
      · next ht =>
        have ht' : (bindValue E.p (c :: rest) (.out np idx) v).1 = true := by simpa using ht
        rw [r1.st] at hr
        split at hr
        · subst hr
          exact ⟨_, ResS.failed rest c1, (e1.trans (ext_failed c1)).le, f1.failed,
            fun h => by simp [fail_cons] at h⟩
        · next x =>
          unfold matchNodeOutput at hr
          split at hr
          · subst hr
            exact ⟨_, ResS.failed rest c1, (e1.trans (ext_failed c1)).le, f1.failed,
              fun h => by simp [fail_cons] at h⟩
          · next n hprod =>
            split at hr
            · subst hr
              exact ⟨_, ResS.failed rest c1, (e1.trans (ext_failed c1)).le, f1.failed,
                fun h => by simp [fail_cons] at h⟩
            · next hidx =>
              obtain ⟨c2, r2, l2, f2, s2⟩ := hrec np n rest c1 P r hr (hinv.ext e1)
                (hq np (by simp [VPat.refs])) f1
              refine ⟨c2, r2, e1.le.trans l2, f2, fun h => ⟨(s2 h).1, ?_⟩⟩
              have hidx' : E.g.index x = some idx := by simpa using hidx
              exact .out np idx x n (boundTo_mono (l2.toALeS rest) _ _ _ (b1 ht')) (crossGraph_out hcg)
                hprod hidx' (s2 h).2
  | .orD id name tagVar alts, v, rest, c, P, r, hr, hno, hinv, hf, hq => by
    have htv : tagVar = none := by
      cases tagVar with
      | none => rfl
      | some t => simp [VPat.backOk] at hno
    subst htv
    unfold matchValue at hr
    split at hr
    · subst hr
      exact ⟨_, ResS.failed rest c, (ext_failed c).le, hf.failed, fun h => by simp [fail_cons] at h⟩
    · next hcg =>
      dsimp only at hr
      obtain ⟨c1, r1, e1, f1, b1⟩ := bindValue_specS E.p rest c (.orD id name none alts) v hf
      split at hr
      · next hff =>
        subst hr
        have hf' : (bindValue E.p (c :: rest) (.orD id name none alts) v).1 = false := by simpa using hff
        exact ⟨c1, r1, e1.le, f1, fun h => by simp [hf'] at h⟩
      · next ht =>
        have ht' : (bindValue E.p (c :: rest) (.orD id name none alts) v).1 = true := by simpa using ht
        rw [r1.st] at hr
        split at hr
        · subst hr
          exact ⟨_, ResS.failed rest c1, (e1.trans (ext_failed c1)).le, f1.failed,
            fun h => by simp [fail_cons] at h⟩
        · next x =>
          have hfor : E.g.isForeign x = false := by
            simp only [crossGraphBad, VPat.crossGraphOk, Bool.not_false, Bool.and_true,
              Bool.not_eq_true] at hcg
            exact hcg
          split at hr
          · subst hr
            exact ⟨_, ResS.failed rest c1, (e1.trans (ext_failed c1)).le, f1.failed,
              fun h => by simp [fail_cons] at h⟩
          · next a hd =>
            have hdm : a ∈ alts := by
              unfold getDispatch at hd
              split at hd
              · cases hd
              · split at hd
                · cases hd
                · exact List.mem_of_find?_eq_some hd
            obtain ⟨c2, r2, e2, f2, b2⟩ := bindValue_specS E.p rest c1 (.out a.np a.idx) (some x) f1
            have hr' : (if !(bindValue E.p (c1 :: rest) (.out a.np a.idx) (some x)).1 then
                bindValue E.p (c1 :: rest) (.out a.np a.idx) (some x)
              else matchNodeOutput E rec a.np a.idx x (bindValue E.p (c1 :: rest) (.out a.np a.idx) (some x)).2) = r := by
              simp only [ite_self] at hr
              exact hr
            clear hr
            split at hr'
            · next hf2 =>
              subst hr'
              have hf2' : (bindValue E.p (c1 :: rest) (.out a.np a.idx) (some x)).1 = false := by simpa using hf2
              exact ⟨c2, r2, (e1.trans e2).le, f2, fun h => by simp [hf2'] at h⟩
            · next ht2 =>
              have ht2' : (bindValue E.p (c1 :: rest) (.out a.np a.idx) (some x)).1 = true := by simpa using ht2
              rw [r2.st] at hr'
              have e12 := e1.trans e2
              unfold matchNodeOutput at hr'
              split at hr'
              · subst hr'
                exact ⟨_, ResS.failed rest c2, (e12.trans (ext_failed c2)).le, f2.failed,
                  fun h => by simp [fail_cons] at h⟩
              · next n hprod =>
                split at hr'
                · subst hr'
                  exact ⟨_, ResS.failed rest c2, (e12.trans (ext_failed c2)).le, f2.failed,
                    fun h => by simp [fail_cons] at h⟩
                · next hidx =>
                  obtain ⟨c3, r3, l3, f3, s3⟩ := hrec a.np n rest c2 P r hr' (hinv.ext e12)
                    (hq a.np (by simp only [VPat.refs, List.mem_map]; exact ⟨a, hdm, rfl⟩)) f2
                  refine ⟨c3, r3, e12.le.trans l3, f3, fun h => ⟨(s3 h).1, ?_⟩⟩
                  have hidx' : E.g.index x = some a.idx := by simpa using hidx
                  refine .orD id name none alts x a
                    (boundTo_mono ((e2.le.trans l3).toALeS rest) _ _ _ (b1 ht')) hfor hd ?_ (fun t e => by cases e)
                  exact .out a.np a.idx x n (boundTo_mono (l3.toALeS rest) _ _ _ (b2 ht2')) hfor hprod hidx' (s3 h).2
  | .orB id name tagVar tags alts, v, rest, c, P, r, hr, hno, hinv, hf, hq => by
    unfold matchValue at hr
    split at hr
    · subst hr
      exact ⟨_, ResS.failed rest c, (ext_failed c).le, hf.failed, fun h => by simp [fail_cons] at h⟩
    · next hcg =>
      dsimp only at hr
      obtain ⟨c1, r1, e1, f1, b1⟩ := bindValue_specS E.p rest c (.orB id name tagVar tags alts) v hf
      split at hr
      · next hff =>
        subst hr
        have hf' : (bindValue E.p (c :: rest) (.orB id name tagVar tags alts) v).1 = false := by simpa using hff
        exact ⟨c1, r1, e1.le, f1, fun h => by simp [hf'] at h⟩
      · next ht =>
        have ht' : (bindValue E.p (c :: rest) (.orB id name tagVar tags alts) v).1 = true := by simpa using ht
        rw [r1.st] at hr
        obtain ⟨c2, r2, l2, f2, s2⟩ := matchAlts_specS E rec hrec hf3 alts tags tagVar v rest c1 P r hr
          (by simpa [VPat.backOk] using hno) (hinv.ext e1) f1 (fun q hq' => hq q (by simpa [VPat.refs] using hq'))
        refine ⟨c2, r2, e1.le.trans l2, f2, fun h => ?_⟩
        obtain ⟨hi2, i, alt, hi, hs, htag⟩ := s2 h
        exact ⟨hi2, .orB id name tagVar tags alts v i alt (boundTo_mono (l2.toALeS rest) _ _ _ (b1 ht'))
          (crossGraph_orB hcg) hi hs htag⟩
theorem matchAlts_specS (E : Env) (rec : NPId → NodeId → Stack → R) (hrec : NodeSpecS E rec)
    (hf3 : E.fixF3 = true) : ∀ (alts : List VPat) (tags : List Int) (tagVar : Option String)
      (v : Option ValueId) (rest : Stack) (c : Partial) (P : List NPId) (r : R),
      matchAlts E rec alts tags tagVar v (c :: rest) = r → backOkL alts = true → InvS E rest c P →
      FreshP rest c → (∀ q ∈ refsL alts, ∀ x ∈ P, q < x) →
      ∃ c', ResS rest r c' ∧ Le c c' ∧ FreshP rest c' ∧
        (r.1 = true → InvS E rest c' P ∧ ∃ i alt, alts[i]? = some alt ∧
          SatV E (assignStack (c' :: rest)) alt v ∧
          (∀ t, tagVar = some t → (assignStack (c' :: rest)).names t = some (.tag (tags.getD i 0))))
  | [], tags, tagVar, v, rest, c, P, r, hr, _, _, hf, _ => by
    unfold matchAlts at hr
    subst hr
    exact ⟨_, ResS.failed rest c, (ext_failed c).le, hf.failed, fun h => by simp [fail_cons] at h⟩
  | alt :: more, tags, tagVar, v, rest, c, P, r, hr, hno, hinv, hf, hq => by
    simp only [backOkL, Bool.and_eq_true] at hno
    unfold matchAlts at hr
    dsimp only at hr
    have hpush := assignStack_push E rest c
    have inv0 : InvS E (c :: rest) ({} : Partial) P := by
      intro q m hq'
      rw [hpush.2.2 q] at hq'
      rcases hinv q m hq' with h | h
      · exact .inl h
      · exact .inr (satN_mono hpush.1 h)
    obtain ⟨cur1, ra, la, fa, sa⟩ := matchValue_specS E rec hrec hf3 alt v (c :: rest) {} P _ rfl hno.1 inv0
      (FreshP.empty _) (fun q hq' => hq q (by simp [refsL, hq']))
    have hrest : ∀ r', matchAlts E rec more tags.tail tagVar v (c :: rest) = r' →
        ∃ c', ResS rest r' c' ∧ Le c c' ∧ FreshP rest c' ∧
        (r'.1 = true → InvS E rest c' P ∧ ∃ i alt', (alt :: more)[i]? = some alt' ∧
          SatV E (assignStack (c' :: rest)) alt' v ∧
          (∀ t, tagVar = some t → (assignStack (c' :: rest)).names t = some (.tag (tags.getD i 0)))) := by
      intro r' hr'
      obtain ⟨c', h1, h2, h3, h4⟩ := matchAlts_specS E rec hrec hf3 more tags.tail tagVar v rest c P r' hr'
        hno.2 hinv hf (fun q hq' => hq q (by simp [refsL, hq']))
      refine ⟨c', h1, h2, h3, fun ht => ?_⟩
      obtain ⟨hi, i, alt', hia, hs, htag⟩ := h4 ht
      refine ⟨hi, i + 1, alt', by simpa using hia, hs, fun t e => ?_⟩
      have hgt : tags.tail.getD i 0 = tags.getD (i + 1) 0 := by cases tags <;> simp
      rw [← hgt]
      exact htag t e
    have enter_eq : enter (c :: rest) = ({} : Partial) :: c :: rest := rfl
    rw [enter_eq] at hr
    split at hr
    · next hta =>
      have hta' : (matchValue E rec alt v (({} : Partial) :: c :: rest)).1 = true := hta
      rw [ra.st] at hr
      -- the tag binding in the sub-match
      have htagstep : ∃ cur2, tagBind tagVar (tags.headD 0) (cur1 :: c :: rest) = cur2 :: c :: rest ∧
            Ext cur1 cur2 ∧ FreshP (c :: rest) cur2 ∧
            (cur2.ok = true → ∀ t, tagVar = some t →
              lookupBinding (cur2 :: c :: rest) t = some (.tag (tags.headD 0))) := by
        cases tagVar with
        | none => exact ⟨cur1, rfl, Ext.refl _, fa, fun _ t e => by cases e⟩
        | some t =>
          obtain ⟨cur2, rb, eb, _, fb, bb⟩ := bind_specS (c :: rest) cur1 t (.tag (tags.headD 0)) fa
          refine ⟨cur2, rb.st, eb, fb, fun hok t' e => ?_⟩
          cases e
          apply bb
          cases hb1 : (bind (cur1 :: c :: rest) t (.tag (tags.headD 0))).1 with
          | true => rfl
          | false => rw [rb.okF hb1] at hok; cases hok
      obtain ⟨cur2, hst2, e12, f2, htag2⟩ := htagstep
      rw [hst2] at hr
      split at hr
      · next hok2 =>
        have hok2' : cur2.ok = true := hok2
        subst hr
        simp only [mergeTop, hf3, if_true]
        obtain ⟨eb, ev, en, eok, fm⟩ := mergeAll_spec rest c cur2 hf f2
        obtain ⟨alem, hnode⟩ := mergeAll_assign rest c cur2 hf f2
        have lecm : Le c (c.mergeAll cur2) :=
          ⟨fun k x h => by rw [eb]; simp [List.lookup_append, h],
           fun k x h => by rw [ev]; simp [List.lookup_append, h],
           fun k x h => by rw [en]; simp [List.lookup_append, h], fun h => eok ▸ h⟩
        refine ⟨c.mergeAll cur2, ⟨rfl, fun h => by simp at h⟩, lecm, fm, fun _ => ⟨?_, 0, alt, rfl, ?_, ?_⟩⟩
        · intro q m hq'
          rw [hnode q] at hq'
          rcases ((sa hta').1.ext e12) q m hq' with h | h
          · exact .inl h
          · exact .inr (satN_mono alem h)
        · exact satV_mono alem (satV_mono (e12.le.toALeS (c :: rest)) (sa hta').2)
        · intro t e
          have := htag2 hok2' t e
          have h2 := alem.names _ _ this
          cases tags <;> simpa using h2
      · next hok2 =>
        split at hr
        · have : abandon (cur2 :: c :: rest) = c :: rest := rfl
          rw [this] at hr
          exact hrest r hr
        · have : abandon (cur2 :: c :: rest) = c :: rest := rfl
          rw [this] at hr
          subst hr
          exact ⟨_, ResS.failed rest c, (ext_failed c).le, hf.failed, fun h => by simp [fail_cons] at h⟩
    · next hfa =>
      rw [ra.st] at hr
      have : abandon (cur1 :: c :: rest) = c :: rest := rfl
      rw [this] at hr
      exact hrest r hr
end

/-! ## _match_node over a stack -/

def NPat.backOk (n : NPat) : Bool := n.inputs.all (fun i => match i with | some v => v.backOk | none => true)

/-- no `OpIdDispatchOr` of the pattern has a tag variable; `BacktrackingOr` is unrestricted -/
def GPat.backOk (p : GPat) : Bool := p.nodes.all NPat.backOk

theorem backOk_input {p : GPat} (h : p.backOk = true) {np : NPId} {Pn : NPat} (hP : p.nodes[np]? = some Pn)
    {vp : VPat} (hm : some vp ∈ Pn.inputs) : vp.backOk = true := by
  unfold GPat.backOk at h
  simp only [List.all_eq_true] at h
  have h1 := h Pn (List.mem_of_getElem? hP)
  unfold NPat.backOk at h1
  simp only [List.all_eq_true] at h1
  exact h1 (some vp) hm

theorem matchInputs_specS (E : Env) (rec : NPId → NodeId → Stack → R) (hrec : NodeSpecS E rec)
    (hf3 : E.fixF3 = true) (P : List NPId) (rest : Stack) :
    ∀ (pairs : List (Option ValueId × Option VPat)) (c : Partial) (r : R),
      matchInputs (matchValue E rec) pairs (c :: rest) = r → InvS E rest c P → FreshP rest c →
      (∀ v vp, (v, some vp) ∈ pairs → vp.backOk = true ∧ ∀ q ∈ vp.refs, ∀ x ∈ P, q < x) →
      ∃ c', ResS rest r c' ∧ Le c c' ∧ FreshP rest c' ∧ (r.1 = true → InvS E rest c' P ∧
        (∀ v, (v, none) ∈ pairs → v = none) ∧
        (∀ v vp, (v, some vp) ∈ pairs → SatV E (assignStack (c' :: rest)) vp v)) := by
  intro pairs
  induction pairs with
  | nil =>
    intro c r hr hinv hf _
    unfold matchInputs at hr
    subst hr
    exact ⟨c, ⟨rfl, fun h => by simp at h⟩, Le.refl c, hf,
      fun _ => ⟨hinv, fun _ h => by simp at h, fun _ _ h => by simp at h⟩⟩
  | cons hd tl ih =>
    intro c r hr hinv hf hp
    obtain ⟨v, ovp⟩ := hd
    cases ovp with
    | none =>
      unfold matchInputs at hr
      split at hr
      · next hv =>
        obtain ⟨c', h1, h2, h3, h4⟩ := ih c r hr hinv hf (fun v vp hm => hp v vp (List.mem_cons_of_mem _ hm))
        refine ⟨c', h1, h2, h3, fun ht => ⟨(h4 ht).1, ?_, ?_⟩⟩
        · intro v' hm
          rcases List.mem_cons.1 hm with he | hm
          · cases he; simpa using hv
          · exact (h4 ht).2.1 v' hm
        · intro v' vp hm
          rcases List.mem_cons.1 hm with he | hm
          · cases he
          · exact (h4 ht).2.2 v' vp hm
      · subst hr
        exact ⟨_, ResS.failed rest c, (ext_failed c).le, hf.failed, fun h => by simp [fail_cons] at h⟩
    | some vp =>
      unfold matchInputs at hr
      dsimp only at hr
      obtain ⟨hno, hq⟩ := hp v vp (List.mem_cons_self ..)
      obtain ⟨c1, r1, l1, f1, s1⟩ := matchValue_specS E rec hrec hf3 vp v rest c P _ rfl hno hinv hf hq
      split at hr
      · next hff =>
        subst hr
        have hf' : (matchValue E rec vp v (c :: rest)).1 = false := by simpa using hff
        exact ⟨c1, r1, l1, f1, fun h => by simp [hf'] at h⟩
      · next ht =>
        have ht' : (matchValue E rec vp v (c :: rest)).1 = true := by simpa using ht
        rw [r1.st] at hr
        obtain ⟨c', h1, h2, h3, h4⟩ := ih c1 r hr (s1 ht').1 f1 (fun v vp hm => hp v vp (List.mem_cons_of_mem _ hm))
        refine ⟨c', h1, l1.trans h2, h3, fun ht2 => ⟨(h4 ht2).1, ?_, ?_⟩⟩
        · intro v' hm
          rcases List.mem_cons.1 hm with he | hm
          · cases he
          · exact (h4 ht2).2.1 v' hm
        · intro v' vp' hm
          rcases List.mem_cons.1 hm with he | hm
          · cases he
            exact satV_mono (h2.toALeS rest) (s1 ht').2
          · exact (h4 ht2).2.2 v' vp' hm

theorem bindOutputs_specS (fix : Bool) (p : GPat) (np : NPId) (gouts : List ValueId) (rest : Stack) :
    ∀ (outs : List (Option String)) (i : Nat) (c : Partial) (r : R),
      bindOutputs fix p np gouts outs i (c :: rest) = r → (fix = true ∨ i + outs.length ≤ gouts.length) →
      FreshP rest c →
      ∃ c', ResS rest r c' ∧ Ext c c' ∧ FreshP rest c' ∧
        (r.1 = true → ∀ j, i ≤ j → j < i + outs.length →
          ∃ x, gouts[j]? = some x ∧ (assignStack (c' :: rest)).boundTo p (.out np j) (some x)) := by
  intro outs
  induction outs with
  | nil =>
    intro i c r hr _ hf
    unfold bindOutputs at hr
    subst hr
    exact ⟨c, ⟨rfl, fun h => by simp at h⟩, Ext.refl c, hf, fun _ j h1 h2 => by simp at h2; omega⟩
  | cons hd tl ih =>
    intro i c r hr hlen hf
    unfold bindOutputs at hr
    simp only [List.length_cons] at hlen
    split at hr
    · next hnone =>
      rcases hlen with hfix | hlen
      · subst hfix
        simp only [if_true] at hr
        subst hr
        exact ⟨_, ResS.failed rest c, ext_failed c, hf.failed, fun h => by simp [fail_cons] at h⟩
      · have : i < gouts.length := by omega
        simp at hnone
        omega
    · next x hx =>
      dsimp only at hr
      obtain ⟨c1, r1, e1, f1, b1⟩ := bindValue_specS p rest c (.out np i) (some x) hf
      split at hr
      · next hff =>
        subst hr
        have hf' : (bindValue p (c :: rest) (.out np i) (some x)).1 = false := by simpa using hff
        exact ⟨c1, r1, e1, f1, fun h => by simp [hf'] at h⟩
      · next ht =>
        have ht' : (bindValue p (c :: rest) (.out np i) (some x)).1 = true := by simpa using ht
        rw [r1.st] at hr
        obtain ⟨c', h1, h2, h3, h4⟩ := ih (i + 1) c1 r hr
          (by rcases hlen with h | h; exact .inl h; exact .inr (by omega)) f1
        refine ⟨c', h1, e1.trans h2, h3, fun ht2 j hj1 hj2 => ?_⟩
        by_cases hji : j = i
        · subst hji
          exact ⟨x, hx, boundTo_mono (h2.le.toALeS rest) _ _ _ (b1 ht')⟩
        · exact h4 ht2 j (by omega) (by simp only [List.length_cons] at hj2; omega)

theorem nodeStep_specS (E : Env) (rec : NPId → NodeId → Stack → R) (hrec : NodeSpecS E rec)
    (hf3 : E.fixF3 = true) (hno : E.p.backOk = true) (htopo : E.p.topoDeep)
    (har : E.fixF1 = true ∨ OutputArityOk E.p E.g) :
    NodeSpecS E (nodeStep E (matchValue E rec)) := by
  intro np n rest c P r hr hinv hlt hf
  unfold nodeStep at hr
  split at hr
  · next m hm =>
    split at hr
    · next hmn =>
      subst hr
      have hmn' : m = n := by simpa using hmn
      subst hmn'
      refine ⟨c, ⟨rfl, fun h => by simp at h⟩, Le.refl c, hf, fun _ => ⟨hinv, ?_⟩⟩
      rcases hinv np m hm with h | h
      · exact absurd (hlt np h) (Nat.lt_irrefl _)
      · exact h
    · subst hr
      exact ⟨_, ResS.failed rest c, (ext_failed c).le, hf.failed, fun h => by simp [fail_cons] at h⟩
  · next hm =>
    split at hr
    · next Pn N hP hN =>
      obtain ⟨c1, r1, e1, f1, a1⟩ := nodeMatches_specS Pn N rest c _ rfl hf
      dsimp only at hr
      split at hr
      · next hff =>
        subst hr
        rw [r1.st]
        exact ⟨_, ResS.failed rest c1, (e1.trans (ext_failed c1)).le, f1.failed,
          fun h => by simp [fail_cons] at h⟩
      · next ht =>
        have ht' : (nodeMatches Pn N (c :: rest)).1 = true := by simpa using ht
        rw [r1.st] at hr
        let c2 : Partial := { c1 with nodes := c1.nodes ++ [n], nb := c1.nb ++ [(np, n)] }
        have hc2 : bindNode (c1 :: rest) np n = c2 :: rest := rfl
        rw [hc2] at hr
        have hm' : lookupNode (c1 :: rest) np = none := by
          rw [lookupNode_cons, e1.nb, ← lookupNode_cons]; exact hm
        rw [lookupNode_cons] at hm'
        obtain ⟨hmr, hm1⟩ := or_none_both hm'
        have l12 : Le c1 c2 :=
          ⟨fun _ _ h => h, fun _ _ h => h, fun k x h => lookup_snoc_of_some _ _ _ _ _ h, id⟩
        have hnp2 : lookupNode (c2 :: rest) np = some n := by
          rw [lookupNode_cons, hmr]
          simp [c2, lookup_snoc_self _ _ _ hm1]
        have f2 : FreshP rest c2 :=
          ⟨f1.b, f1.v, fun k x hmem => by
              rcases List.mem_append.1 hmem with h1 | h1
              · exact f1.n _ _ h1
              · simp at h1; obtain ⟨rfl, rfl⟩ := h1; exact hmr,
           f1.bd, f1.vd, nodup_snoc _ _ _ f1.nd hm1, by simp [c2, f1.nbn]⟩
        have inv2 : InvS E rest c2 (np :: P) := by
          intro q m hq
          by_cases hqn : q = np
          · exact .inl (by simp [hqn])
          · have hq1 : lookupNode (c1 :: rest) q = some m := by
              rw [lookupNode_cons] at hq ⊢
              cases hr' : lookupNode rest q with
              | some y => simpa [hr'] using hq
              | none =>
                simp only [hr', Option.none_or] at hq ⊢
                have : (c1.nb ++ [(np, n)]).lookup q = some m := hq
                simp only [List.lookup_append, List.lookup] at this
                cases h1 : c1.nb.lookup q with
                | some m' => simp [h1] at this; exact this ▸ rfl
                | none =>
                  simp [h1] at this
                  have hne : (q == np) = false := by simpa using hqn
                  simp [hne] at this
            rcases (hinv.ext e1) q m hq1 with h | h
            · exact .inl (List.mem_cons_of_mem _ h)
            · exact .inr (satN_mono (l12.toALeS rest) h)
        split at hr
        · subst hr
          exact ⟨_, ResS.failed rest c2, (e1.le.trans l12).trans (ext_failed c2).le, f2.failed,
            fun h => by simp [fail_cons] at h⟩
        · next hlen =>
          have hpairs : ∀ v vp, (v, some vp) ∈ zipPad N.inputs Pn.inputs →
              vp.backOk = true ∧ ∀ q ∈ vp.refs, ∀ x ∈ np :: P, q < x := by
            intro v vp hmem
            have hin := zipPad_mem_snd _ _ _ _ hmem
            refine ⟨backOk_input hno hP hin, fun q hqr x hx => ?_⟩
            have hqnp := htopo np Pn hP vp hin q hqr
            rcases List.mem_cons.1 hx with h | h
            · exact h ▸ hqnp
            · exact Nat.lt_trans hqnp (hlt x h)
          obtain ⟨c3, r3, l3, f3, s3⟩ :=
            matchInputs_specS E rec hrec hf3 (np :: P) rest _ c2 _ rfl inv2 f2 hpairs
          split at hr
          · next hff =>
            subst hr
            have hf' : (matchInputs (matchValue E rec) (zipPad N.inputs Pn.inputs) (c2 :: rest)).1 = false := by
              simpa using hff
            exact ⟨c3, r3, (e1.le.trans l12).trans l3, f3, fun h => by simp [hf'] at h⟩
          · next ht3 =>
            have ht3' : (matchInputs (matchValue E rec) (zipPad N.inputs Pn.inputs) (c2 :: rest)).1 = true := by
              simpa using ht3
            rw [r3.st] at hr
            have harity : E.fixF1 = true ∨ 0 + Pn.outputs.length ≤ N.outputs.length := by
              rcases har with h | har
              · exact .inl h
              · have := har Pn (List.mem_of_getElem? hP) N (List.mem_of_getElem? hN) (a1 ht').1 (a1 ht').2.1
                exact .inr (by omega)
            obtain ⟨c4, r4, e4, f4, b4⟩ := bindOutputs_specS E.fixF1 E.p np N.outputs rest Pn.outputs 0 c3 r hr harity f3
            have l14 : Le c1 c4 := (l12.trans l3).trans e4.le
            refine ⟨c4, r4, e1.le.trans l14, f4, fun h => ?_⟩
            have hnode4 : lookupNode (c4 :: rest) np = some n :=
              ((l3.trans e4.le).toALeS rest).node _ _ hnp2
            have hsat : SatN E (assignStack (c4 :: rest)) np n := by
              refine .mk np n Pn N hP hN hnode4 (a1 ht').1 (a1 ht').2.1
                (attrsSat_mono (l14.toALeS rest) _ _ (a1 ht').2.2) ?_ ?_ ?_ ?_
              · by_cases hl : N.inputs.length ≤ Pn.inputs.length
                · exact .inl hl
                · right
                  have : N.inputs.length > Pn.inputs.length := by omega
                  simp only [this, decide_true, Bool.true_and, Bool.not_eq_true', Bool.not_eq_false] at hlen
                  simpa using hlen
              · intro i hi
                have := zipPad_mem_of_get N.inputs Pn.inputs i none hi
                exact (s3 ht3').2.1 _ this
              · intro i vp hi
                have := zipPad_mem_of_get N.inputs Pn.inputs i (some vp) hi
                exact satV_mono (e4.le.toALeS rest) ((s3 ht3').2.2 _ vp this)
              · intro i hi
                exact b4 h i (Nat.zero_le _) (by omega)
            refine ⟨?_, hsat⟩
            intro q m hq
            rcases ((s3 ht3').1.ext e4) q m hq with h' | h'
            · rcases List.mem_cons.1 h' with h'' | h''
              · subst h''
                rw [hnode4] at hq
                cases hq
                exact .inr hsat
              · exact .inl h''
            · exact .inr h'
    · subst hr
      exact ⟨_, ResS.failed rest c, (ext_failed c).le, hf.failed, fun h => by simp [fail_cons] at h⟩

theorem matchNode_specS (E : Env) (hf3 : E.fixF3 = true) (hno : E.p.backOk = true) (htopo : E.p.topoDeep)
    (har : E.fixF1 = true ∨ OutputArityOk E.p E.g) : ∀ f, NodeSpecS E (matchNode E f)
  | 0 => by
    intro np n rest c P r hr hinv _ hf
    unfold matchNode at hr
    subst hr
    exact ⟨_, ResS.failed rest c, (ext_failed c).le, hf.failed, fun h => by simp [fail_cons] at h⟩
  | f + 1 => by
    have ih := matchNode_specS E hf3 hno htopo har f
    have := nodeStep_specS E (matchNode E f) ih hf3 hno htopo har
    intro np n rest c P r hr
    unfold matchNode at hr
    exact this np n rest c P r hr

/-! ## Top level -/

theorem matchOutputNodes_specS (E : Env) (hf3 : E.fixF3 = true) (hno : E.p.backOk = true)
    (htopo : E.p.topoDeep) (har : E.fixF1 = true ∨ OutputArityOk E.p E.g) :
    ∀ (l : List (NPId × NodeId)) (c : Partial) (r : R),
      matchOutputNodes E l [c] = r → InvS E [] c [] → FreshP [] c →
      ∃ c', ResS [] r c' ∧ Le c c' ∧ FreshP [] c' ∧
        (r.1 = true → InvS E [] c' [] ∧ ∀ np n, (np, n) ∈ l → SatN E (assignStack [c']) np n) := by
  intro l
  induction l with
  | nil =>
    intro c r hr hinv hf
    unfold matchOutputNodes at hr
    subst hr
    exact ⟨c, ⟨rfl, fun h => by simp at h⟩, Le.refl c, hf, fun _ => ⟨hinv, fun _ _ h => by simp at h⟩⟩
  | cons hd tl ih =>
    intro c r hr hinv hf
    obtain ⟨np, n⟩ := hd
    unfold matchOutputNodes at hr
    dsimp only at hr
    obtain ⟨c1, r1, l1, f1, s1⟩ :=
      matchNode_specS E hf3 hno htopo har E.p.fuel np n [] c [] _ rfl hinv (fun _ h => by simp at h) hf
    split at hr
    · next hff =>
      subst hr
      have hf' : (matchNode E E.p.fuel np n [c]).1 = false := by simpa using hff
      exact ⟨c1, r1, l1, f1, fun h => by simp [hf'] at h⟩
    · next ht =>
      have ht' : (matchNode E E.p.fuel np n [c]).1 = true := by simpa using ht
      rw [r1.st] at hr
      obtain ⟨c', h1, h2, h3, h4⟩ := ih c1 r hr (s1 ht').1 f1
      refine ⟨c', h1, l1.trans h2, h3, fun ht2 => ⟨(h4 ht2).1, fun np' n' hm => ?_⟩⟩
      rcases List.mem_cons.1 hm with he | hm
      · cases he
        exact satN_mono (h2.toALeS []) (s1 ht').2
      · exact (h4 ht2).2 np' n' hm

theorem assignStack_single (c : Partial) : ALe (assignStack [c]) (assignOf c) :=
  ⟨fun k x h => by
     have : lookupBinding [c] k = some x := h
     show c.bindings.lookup k = some x
     simpa using this,
   fun k x h => by
     have : lookupNode [c] k = some x := h
     show c.nb.lookup k = some x
     simpa using this,
   fun k x h => by
     have : lookupVB [c] k = some x := h
     show c.vb.lookup k = some x
     simpa using this⟩

/-- what the matcher proper establishes on patterns with BacktrackingOr (repaired `merge`) -/
theorem matcher_coreS (E : Env) (root : NodeId) (rm : Bool) (hf3 : E.fixF3 = true)
    (hno : E.p.backOk = true) (htopo : E.p.topoDeep) (har : E.fixF1 = true ∨ OutputArityOk E.p E.g)
    (hok : (matcherMatch E root rm).ok = true) :
    ∃ c' combo, (matcherMatch E root rm).bindings = c'.bindings ∧
      (matcherMatch E root rm).nb = c'.nb ∧ (matcherMatch E root rm).vb = c'.vb ∧
      (matcherMatch E root rm).nodes = c'.nodes ∧
      outputValues E.p c' = some (matcherMatch E root rm).outputs ∧
      (rm = true → Removable E.g c'.nodes (matcherMatch E root rm).outputs) ∧
      combo.head? = some root ∧ E.p.outputNodes.length ≤ combo.length ∧
      (∀ np n, (np, n) ∈ E.p.outputNodes.zip combo → SatN E (assignOf c') np n) ∧
      c'.nodes = c'.nb.map (·.2) := by
  obtain ⟨combo, he, hhead, hlen⟩ := matcherMatch_ok E root rm hok
  rw [he] at hok ⊢
  unfold multiMatch at hok ⊢
  have inv0 : InvS E [] ({} : Partial) [] := by
    intro q m hq
    simp [lookupNode] at hq
  obtain ⟨c', r1, _, f1, s1⟩ :=
    matchOutputNodes_specS E hf3 hno htopo har (E.p.outputNodes.zip combo) {} _ rfl inv0 (FreshP.empty [])
  obtain ⟨ht, ho, hb, hn, hnb, hvb, hrem⟩ := finish_spec E rm _ c' r1.st r1.okF hok
  exact ⟨c', combo, hb, hnb, hvb, hn, ho, hrem, hhead, hlen,
    fun np n hm => satN_mono (assignStack_single c') ((s1 ht).2 np n hm), f1.nbn⟩

theorem patternMatch_soundS (E : Env) (root : NodeId) (rm : Bool) (r : Result) (hf3 : E.fixF3 = true)
    (hno : E.p.backOk = true) (htopo : E.p.topoDeep) (har : E.fixF1 = true ∨ OutputArityOk E.p E.g)
    (h : patternMatch E root rm = some r) :
    Instance E root r.assign ∧ ChecksPass E.p r.assign ∧
      (rm = true → Removable E.g r.nodes r.outputs) ∧
      E.p.outputs.mapM (r.assign.outputOf E.p) = some r.outputs ∧
      r.nodes = r.nb.map (·.2) := by
  obtain ⟨hok, hr, hchk, hvchk, hcond⟩ := patternMatch_some E root rm r h
  obtain ⟨c', combo, hb, hnb, hvb, hn, hout, hrem, hhead, hlen, hsat, hnbn⟩ :=
    matcher_coreS E root rm hf3 hno htopo har hok
  have hale : ALe (assignOf c') r.assign := by
    subst hr
    refine ⟨fun k x hk => ?_, fun k x hk => ?_, fun k x hk => ?_⟩
    · show List.lookup k _ = some x
      exact (inputs_fold_le E.p.inputs _).1 k x (hb ▸ hk)
    · show List.lookup k (matcherMatch E root rm).nb = some x
      rw [hnb]; exact hk
    · show List.lookup k (matcherMatch E root rm).vb = some x
      rw [hvb]; exact hk
  refine ⟨⟨?_, ?_, hcond⟩, ⟨?_, ?_⟩, ?_, ?_, ?_⟩
  · intro np hnp
    have h0 : E.p.outputNodes[0]? = some np := by rw [← List.head?_eq_getElem?]; exact hnp
    have h1 : combo[0]? = some root := by rw [← List.head?_eq_getElem?]; exact hhead
    have : (np, root) ∈ E.p.outputNodes.zip combo :=
      List.mem_iff_getElem?.2 ⟨0, List.getElem?_zip_eq_some.2 ⟨h0, h1⟩⟩
    exact satN_node (satN_mono hale (hsat np root this))
  · intro np hnp
    obtain ⟨i, hi⟩ := List.mem_iff_getElem?.1 hnp
    have hilt : i < E.p.outputNodes.length := by
      rcases Nat.lt_or_ge i E.p.outputNodes.length with h | h
      · exact h
      · simp [List.getElem?_eq_none h] at hi
    have hic : i < combo.length := by omega
    have : (np, combo[i]) ∈ E.p.outputNodes.zip combo :=
      List.mem_iff_getElem?.2 ⟨i, List.getElem?_zip_eq_some.2 ⟨hi, List.getElem?_eq_getElem hic⟩⟩
    have hs := satN_mono hale (hsat np _ this)
    exact ⟨_, satN_node hs, hs⟩
  · intro np n P hnode hP
    have hm : (np, n) ∈ r.nb := lookup_mem _ _ _ hnode
    unfold checksPass at hchk
    simp only [List.all_eq_true] at hchk
    have := hchk (np, n) hm
    simp only [hP] at this
    simpa using this
  · intro id v hleaf
    have hm : (VKey.leaf id, v) ∈ r.vb := lookup_mem _ _ _ hleaf
    unfold valueChecksPass at hvchk
    simp only [List.all_eq_true] at hvchk
    have := hvchk (VKey.leaf id, v) hm
    simpa using this
  · intro hrm
    have := hrem hrm
    subst hr
    show Removable E.g (matcherMatch E root rm).nodes (matcherMatch E root rm).outputs
    rw [hn]; exact this
  · rw [outputValues_eq] at hout
    subst hr
    exact mapM_mono _ _ (outputOf_mono hale E.p) _ _ hout
  · subst hr
    show (matcherMatch E root rm).nodes = (matcherMatch E root rm).nb.map (·.2)
    rw [hn, hnb]; exact hnbn

end OV.C06
