import OV.Model.C19Fusions
/-! Helper lemmas for `check_shape_sound` (C19): `unify` only ever extends the bindings, and every
position it has walked over is bound to a dim that `pyEq`s the actual one. -/
namespace OV.C19

theorem lookup_cons_ne {b : Bindings} {n m : String} {d : Dim} (h : n ≠ m) :
    List.lookup n ((m, d) :: b) = List.lookup n b := by
  simp only [List.lookup]
  have : (n == m) = false := by simpa using h
  rw [this]

theorem lookup_cons_self {b : Bindings} {n : String} {d : Dim} :
    List.lookup n ((n, d) :: b) = some d := by
  simp only [List.lookup, beq_self_eq_true]

/-- bindings only grow: a name bound before `unify` keeps its dim -/
theorem unify_mono : ∀ (l : List (Dim × String)) (b b' : Bindings), unify b l = some b' →
    ∀ n d, b.lookup n = some d → b'.lookup n = some d := by
  intro l
  induction l with
  | nil => intro b b' h n d hd; simp only [unify, Option.some.injEq] at h; subst h; exact hd
  | cons p rest ih =>
    intro b b' h n d hd
    obtain ⟨dm, nm⟩ := p
    simp only [unify] at h
    cases hl : b.lookup nm with
    | none =>
      rw [hl] at h
      refine ih _ _ h n d ?_
      have hne : n ≠ nm := by
        intro e; subst e; rw [hl] at hd; cases hd
      rw [lookup_cons_ne hne]; exact hd
    | some d' =>
      rw [hl] at h
      by_cases hp : dm.pyEq d' = true
      · simp only [hp, if_true] at h; exact ih _ _ h n d hd
      · simp [hp] at h

/-- after a successful `unify`, every walked (dim, name) pair is bound to a `pyEq` dim -/
theorem unify_bound : ∀ (l : List (Dim × String)) (b b' : Bindings), unify b l = some b' →
    ∀ p ∈ l, ∃ e, b'.lookup p.2 = some e ∧ p.1.pyEq e = true := by
  intro l
  induction l with
  | nil => intro b b' _ p hp; exact absurd hp (List.not_mem_nil)
  | cons q rest ih =>
    intro b b' h p hp
    obtain ⟨dm, nm⟩ := q
    simp only [unify] at h
    cases hl : b.lookup nm with
    | none =>
      rw [hl] at h
      rcases List.mem_cons.mp hp with rfl | hin
      · refine ⟨dm, unify_mono _ _ _ h nm dm lookup_cons_self, ?_⟩
        cases dm <;> simp [Dim.pyEq]
      · exact ih _ _ h p hin
    | some d' =>
      rw [hl] at h
      by_cases hpe : dm.pyEq d' = true
      · simp only [hpe, if_true] at h
        rcases List.mem_cons.mp hp with rfl | hin
        · exact ⟨d', unify_mono _ _ _ h nm d' hl, hpe⟩
        · exact ih _ _ h p hin
      · simp [hpe] at h

/-- for a *known* dim (`int` / named symbol) `pyEq` is equality -/
theorem pyEq_known_eq {d e : Dim} (hk : d.isKnown = true) (h : d.pyEq e = true) : e = d := by
  cases d <;> cases e <;> simp_all [Dim.pyEq, Dim.isKnown]

theorem pyEq_known_eq' {d e : Dim} (hk : e.isKnown = true) (h : d.pyEq e = true) : d = e := by
  cases d <;> cases e <;> simp_all [Dim.pyEq, Dim.isKnown]

end OV.C19
