import OV.Model.C07Apply
/-! Helper lemmas for C07: one-level well-formedness (`wfNodes`) under removal of nodes whose
outputs are hidden and under a change of the available names outside the hidden set. -/
namespace OV.C07

theorem wfNodes_cons (A : List Name) (n : Node) (ns : List Node) :
    wfNodes A (n :: ns) = true ↔
      (∀ x ∈ n.reads, x ∈ A) ∧ (∀ o ∈ n.outputs, o ∉ A) ∧
      (n.outputs.eraseDups.length = n.outputs.length) ∧ wfNodes (A ++ n.outputs) ns = true := by
  simp [wfNodes, and_assoc]

theorem wfNodes_append (a b : List Node) : ∀ A : List Name,
    wfNodes A (a ++ b) = (wfNodes A a && wfNodes (A ++ a.flatMap (·.outputs)) b) := by
  induction a with
  | nil => intro A; simp [wfNodes]
  | cons n a ih =>
    intro A
    simp only [List.cons_append, wfNodes, ih, List.flatMap_cons, List.append_assoc, Bool.and_assoc]

/-- `B` and `A` hold the same names outside `H`; what `B` has beyond `A` is hidden. -/
def Inv (H A B : List Name) : Prop :=
  (∀ x ∈ B, x ∈ A ∨ x ∈ H) ∧ (∀ x ∈ A, x ∉ H → x ∈ B)

theorem Inv.ext {H A B : List Name} (h : Inv H A B) (o o' : List Name)
    (h1 : ∀ x ∈ o', x ∈ o ∨ x ∈ H) (h2 : ∀ x ∈ o, x ∉ H → x ∈ o') : Inv H (A ++ o) (B ++ o') := by
  constructor
  · intro x hx
    rcases List.mem_append.mp hx with hb | ho
    · rcases h.1 x hb with ha | hh
      · exact Or.inl (List.mem_append.mpr (Or.inl ha))
      · exact Or.inr hh
    · rcases h1 x ho with ha | hh
      · exact Or.inl (List.mem_append.mpr (Or.inr ha))
      · exact Or.inr hh
  · intro x hx hh
    rcases List.mem_append.mp hx with ha | ho
    · exact List.mem_append.mpr (Or.inl (h.2 x ha hh))
    · exact List.mem_append.mpr (Or.inr (h2 x ho hh))

/-- Dropping the marked nodes of a well-formed list keeps it well-formed, from any `B` related to
`A` by `Inv`, when unmarked nodes neither read nor write hidden names and marked nodes only write
hidden names. -/
theorem wfNodes_filter (H : List Name) (P : Node → Bool) (l : List Node)
    (hun : ∀ n ∈ l, P n = false → (∀ x ∈ n.reads, x ∉ H) ∧ (∀ o ∈ n.outputs, o ∉ H))
    (hm : ∀ n ∈ l, P n = true → ∀ o ∈ n.outputs, o ∈ H) :
    ∀ A B : List Name, Inv H A B → wfNodes A l = true →
      wfNodes B (l.filter fun n => !P n) = true ∧
      Inv H (A ++ l.flatMap (·.outputs)) (B ++ (l.filter fun n => !P n).flatMap (·.outputs)) := by
  induction l with
  | nil => intro A B hinv _; simpa [wfNodes] using hinv
  | cons a r ih =>
    intro A B hinv hwf
    obtain ⟨hr, ho, hd, hrest⟩ := (wfNodes_cons A a r).mp hwf
    have hun' : ∀ n ∈ r, P n = false → (∀ x ∈ n.reads, x ∉ H) ∧ (∀ o ∈ n.outputs, o ∉ H) :=
      fun n hn => hun n (by simp [hn])
    have hm' : ∀ n ∈ r, P n = true → ∀ o ∈ n.outputs, o ∈ H := fun n hn => hm n (by simp [hn])
    by_cases hp : P a = true
    · have hinv' : Inv H (A ++ a.outputs) B := by
        have := hinv.ext a.outputs [] (by simp) (fun x hx hh => absurd (hm a (by simp) hp x hx) hh)
        simpa using this
      obtain ⟨w, i⟩ := ih hun' hm' (A ++ a.outputs) B hinv' hrest
      simp only [List.filter_cons, hp, Bool.not_true, List.flatMap_cons]
      refine ⟨by simpa using w, ?_⟩
      simpa [List.append_assoc] using i
    · have hp' : P a = false := by simpa using hp
      obtain ⟨hur, huo⟩ := hun a (by simp) hp'
      have hinv' : Inv H (A ++ a.outputs) (B ++ a.outputs) :=
        hinv.ext a.outputs a.outputs (fun x hx => Or.inl hx) (fun x hx _ => hx)
      obtain ⟨w, i⟩ := ih hun' hm' _ _ hinv' hrest
      simp only [List.filter_cons, hp', Bool.not_false, List.flatMap_cons]
      refine ⟨?_, by simpa [List.append_assoc] using i⟩
      apply (wfNodes_cons B a _).mpr
      refine ⟨fun x hx => hinv.2 x (hr x hx) (hur x hx), ?_, hd, w⟩
      intro o hoo hb
      rcases hinv.1 o hb with ha | hh
      · exact ho o hoo ha
      · exact huo o hoo hh

/-- Replacing nodes by nodes with the same outputs and fewer reads keeps the list well-formed. -/
theorem wfNodes_map_shrink (f : Node → Node) (hout : ∀ n, (f n).outputs = n.outputs)
    (hreads : ∀ n, ∀ x ∈ (f n).reads, x ∈ n.reads) (l : List Node) :
    ∀ A : List Name, wfNodes A l = true → wfNodes A (l.map f) = true := by
  induction l with
  | nil => intro A h; simpa [wfNodes] using h
  | cons a r ih =>
    intro A h
    obtain ⟨hr, ho, hd, hrest⟩ := (wfNodes_cons A a r).mp h
    simp only [List.map_cons]
    apply (wfNodes_cons A (f a) _).mpr
    rw [hout a]
    exact ⟨fun x hx => hr x (hreads a x hx), ho, hd, ih _ hrest⟩

theorem setBodies_outputs (n : Node) (c : List Name) (s : List (String × Graph)) :
    (n.setBodies c s).outputs = n.outputs := by cases n; rfl

theorem setBodies_reads (n : Node) (c : List Name) (s : List (String × Graph)) :
    (n.setBodies c s).reads = n.inputNames ++ c := by cases n; rfl

end OV.C07

namespace OV.C07

/-! every name defined once over all scopes (`collectNames` = inputs, initializers, node outputs of a
graph and of all its bodies) -/

theorem collectNamesNodes_append (d : Nat) (a b : List Node) :
    collectNamesNodes (d + 1) (a ++ b) = collectNamesNodes (d + 1) a ++ collectNamesNodes (d + 1) b := by
  simp [collectNamesNodes]

theorem collectNamesNodes_cons (d : Nat) (n : Node) (r : List Node) :
    collectNamesNodes (d + 1) (n :: r) =
      (n.outputs ++ n.subs.flatMap fun s => collectNames d s.2) ++ collectNamesNodes (d + 1) r := by
  simp [collectNamesNodes]

theorem collectNamesNodes_flat (d : Nat) (ns : List Node) (h : ∀ n ∈ ns, n.subs = []) :
    collectNamesNodes (d + 1) ns = ns.flatMap (·.outputs) := by
  induction ns with
  | nil => simp [collectNamesNodes]
  | cons a r ih =>
    rw [collectNamesNodes_cons, ih (fun n hn => h n (by simp [hn])), h a (by simp)]
    simp

theorem collectNamesNodes_filter_sub (d : Nat) (P : Node → Bool) (ns : List Node) :
    ∀ x ∈ collectNamesNodes (d + 1) (ns.filter P), x ∈ collectNamesNodes (d + 1) ns := by
  induction ns with
  | nil => intro x hx; simpa using hx
  | cons a r ih =>
    intro x hx
    rw [collectNamesNodes_cons]
    by_cases hp : P a = true
    · simp only [List.filter_cons, hp, if_true] at hx
      rw [collectNamesNodes_cons] at hx
      rcases List.mem_append.mp hx with h | h
      · exact List.mem_append.mpr (Or.inl h)
      · exact List.mem_append.mpr (Or.inr (ih x h))
    · simp only [List.filter_cons, hp, Bool.false_eq_true, if_false] at hx
      exact List.mem_append.mpr (Or.inr (ih x hx))

theorem collectNamesNodes_filter_nodup (d : Nat) (P : Node → Bool) (ns : List Node)
    (h : (collectNamesNodes (d + 1) ns).Nodup) : (collectNamesNodes (d + 1) (ns.filter P)).Nodup := by
  induction ns with
  | nil => simpa using h
  | cons a r ih =>
    rw [collectNamesNodes_cons] at h
    obtain ⟨h1, h2, h3⟩ := List.nodup_append.mp h
    by_cases hp : P a = true
    · simp only [List.filter_cons, hp, if_true]
      rw [collectNamesNodes_cons]
      apply List.nodup_append.mpr
      exact ⟨h1, ih h2, fun x hx y hy => h3 x hx y (collectNamesNodes_filter_sub d P r y hy)⟩
    · simp only [List.filter_cons, hp, Bool.false_eq_true, if_false]
      exact ih h2

end OV.C07
