import OV.Drivers.C11
/-! One request per line: `<Cxx> <args…>`; one canonical line out. -/
def dispatch (line : String) : String :=
  match (line.trimAscii.toString.splitOn " ").filter (· ≠ "") with
  | "C11" :: rest => OV.Drivers.C11.handle rest
  | _ => "bad-op"

partial def loop (hin : IO.FS.Stream) (hout : IO.FS.Stream) : IO Unit := do
  let line ← hin.getLine
  if line.isEmpty then return ()
  hout.putStrLn (dispatch line)
  hout.flush
  loop hin hout

def main : IO Unit := do loop (← IO.getStdin) (← IO.getStdout)
